"""Translator part for C14: validators and convert_value.

* statement-by-statement translation of the `validate` bodies of `Min`, `Max`, `MinLength`, `MaxLength`, `NotEmpty`, `IsUuid`,
  `IsEnum`, `MatchPattern`, `DatetimeIsoFormat`, `DateTimeUnixTimestamp` and `Email` into Lean functions over the exact number
  model `Num`, lengths (`Int`) and `Val` (class `Tr`): if/elif/else, comparisons, and/or/not, len(), isinstance against str /
  builtin type names / collections.abc.*, `.strip()`, conditional expression, attribute reads of self, `name = e`, `return`,
  `self.raise_exception` / `raise X(...)` -> `.raises <class>`, and `try: ... except (A, B): ...` (the `.raises e` arm of every
  call inside the try tests `catches <class>Caught<i> e`, innermost try first).  The standard-library callees (`UUID(str(x))`,
  `isinstance(x, str)`, `x.upper()`, `issubclass(self._enum, IntEnum)`, `int(x)`, `self._enum(x)`, `self._pattern.search(str(x))`,
  `re.fullmatch(self._pattern, x)`, `self._post_processor(x)`, `datetime.fromisoformat(x)`, `float(x)`, `timedelta(seconds=s)`,
  `datetime(y, m, d) + <timedelta>`) are recognised by template (`Oracle`) and become applications of opaque function
  parameters of the generated function; `__init__` must store the constructor parameters unchanged (`check_init*`).
  Source outside this subset raises `Skip`;
* tables: the class raised by `Validator.raise_exception`, the class hierarchy of exceptions.py, for every validator class
  the classes raised by its rejection statements, for every try statement the classes named by its `except` clause
  (`<class>Caught<i>`), `REGEX_EMAIL`, the `re` entry points used by Email / MatchPattern, the literal date that
  DateTimeUnixTimestamp adds the seconds to, and the structure of `convert_value`
  (isinstance shortcut, normalisation chain, bool literal lists, which targets have a branch of their own, caught / raised classes);
* `importTimeComputations`: everything the modules of the validators package (and convert_value.py) compute when they are
  IMPORTED - module-level and class-level statements other than imports / classes / functions / docstrings / assignments of a
  literal constant / a typing alias, parameter defaults other than literals, names and lambdas, decorators other than
  overrides(...) / abstractmethod / property / staticmethod / classmethod.  A value computed at import time is frozen with the
  environment of that moment (time zone, locale, clock); the theorems hold for functions of the arguments only, so the list
  must be empty (`no_import_time_computation`).
"""
import ast, re
from extract import Skip, src, find_func, lean_str, lean_bool, HEADER

VDIR = 'pedantic/decorators/fn_deco_validate/validators/'
EXC = {'ValidatorException': '.validator', 'ConversionError': '.conversion', 'ValidateException': '.validate',
       'ValueError': '.valueError', 'TypeError': '.typeError', 'OverflowError': '.overflowError',
       'AttributeError': '.attributeError', 'KeyError': '.keyError', 'IndexError': '.indexError',
       'ArithmeticError': '.arithmeticError', 'LookupError': '.lookupError', 'Exception': '.exception',
       'BaseException': '.baseException'}


def exc(name):
    return EXC.get(name, f'(.other {lean_str(name)})')


def exc_list(names):
    return '[' + ', '.join(exc(n) for n in names) + ']'


def name_of(node):
    if isinstance(node, ast.Name):
        return node.id
    if isinstance(node, ast.Attribute):
        return node.attr
    raise Skip('exception class is not a name: ' + ast.dump(node)[:80])


def handler_classes(h):
    if h.type is None:
        return ['BaseException']
    if isinstance(h.type, ast.Tuple):
        return [name_of(e) for e in h.type.elts]
    return [name_of(h.type)]


def is_raise_exception_call(node):
    return (isinstance(node, ast.Call) and isinstance(node.func, ast.Attribute) and node.func.attr == 'raise_exception'
            and isinstance(node.func.value, ast.Name) and node.func.value.id == 'self')


def rejection_class(stmt):
    """the Lean term of the class a statement raises when it is a rejection, else None"""
    if isinstance(stmt, ast.Expr) and is_raise_exception_call(stmt.value):
        return 'raiseExceptionClass'
    if isinstance(stmt, ast.Return) and stmt.value is not None and is_raise_exception_call(stmt.value):
        return 'raiseExceptionClass'
    if isinstance(stmt, ast.Raise):
        if stmt.exc is None:
            raise Skip('bare re-raise')
        if is_raise_exception_call(stmt.exc):
            return 'raiseExceptionClass'
        if isinstance(stmt.exc, ast.Call):
            return exc(name_of(stmt.exc.func))
        return exc(name_of(stmt.exc))
    return None


def strip_doc(body):
    return [s for s in body if not (isinstance(s, ast.Expr) and isinstance(s.value, ast.Constant) and isinstance(s.value.value, str))]


# ------------------------------------------------------------------ shallow translation of small validate() bodies

NUMCMP = {ast.Lt: 'Num.lt', ast.LtE: 'Num.le', ast.Gt: 'Num.gt', ast.GtE: 'Num.ge', ast.Eq: 'Num.eq', ast.NotEq: 'Num.ne'}
INTCMP = {ast.Lt: '<', ast.LtE: '≤', ast.Gt: '>', ast.GtE: '≥', ast.Eq: '=', ast.NotEq: '≠'}
ABC = {'Sized': 'Val.isSized', 'Sequence': 'Val.isSequence', 'Iterable': 'Val.isIterable'}


def _match_template(tpl, node, holes):
    """structural match of `node` against the template AST `tpl`; names `_0`, `_1`, … of the template are holes"""
    if isinstance(tpl, ast.Name) and re.fullmatch(r'_\d+', tpl.id):
        holes[int(tpl.id[1:])] = node
        return True
    if type(tpl) is not type(node):
        return False
    for f in tpl._fields:
        if f == 'ctx':
            continue
        a, b = getattr(tpl, f, None), getattr(node, f, None)
        if isinstance(a, list):
            if not isinstance(b, list) or len(a) != len(b) or not all(_match_template(x, y, holes) if isinstance(x, ast.AST) else x == y for x, y in zip(a, b)):
                return False
        elif isinstance(a, ast.AST):
            if not isinstance(b, ast.AST) or not _match_template(a, b, holes):
                return False
        elif a != b:
            return False
    return True


class Oracle:
    """a call the translation does not look into: `template` (python expression with holes `_0`, …) becomes the application of the
    opaque parameter `lean` to the translated holes; `arg_types` / `ret` are translation types; `raising`: the answer is an
    `Orc` (the call can raise, and what it raises goes to the enclosing `except` clauses), else a plain value"""

    def __init__(self, template, lean, arg_types, ret, raising):
        self.tpl = ast.parse(template, mode='eval').body
        self.lean, self.arg_types, self.ret, self.raising = lean, arg_types, ret, raising


LEAN_RESERVED = {'e', 'at', 'end', 'open', 'section', 'namespace', 'instance', 'theorem', 'show', 'have', 'by', 'calc', 'where', 'deriving',
                 'structure', 'universe', 'variable', 'mutual', 'local', 'private', 'protected', 'export', 'attribute', 'macro', 'syntax',
                 'notation', 'infix', 'prefix', 'postfix', 'using', 'nomatch', 'nofun', 'fun', 'do', 'then', 'let', 'match', 'abbrev',
                 'def', 'example', 'inductive', 'extends', 'unsafe', 'partial', 'noncomputable', 'from', 'suffices', 'obtain', 'catches'}
ISINSTANCE_NAMES = {'bool', 'int', 'float', 'str', 'bytes', 'list', 'tuple', 'set', 'dict'}


class Tr:
    """types: 'B' Bool, 'N' Num, 'I' Int, 'V' Val, 'T' a timedelta (whole microseconds, Int).

    Statement subset: `if`/`elif`/`else`, `return e`, `self.raise_exception(…)` / `raise X(…)`, `name = e`, and
    `try: … except (A, B): …` (no else/finally).  The translation is in continuation-passing form: the statements after an `if`
    or a `try` are translated once per path; a call of an `Oracle` that can raise becomes a `match` on its answer whose
    `.raises e` arm tests the `except` clauses of the enclosing `try` statements from the innermost outwards (first clause that
    catches `e` wins; its body, then the statements after that `try`, run outside it) and lets `e` escape when none does."""

    def __init__(self, env, what, oracles=(), tree=None):
        self.env = env          # python expression text -> (lean name, type)
        self.what = what
        self.oracles = list(oracles)
        self.tree = tree
        self.ntmp = 0
        self.epochs = []        # literal dates that a timedelta was added to

    def skip(self, node):
        raise Skip(f'{self.what}: outside the translated subset: {ast.unparse(node)[:70]}')

    def fresh(self):
        self.ntmp += 1
        return f't{self.ntmp - 1}'

    # ---------------------------------------------------------- expressions
    def pure(self, e, env):
        """an expression in a position that is evaluated conditionally: it must not contain a call that can raise"""
        binds = []
        r = self.expr(e, env, binds)
        if binds:
            self.skip(e)
        return r

    def expr(self, e, env=None, binds=None):
        env = self.env if env is None else env
        binds = [] if binds is None else binds
        key = ast.unparse(e)
        if key in env:
            return env[key]
        for o in self.oracles:
            holes = {}
            if _match_template(o.tpl, e, holes):
                args = []
                for i, ty in enumerate(o.arg_types):
                    a, t = self.expr(holes[i], env, binds)
                    if t != ty:
                        self.skip(e)
                    args.append(a)
                term = '(' + ' '.join([o.lean] + args) + ')' if args else o.lean
                if not o.raising:
                    return term, o.ret
                name = self.fresh()
                binds.append((name, term))
                return name, o.ret
        if isinstance(e, ast.Constant) and isinstance(e.value, bool):
            return lean_bool(e.value), 'B'
        if isinstance(e, ast.Constant) and isinstance(e.value, int):
            return f'({e.value} : Int)', 'I'
        if isinstance(e, ast.BoolOp):
            parts = [self.truth(e.values[0], env, binds)] + [self.pure_truth(v, env) for v in e.values[1:]]
            return '(' + (' && ' if isinstance(e.op, ast.And) else ' || ').join(parts) + ')', 'B'
        if isinstance(e, ast.UnaryOp) and isinstance(e.op, ast.Not):
            return f'(!{self.truth(e.operand, env, binds)})', 'B'
        if isinstance(e, ast.Compare) and len(e.ops) == 1:
            (l, tl), (r, tr_) = self.expr(e.left, env, binds), self.expr(e.comparators[0], env, binds)
            op = type(e.ops[0])
            if tl == tr_ == 'N' and op in NUMCMP:
                return f'({NUMCMP[op]} {l} {r})', 'B'
            if tl == tr_ == 'I' and op in INTCMP:
                return f'(decide ({l} {INTCMP[op]} {r}))', 'B'
            self.skip(e)
        if isinstance(e, ast.BinOp) and isinstance(e.op, ast.Add) and self.tree is not None:
            # <date> + <timedelta>  (either order): the date arithmetic is the opaque parameter `datetimePlus`, applied to the
            # generated table `dateTimeUnixTimestampEpoch` ([year, month, day] of the literal date, [] when it is not one)
            for a, b in ((e.left, e.right), (e.right, e.left)):
                tmp, n0 = [], self.ntmp
                try:
                    tb, ty = self.expr(b, env, tmp)
                except Skip:
                    self.ntmp = n0
                    continue
                if ty != 'T':
                    self.ntmp = n0
                    continue
                binds.extend(tmp)
                self.epochs.append(literal_date(a, self.tree))
                name = self.fresh()
                binds.append((name, f'(datetimePlus dateTimeUnixTimestampEpoch {tb})'))
                return name, 'V'
            self.skip(e)
        if isinstance(e, ast.Call):
            f = e.func
            if isinstance(f, ast.Name) and f.id == 'len' and len(e.args) == 1 and not e.keywords:
                a, t = self.expr(e.args[0], env, binds)
                if t == 'V':
                    return f'(Val.len {a})', 'I'
            if isinstance(f, ast.Name) and f.id == 'isinstance' and len(e.args) == 2 and not e.keywords:
                a, t = self.expr(e.args[0], env, binds)
                c = e.args[1]
                if t == 'V' and isinstance(c, ast.Name) and c.id == 'str':
                    return f'(Val.isStr {a})', 'B'
                if t == 'V' and isinstance(c, ast.Attribute) and c.attr in ABC and ast.unparse(c.value) in ('collections.abc', 'abc', 'collections'):
                    return f'({ABC[c.attr]} {a})', 'B'
                if t == 'V' and isinstance(c, ast.Name) and c.id in ABC:
                    return f'({ABC[c.id]} {a})', 'B'
                names = [c] if isinstance(c, ast.Name) else (list(c.elts) if isinstance(c, ast.Tuple) else [])
                if t == 'V' and names and all(isinstance(n, ast.Name) and n.id in ISINSTANCE_NAMES for n in names):
                    return f'(List.any [{", ".join(lean_str(n.id) for n in names)}] (Val.isInstanceOf {a}))', 'B'
            if isinstance(f, ast.Attribute) and f.attr == 'strip' and not e.args and not e.keywords:
                a, t = self.expr(f.value, env, binds)
                if t == 'V':
                    return f'(Val.strip isSpace {a})', 'V'
            self.skip(e)
        if isinstance(e, ast.IfExp):
            c = self.truth(e.test, env, binds)
            (a, ta), (b, tb) = self.pure(e.body, env), self.pure(e.orelse, env)
            if ta == tb:
                return f'(if {c} then {a} else {b})', ta
        self.skip(e)

    def truth(self, e, env=None, binds=None):
        s, t = self.expr(e, env, binds)
        if t == 'B':
            return s
        if t == 'V':
            return f'(Val.truthy {s})'
        self.skip(e)

    def pure_truth(self, e, env):
        binds = []
        r = self.truth(e, env, binds)
        if binds:
            self.skip(e)
        return r

    # ---------------------------------------------------------- statements
    def raise_(self, exc_term, scope, env, ret_type, ind):
        """`raise <exc_term>` at a point enclosed by the try statements of `scope` (innermost last)"""
        if not scope:
            return f'{" " * ind}.raises {exc_term}\n'
        (handlers, after), outer = scope[-1], scope[:-1]

        def chain(hs, i):
            if not hs:
                return self.raise_(exc_term, outer, env, ret_type, i)
            (table, hbody), more = hs[0], hs[1:]
            hcode = self.stmts([(x, outer) for x in hbody] + list(after), dict(env), ret_type, i + 2)
            return f'{" " * i}if catches {table} {exc_term} then\n{hcode}{" " * i}else\n' + chain(more, i + 2)
        return chain(list(handlers), ind)

    def with_binds(self, binds, scope, env, ret_type, ind, body):
        """evaluate the raising oracle calls `binds` in order, then `body(ind)`"""
        if not binds:
            return body(ind)
        (name, term), rest = binds[0], binds[1:]
        pad = ' ' * ind
        return (f'{pad}(match {term} with\n{pad}| .raises e =>\n' + self.raise_('e', scope, env, ret_type, ind + 2)
                + f'{pad}| .ok {name} =>\n' + self.with_binds(rest, scope, env, ret_type, ind + 2, body).rstrip('\n') + ')\n')

    def stmts(self, items, env=None, ret_type='V', ind=2):
        """translate a statement list whose every path ends in return / raise; `items`: statements or (statement, scope) pairs,
        scope = the enclosing try statements as ((except table, handler body)*, statements after the try) from the outermost inwards"""
        env = dict(self.env) if env is None else env
        items = [it if isinstance(it, tuple) else (it, ()) for it in items]
        items = [(s, sc) for s, sc in items if not (isinstance(s, ast.Expr) and isinstance(s.value, ast.Constant) and isinstance(s.value.value, str))]
        pad = ' ' * ind
        if not items:
            raise Skip(f'{self.what}: a path falls off the end of the function')
        (s, scope), rest = items[0], items[1:]
        r = rejection_class(s)
        if r is not None:
            return self.raise_(r, scope, env, ret_type, ind)
        if isinstance(s, ast.Pass):
            return self.stmts(rest, env, ret_type, ind)
        binds = []
        if isinstance(s, ast.Return):
            if s.value is None:
                self.skip(s)
            v, t = self.expr(s.value, env, binds)
            if t != ret_type:
                self.skip(s)
            return self.with_binds(binds, scope, env, ret_type, ind, lambda i: f'{" " * i}.ok {v}\n')
        if isinstance(s, ast.If):
            c = self.truth(s.test, env, binds)

            def body(i):
                then = self.stmts([(x, scope) for x in s.body] + rest, dict(env), ret_type, i + 2)
                els = self.stmts([(x, scope) for x in s.orelse] + rest, dict(env), ret_type, i + 2)
                return f'{" " * i}if {c} then\n{then}{" " * i}else\n{els}'
            return self.with_binds(binds, scope, env, ret_type, ind, body)
        if isinstance(s, ast.Assign) and len(s.targets) == 1 and isinstance(s.targets[0], ast.Name):
            name = s.targets[0].id
            if not re.fullmatch(r'[a-z][a-z0-9_]*', name) or re.fullmatch(r't\d+', name) or name in LEAN_RESERVED \
                    or any(name == ln for k, (ln, _) in self.env.items() if k != name):
                self.skip(s)
            v, t = self.expr(s.value, env, binds)

            def body(i):
                env2 = {k: x for k, x in env.items() if not _mentions(k, name)}
                env2[name] = (name, t)
                return f'{" " * i}let {name} := {v}\n' + self.stmts(rest, env2, ret_type, i)
            return self.with_binds(binds, scope, env, ret_type, ind, body)
        if isinstance(s, ast.Try):
            if s.orelse or s.finalbody or not s.handlers:
                self.skip(s)
            hs = []
            for h in s.handlers:
                if not hasattr(h, '_table'):
                    raise Skip(f'{self.what}: try statement without a generated except table')
                hs.append((h._table, h.body))
            grp = (tuple(hs), rest)
            return self.stmts([(x, scope + (grp,)) for x in s.body] + rest, env, ret_type, ind)
        self.skip(s)


def _indent(text, n):
    if n >= 0:
        return ''.join((' ' * n + l if l.strip() else l) for l in text.splitlines(True))
    return ''.join((l[-n:] if l.startswith(' ' * -n) else l) for l in text.splitlines(True))


def _mentions(expr_text, name):
    try:
        return any(isinstance(n, ast.Name) and n.id == name for n in ast.walk(ast.parse(expr_text, mode='eval')))
    except SyntaxError:
        return False


def literal_date(e, tree):
    """[year, month, day] when `e` is `datetime(<y>, <m>, <d>)` of int literals (a name bound once, at module level, is looked
    through: `EPOCH = datetime(1970, 1, 1)`, `EPOCH_YEAR = 1970`); [] for any other expression"""
    def resolve(x):
        seen = 0
        while isinstance(x, ast.Name) and seen < 5:
            v = module_constant(tree, x.id)
            if v is None:
                return x
            x, seen = v, seen + 1
        return x
    a = resolve(e)
    from_dt = {x.asname or x.name: x.name for n in tree.body if isinstance(n, ast.ImportFrom) and n.module == 'datetime' and not n.level for x in n.names}
    if not (isinstance(a, ast.Call) and isinstance(a.func, ast.Name) and from_dt.get(a.func.id) == 'datetime' and len(a.args) + len(a.keywords) == 3):
        return []
    parts = [resolve(x) for x in a.args] + [resolve(k.value) for k in a.keywords]
    if not all(isinstance(x, ast.Constant) and type(x.value) is int for x in parts):
        return []
    vals = dict(zip(['year', 'month', 'day'], [x.value for x in parts[:len(a.args)]]))
    for k, x in zip(a.keywords, parts[len(a.args):]):
        if k.arg not in ('year', 'month', 'day') or k.arg in vals:
            return []
        vals[k.arg] = x.value
    return [vals['year'], vals['month'], vals['day']]


def translate_validate(repo, fname, cls, lean_name, params, env, ret_type, doc, oracles=(), init=None, tables=None):
    """`tables`: {index of the try statement (source order): name of its generated except table}"""
    rel = VDIR + fname
    tree = ast.parse(src(repo, rel))
    fn = find_func(tree, 'validate', cls=cls)
    args = [a.arg for a in fn.args.args]
    if args != ['self', 'value'] or fn.args.vararg or fn.args.kwarg or fn.args.kwonlyargs:
        raise Skip(f'{cls}.validate: unexpected parameters {args}')
    if init is None:
        check_init(tree, cls, env)
    else:
        check_init_forms(tree, cls, init)
    tries = sorted([n for n in ast.walk(fn) if isinstance(n, ast.Try)], key=lambda n: (n.lineno, n.col_offset))
    for i, t in enumerate(tries):
        if len(t.handlers) != 1:
            raise Skip(f'{cls}.validate: a try statement with {len(t.handlers)} except clauses')
        t.handlers[0]._table = f'{lname(cls)}Caught{i}'
    tr = Tr(env, f'{cls}.validate', oracles, tree)
    body = tr.stmts(fn.body, None, ret_type, 2)
    rt = {'N': 'Num', 'V': 'Val'}[ret_type]
    text = f'/-- {rel}: `{cls}.validate`, translated statement by statement. {doc} -/\ndef {lean_name} {params} : VRes {rt} :=\n{body}'
    return text, tr


def check_init(tree, cls, env):
    """every `self.<attr>` the translation reads must be set in __init__ from the parameter of the same role, unchanged"""
    init = find_func(tree, '__init__', cls=cls)
    assigned = {}
    for s in strip_doc(init.body):
        if isinstance(s, ast.Assign) and len(s.targets) == 1 and isinstance(s.targets[0], ast.Attribute) \
                and isinstance(s.targets[0].value, ast.Name) and s.targets[0].value.id == 'self' and isinstance(s.value, ast.Name):
            assigned[s.targets[0].attr] = s.value.id
        else:
            raise Skip(f'{cls}.__init__: statement outside the subset: {ast.unparse(s)[:60]}')
    params = [a.arg for a in init.args.args][1:]
    for key in env:
        if key.startswith('self.'):
            attr = key[5:]
            if attr not in assigned or assigned[attr] not in params:
                raise Skip(f'{cls}.__init__ does not store a parameter in self.{attr}')
    return assigned


def check_init_forms(tree, cls, forms):
    """`forms`: {attribute: [allowed right-hand sides]}; {} = the class has no __init__ of its own.  Every statement of __init__
    is `self.<attr> = <expr>`, each attribute the translation reads is assigned exactly once, with one of the allowed expressions
    (a constructor parameter, or `re.compile` of it)"""
    inits = [n for c in tree.body if isinstance(c, ast.ClassDef) and c.name == cls for n in c.body
             if isinstance(n, ast.FunctionDef) and n.name == '__init__']
    if not forms:
        if inits:
            raise Skip(f'{cls} has an __init__ the translation does not know')
        return
    if len(inits) != 1:
        raise Skip(f'{cls}.__init__ not found')
    init = inits[0]
    params = [a.arg for a in init.args.args][1:]
    seen = {}
    for s in strip_doc(init.body):
        if not (isinstance(s, ast.Assign) and len(s.targets) == 1 and isinstance(s.targets[0], ast.Attribute)
                and isinstance(s.targets[0].value, ast.Name) and s.targets[0].value.id == 'self'):
            raise Skip(f'{cls}.__init__: statement outside the subset: {ast.unparse(s)[:60]}')
        attr = s.targets[0].attr
        if attr in seen:
            raise Skip(f'{cls}.__init__ assigns self.{attr} twice')
        seen[attr] = ast.unparse(s.value)
    for attr, allowed in forms.items():
        if seen.get(attr) not in allowed:
            raise Skip(f'{cls}.__init__ does not store its parameter in self.{attr} (found: {seen.get(attr)})')


# ------------------------------------------------------------------ tables

def validator_classes(repo):
    """(file, class, validate FunctionDef) for every validator module"""
    import os
    out = []
    for f in sorted(os.listdir(os.path.join(repo, VDIR))):
        if not f.endswith('.py') or f == '__init__.py':
            continue
        tree = ast.parse(src(repo, VDIR + f))
        for node in tree.body:
            if isinstance(node, ast.ClassDef):
                for n in node.body:
                    if isinstance(n, ast.FunctionDef) and n.name == 'raise_exception' and node.name != 'Validator':
                        raise Skip(f'{node.name} overrides raise_exception')
                for n in node.body:
                    if isinstance(n, ast.FunctionDef) and n.name == 'validate' and node.name != 'Validator':
                        out.append((f, node.name, n))
    return out


def rejections_and_caught(fn, what):
    """(classes raised by the rejection statements of the function, source order; for each try statement, source order: the
    classes named by its except clauses)"""
    rej, caught = [], []
    for node in ast.walk(fn):
        if isinstance(node, (ast.Expr, ast.Return, ast.Raise)):
            r = rejection_class(node)
            if r is not None:
                rej.append((node.lineno, node.col_offset, r))
        if isinstance(node, ast.Try):
            if node.finalbody or node.orelse:
                raise Skip(f'{what}: try with else/finally')
            cl = []
            for h in node.handlers:
                cl += handler_classes(h)
            caught.append((node.lineno, node.col_offset, cl))
    rej.sort()
    caught.sort()
    return [r for _, _, r in rej], [c for _, _, c in caught]


def lname(cls):
    return cls[0].lower() + cls[1:]


def re_entry(fn, what):
    """the `re` matching entry point called in the function: (`re.fullmatch` | `<compiled>.search` | ...) and its subject"""
    hits = []
    for node in ast.walk(fn):
        if isinstance(node, ast.Call) and isinstance(node.func, ast.Attribute) and node.func.attr in ('match', 'fullmatch', 'search', 'findall', 'finditer'):
            subj = None
            for k in node.keywords:
                if k.arg == 'string':
                    subj = k.value
            if subj is None and node.args:
                subj = node.args[-1]
            hits.append((node.func.attr, ast.unparse(subj) if subj is not None else ''))
    if not hits:
        return '', ''           # no `re` call at all: the table says so (and the theorem that pins the entry point fails)
    if len(hits) != 1:
        raise Skip(f'{what}: more than one call of a re matching function')
    return hits[0]


# ------------------------------------------------------------------ import-time computations

def is_literal(e):
    if isinstance(e, ast.Constant):
        return True
    if isinstance(e, ast.UnaryOp) and isinstance(e.op, (ast.USub, ast.UAdd)) and isinstance(e.operand, ast.Constant):
        return True
    if isinstance(e, (ast.Tuple, ast.List, ast.Set)):
        return all(is_literal(x) for x in e.elts)
    if isinstance(e, ast.Dict):
        return all(k is not None and is_literal(k) and is_literal(v) for k, v in zip(e.keys, e.values))
    return False


BUILTIN_TYPES = {'bool', 'int', 'float', 'str', 'bytes', 'dict', 'list', 'tuple', 'set', 'frozenset', 'object', 'type'}


def is_typing_alias(e, typing_names):
    """`Union[bool, int, ...]`, `Optional[str]`, `Callable[[str], str]`: subscripts of names imported from typing over type names"""
    def ty(x):
        if isinstance(x, ast.Name):
            return x.id in BUILTIN_TYPES or x.id in typing_names
        if isinstance(x, ast.Constant):
            return x.value is None or x.value is Ellipsis
        if isinstance(x, (ast.Tuple, ast.List)):
            return all(ty(y) for y in x.elts)
        if isinstance(x, ast.Subscript):
            return isinstance(x.value, ast.Name) and x.value.id in typing_names and ty(x.slice)
        return False
    return isinstance(e, ast.Subscript) and ty(e)


PURE_DATETIME = {'datetime', 'timedelta', 'date'}


def is_pure_constant(e, tree):
    """a literal, or an environment-independent constructor call on literals: `datetime(1970, 1, 1)` / `timedelta(...)` / `date(...)`
    (names imported from datetime, no tzinfo) and `re.compile(<literal>)` - NOT datetime.fromtimestamp / now / today, time.*, os.*"""
    if is_literal(e):
        return True
    if not isinstance(e, ast.Call) or any(isinstance(a, ast.Starred) for a in e.args) or any(k.arg in (None, 'tzinfo', 'tz') for k in e.keywords):
        return False
    args = list(e.args) + [k.value for k in e.keywords]
    from_dt = {a.asname or a.name: a.name for n in tree.body if isinstance(n, ast.ImportFrom) and n.module == 'datetime' and not n.level for a in n.names}
    imports = {a.asname or a.name: a.name for n in tree.body if isinstance(n, ast.Import) for a in n.names}
    f = e.func
    if isinstance(f, ast.Name) and from_dt.get(f.id) in PURE_DATETIME:
        return all(is_pure_constant(a, tree) for a in args) and len(e.args) <= 7
    if isinstance(f, ast.Attribute) and isinstance(f.value, ast.Name) and imports.get(f.value.id) == 're' and f.attr == 'compile':
        return all(is_literal(a) for a in args)
    return False


def module_constant(tree, name):
    """the value expression of the module-level name `name` when the whole module binds that name exactly once, by a plain
    top-level assignment (no other assignment, parameter, import, def, class, loop target, global declaration of it anywhere)"""
    n_bind = 0
    for n in ast.walk(tree):
        if isinstance(n, ast.Name) and isinstance(n.ctx, (ast.Store, ast.Del)) and n.id == name:
            n_bind += 1
        elif isinstance(n, ast.arg) and n.arg == name:
            n_bind += 1
        elif isinstance(n, (ast.Import, ast.ImportFrom)) and any((a.asname or a.name.split('.')[0]) == name for a in n.names):
            n_bind += 1
        elif isinstance(n, (ast.FunctionDef, ast.AsyncFunctionDef, ast.ClassDef)) and n.name == name:
            n_bind += 1
        elif isinstance(n, (ast.Global, ast.Nonlocal)) and name in n.names:
            n_bind += 1
        elif isinstance(n, ast.ExceptHandler) and n.name == name:
            n_bind += 1
    top = [n for n in tree.body if isinstance(n, ast.Assign) and len(n.targets) == 1 and isinstance(n.targets[0], ast.Name) and n.targets[0].id == name]
    return top[0].value if n_bind == 1 and len(top) == 1 else None


OK_DECORATORS = {'abstractmethod', 'property', 'staticmethod', 'classmethod'}


def import_time(tree):
    """descriptions of everything the module computes when it is imported (see the module docstring)"""
    typing_names = {a.asname or a.name for n in tree.body if isinstance(n, ast.ImportFrom) and n.module == 'typing' for a in n.names}
    out = []

    def short(n):
        return ' '.join(ast.unparse(n).split())[:70]

    def func(fn, where):
        for d in fn.decorator_list:
            ok = (isinstance(d, ast.Name) and d.id in OK_DECORATORS) or \
                 (isinstance(d, ast.Attribute) and d.attr in OK_DECORATORS | {'setter'}) or \
                 (isinstance(d, ast.Call) and isinstance(d.func, ast.Name) and d.func.id == 'overrides' and len(d.args) == 1
                  and not d.keywords and isinstance(d.args[0], ast.Name))
            if not ok:
                out.append(f'{where}{fn.name}: decorator @{short(d)}')
        a = fn.args
        for prm, dflt in list(zip((a.posonlyargs + a.args)[::-1], a.defaults[::-1])) + list(zip(a.kwonlyargs, a.kw_defaults)):
            if dflt is not None and not (is_pure_constant(dflt, tree) or isinstance(dflt, (ast.Name, ast.Lambda))):
                out.append(f'{where}{fn.name}: default {prm.arg}={short(dflt)}')

    def block(body, where):
        for n in body:
            if isinstance(n, (ast.Import, ast.ImportFrom, ast.Pass)):
                continue
            if isinstance(n, ast.Expr) and isinstance(n.value, ast.Constant):
                continue
            if isinstance(n, (ast.FunctionDef, ast.AsyncFunctionDef)):
                func(n, where)
                continue
            if isinstance(n, ast.ClassDef):
                if n.decorator_list or n.keywords or not all(isinstance(b, (ast.Name, ast.Attribute)) for b in n.bases):
                    out.append(f'{where}class {n.name}: decorators / computed bases')
                block(n.body, f'{where}{n.name}.')
                continue
            if isinstance(n, ast.Assign) and all(isinstance(t, ast.Name) for t in n.targets) \
                    and (is_pure_constant(n.value, tree) or is_typing_alias(n.value, typing_names)):
                continue
            if isinstance(n, ast.AnnAssign) and isinstance(n.target, ast.Name) and (n.value is None or is_pure_constant(n.value, tree)):
                continue
            out.append(f'{where}{short(n)}')
    block(tree.body, '')
    return out


def gen_import_time(repo):
    import os
    rows = []
    files = [VDIR + f for f in sorted(os.listdir(os.path.join(repo, VDIR))) if f.endswith('.py')]
    files.append('pedantic/decorators/fn_deco_validate/convert_value.py')
    for rel in files:
        for d in import_time(ast.parse(src(repo, rel))):
            rows.append((rel.split('/')[-1], d))
    return ('/-- everything the modules of the validators package and convert_value.py COMPUTE when they are imported: (file, statement) for\n'
            '    every module- / class-level statement other than an import, a class, a function, a docstring, the assignment of a literal\n'
            '    constant (or datetime / timedelta / date / re.compile of literals) or of a typing alias; every parameter default other than\n'
            '    such a constant, a name or a lambda; every decorator other than\n'
            '    overrides(...) / abstractmethod / property / staticmethod / classmethod.  Such a value is frozen with the environment of\n'
            '    the moment of the import (time zone, locale, clock) -/\n'
            'def importTimeComputations : List (String × String) := ['
            + ', '.join(f'({lean_str(a)}, {lean_str(b)})' for a, b in rows) + ']\n\n')


def gen_convert(repo):
    rel = 'pedantic/decorators/fn_deco_validate/convert_value.py'
    tree = ast.parse(src(repo, rel))
    fn = find_func(tree, 'convert_value')
    if [a.arg for a in fn.args.args] != ['value', 'target_type']:
        raise Skip('convert_value: unexpected parameters')
    body = strip_doc(fn.body)
    W = 'convert_value'
    # 1. isinstance shortcut (statements in front of it are reported as `convertPrelude`: they run unguarded, for every input)
    def is_shortcut(s0):
        return (isinstance(s0, ast.If) and ast.unparse(s0.test) == 'isinstance(value, target_type)' and not s0.orelse
                and len(s0.body) == 1 and isinstance(s0.body[0], ast.Return) and ast.unparse(s0.body[0].value) == 'value')
    idx = [i for i, st in enumerate(body) if is_shortcut(st)]
    if len(idx) != 1:
        raise Skip(f'{W}: the isinstance shortcut is not there exactly once')
    prelude = [' '.join(ast.unparse(st).split())[:100] for st in body[:idx[0]]]
    body = body[idx[0]:]
    shortcut = True
    # 2. normalisation chain  try: value = str(value).m1().m2()  except <classes>: raise <Class>(…)
    t1 = body[1]
    if not (isinstance(t1, ast.Try) and not t1.orelse and not t1.finalbody and len(t1.handlers) == 1 and len(t1.body) == 1):
        raise Skip(f'{W}: second statement is not `try: value = str(value)… except …`')
    s1 = t1.body[0]
    h1 = strip_doc(t1.handlers[0].body)
    if len(h1) != 1 or rejection_class(h1[0]) is None:
        raise Skip(f'{W}: the handler around str(value) does something other than raising')
    str_caught, str_raises = handler_classes(t1.handlers[0]), rejection_class(h1[0])
    if not (isinstance(s1, ast.Assign) and ast.unparse(s1.targets[0]) == 'value'):
        raise Skip(f'{W}: the try body is not `value = …`')
    chain, e = [], s1.value
    while isinstance(e, ast.Call) and isinstance(e.func, ast.Attribute) and not e.args and not e.keywords:
        chain.append(e.func.attr)
        e = e.func.value
    if ast.unparse(e) != 'str(value)':
        raise Skip(f'{W}: normalisation does not start from str(value)')
    chain.reverse()
    if not set(chain) <= {'strip', 'lower'}:
        raise Skip(f'{W}: normalisation uses methods other than strip/lower: {chain}')
    # 3. bool branch (optional: without it bool is converted like every other target, by `target_type(value)`)
    special = []
    rest = body[2:]
    true_l, false_l, bool_fail = [], [], '(.other "convert_value has no bool branch")'
    if rest and isinstance(rest[0], ast.If) and ast.unparse(rest[0].test) == 'target_type == bool':
        s2, rest = rest[0], rest[1:]
        if s2.orelse or len(s2.body) != 2:
            raise Skip(f'{W}: the `target_type == bool` branch changed')
        inner, fail = s2.body
        lits = []
        cur = inner
        while True:
            if not (isinstance(cur, ast.If) and isinstance(cur.test, ast.Compare) and len(cur.test.ops) == 1
                    and isinstance(cur.test.ops[0], ast.In) and ast.unparse(cur.test.left) == 'value'
                    and isinstance(cur.test.comparators[0], (ast.List, ast.Tuple, ast.Set))
                    and all(isinstance(x, ast.Constant) and isinstance(x.value, str) for x in cur.test.comparators[0].elts)
                    and len(cur.body) == 1 and isinstance(cur.body[0], ast.Return) and isinstance(cur.body[0].value, ast.Constant)
                    and isinstance(cur.body[0].value.value, bool)):
                raise Skip(f'{W}: bool branch is not a chain of `value in [literals]: return <bool>`')
            lits.append((cur.body[0].value.value, [x.value for x in cur.test.comparators[0].elts]))
            if not cur.orelse:
                break
            if len(cur.orelse) != 1:
                raise Skip(f'{W}: bool branch has an else block')
            cur = cur.orelse[0]
        true_l = [x for b, l in lits if b for x in l]
        false_l = [x for b, l in lits if not b for x in l]
        bool_fail = rejection_class(fail)
        if bool_fail is None:
            raise Skip(f'{W}: the bool branch does not end in a raise')
        special.append('bool')
    # 4. try block: optional list / dict branches (an if / elif chain), then `return target_type(value)`
    if len(rest) != 1 or not isinstance(rest[0], ast.Try) or rest[0].orelse or rest[0].finalbody or len(rest[0].handlers) != 1:
        raise Skip(f'{W}: the last statement is not a single try/except')
    s3 = rest[0]
    h = s3.handlers[0]
    hb = strip_doc(h.body)
    if len(hb) != 1 or rejection_class(hb[0]) is None:
        raise Skip(f'{W}: handler does something other than raising')
    tb = s3.body
    if not (tb and isinstance(tb[-1], ast.Return) and ast.unparse(tb[-1].value) == 'target_type(value)' and len(tb) <= 2):
        raise Skip(f'{W}: try body does not end in `return target_type(value)`')
    cur = tb[0] if len(tb) == 2 else None
    LIST_B = "return [item.strip() for item in value.split(',')]"
    DICT_B = "value = {item.split(':')[0].strip(): item.partition(':')[-1].strip() for item in value.split(',')}"
    while cur is not None:
        if not (isinstance(cur, ast.If) and len(cur.body) == 1 and len(cur.orelse) <= 1):
            raise Skip(f'{W}: try body is not an if / elif chain over the target type')
        test, stmt = ast.unparse(cur.test), ast.unparse(cur.body[0])
        if test == 'target_type == list' and stmt == LIST_B and 'list' not in special and 'dict' not in special:
            special.append('list')
        elif test == 'target_type == dict' and stmt == DICT_B and 'dict' not in special:
            special.append('dict')
        else:
            raise Skip(f'{W}: list / dict branch changed')
        cur = cur.orelse[0] if cur.orelse else None
    return f'''/-! {rel}: the structure of `convert_value` -/
/-- first statement is `if isinstance(value, target_type): return value` -/
def convertShortcut : Bool := {lean_bool(shortcut)}
/-- statements in front of it: they run for every input, outside every `try` (whatever they raise escapes as it is) -/
def convertPrelude : List String := [{', '.join(lean_str(c) for c in prelude)}]
/-- `try: value = str(value).<m1>().<m2>()`: the methods applied to `str(value)`, in order -/
def convertNormalise : List String := [{', '.join(lean_str(c) for c in chain)}]
/-- `except <classes>` around that assignment, and the class its handler raises -/
def convertStrCaught : List Exc := {exc_list(str_caught)}
def convertStrHandlerRaises : Exc := {str_raises}
/-- literals (after normalisation) converted to `True` / `False` -/
def convertBoolTrue : List String := [{', '.join(lean_str(c) for c in true_l)}]
def convertBoolFalse : List String := [{', '.join(lean_str(c) for c in false_l)}]
/-- class raised when no bool literal matches (outside the try block) -/
def convertBoolFail : Exc := {bool_fail}
/-- `except <classes>` of the try block around list / dict / `target_type(value)` -/
def convertCaught : List Exc := {exc_list(handler_classes(h))}
/-- class raised by that handler -/
def convertHandlerRaises : Exc := {rejection_class(hb[0])}
/-- targets with their own branch, in source order; every other target is `target_type(value)` -/
def convertSpecialTargets : List String := [{', '.join(lean_str(c) for c in special)}]
'''


def exc_bases(repo):
    rel = 'pedantic/decorators/fn_deco_validate/exceptions.py'
    tree = ast.parse(src(repo, rel))
    rows = []
    for node in tree.body:
        if isinstance(node, ast.ClassDef) and node.bases:
            rows.append((node.name, name_of(node.bases[0])))
    return rel, rows


RE_METHODS = ('match', 'fullmatch', 'search')


def gen_validators(repo):
    out = [HEADER.format(rel='pedantic/decorators/fn_deco_validate/{validators/*.py, convert_value.py, exceptions.py}'),
           'import PedVerif.Model.ValidatorsBase\nset_option linter.unusedVariables false\nnamespace PedVerif.Gen.Validators\nopen PedVerif.Validators\n\n']
    # raise_exception
    av = ast.parse(src(repo, VDIR + 'abstract_validator.py'))
    rex = find_func(av, 'raise_exception', cls='Validator')
    rb = strip_doc(rex.body)
    if len(rb) != 1 or not isinstance(rb[0], ast.Raise) or not isinstance(rb[0].exc, ast.Call):
        raise Skip('Validator.raise_exception is not a single `raise <Class>(…)`')
    out.append(f'/-- {VDIR}abstract_validator.py: `Validator.raise_exception` is `raise <this class>(…)` -/\n'
               f'def raiseExceptionClass : Exc := {exc(name_of(rb[0].exc.func))}\n\n')
    rel, rows = exc_bases(repo)
    out.append(f'/-- {rel}: (class, first base) -/\ndef excBases : List (String × String) := ['
               + ', '.join(f'({lean_str(a)}, {lean_str(b)})' for a, b in rows) + ']\n\n')
    # per-class rejection / except tables
    classes = validator_classes(repo)
    tab_rej = []
    per = {}
    for f, cls, fn in classes:
        rej, caught = rejections_and_caught(fn, f'{cls}.validate')
        per[cls] = (rej, caught, fn)
        tab_rej.append(f'({lean_str(cls)}, [{", ".join(rej)}])')
    expected = ['Composite', 'DatetimeIsoFormat', 'DateTimeUnixTimestamp', 'Email', 'IsEnum', 'ForEach', 'IsUuid', 'MatchPattern',
                'Max', 'MaxLength', 'Min', 'MinLength', 'NotEmpty']
    if sorted(per) != sorted(expected):
        raise Skip(f'validator classes changed: {sorted(per)}')
    out.append('/-- for every validator class: the classes raised on the rejection paths of `validate` (source order) -/\n'
               'def rejects : List (String × List Exc) := [\n  ' + ',\n  '.join(tab_rej) + ']\n')
    out.append('\n')
    out.append('/-! the except tables the translated functions below test with `catches`: `<class>Caught<i>` = the classes named by the\n'
               '    except clause of the i-th try statement of `<class>.validate` -/\n')
    for f, cls, fn in classes:
        for i, c in enumerate(per[cls][1]):
            out.append(f'def {lname(cls)}Caught{i} : List Exc := {exc_list(c)}\n')
    out.append('\n')
    if len(set(per['ForEach'][0])) != 1:
        raise Skip('ForEach.validate: rejection paths raise different classes (or none)')
    out.append(f'/-- class raised by the (only) guard rejection of ForEach (its loop is modelled by hand: `run`) -/\n'
               f'def forEachRejects : Exc := {per["ForEach"][0][0]}\n\n')
    if per['Composite'][0] or per['Composite'][1]:
        raise Skip('Composite.validate raises or catches on its own')
    # translated functions
    num_env = {'value': ('value', 'N'), 'self._value': ('self_value', 'N'), 'self._include_boundary': ('self_include_boundary', 'B')}
    out.append(translate_validate(repo, 'min.py', 'Min', 'minValidate', '(self_value : Num) (self_include_boundary : Bool) (value : Num)', num_env, 'N', '')[0] + '\n')
    out.append(translate_validate(repo, 'max.py', 'Max', 'maxValidate', '(self_value : Num) (self_include_boundary : Bool) (value : Num)', num_env, 'N', '')[0] + '\n')
    len_env = {'value': ('value', 'V'), 'self._length': ('self_length', 'I')}
    out.append(translate_validate(repo, 'min_length.py', 'MinLength', 'minLengthValidate', '(self_length : Int) (value : Val)', len_env, 'V', '')[0] + '\n')
    out.append(translate_validate(repo, 'max_length.py', 'MaxLength', 'maxLengthValidate', '(self_length : Int) (value : Val)', len_env, 'V', '')[0] + '\n')
    ne_env = {'value': ('value', 'V'), 'self.strip': ('self_strip', 'B')}
    out.append(translate_validate(repo, 'not_empty.py', 'NotEmpty', 'notEmptyValidate', '(isSpace : Char → Bool) (self_strip : Bool) (value : Val)', ne_env, 'V',
                                  '`isSpace` is the whitespace predicate of `str.strip()`.')[0] + '\n')
    # validators that ask the standard library: the callees are opaque parameters (`Orc` = the answer or the class raised)
    out.append(translate_validate(
        repo, 'is_uuid.py', 'IsUuid', 'isUuidValidate', '(self_convert : Bool) (uuidOfStr : Val → Orc Val) (value : Val)',
        {'value': ('value', 'V'), 'self._convert': ('self_convert', 'B')}, 'V',
        '`uuidOfStr x` is the answer of `UUID(str(x))`.',
        oracles=[Oracle('UUID(str(_0))', 'uuidOfStr', ['V'], 'V', True)], init={'_convert': ['convert']})[0] + '\n')
    out.append(translate_validate(
        repo, 'enum.py', 'IsEnum', 'isEnumValidate',
        '(self_convert self_to_upper_case : Bool) (isStrInst : Val → Bool) (upperOf : Val → Val) (isIntEnum : Bool) (intOf enumOf : Val → Orc Val) (value : Val)',
        {'value': ('value', 'V'), 'self._convert': ('self_convert', 'B'), 'self._to_upper_case': ('self_to_upper_case', 'B')}, 'V',
        '`isStrInst x` = `isinstance(x, str)`, `upperOf x` = `x.upper()`, `isIntEnum` = `issubclass(self._enum, IntEnum)`, '
        '`intOf x` the answer of `int(x)`, `enumOf x` that of `self._enum(x)`.',
        oracles=[Oracle('isinstance(_0, str)', 'isStrInst', ['V'], 'B', False), Oracle('_0.upper()', 'upperOf', ['V'], 'V', False),
                 Oracle('issubclass(self._enum, IntEnum)', 'isIntEnum', [], 'B', False), Oracle('int(_0)', 'intOf', ['V'], 'V', True),
                 Oracle('self._enum(_0)', 'enumOf', ['V'], 'V', True)],
        init={'_enum': ['enum'], '_convert': ['convert'], '_to_upper_case': ['to_upper_case']})[0] + '\n')
    out.append(translate_validate(
        repo, 'match_pattern.py', 'MatchPattern', 'matchPatternValidate', '(reMatch : Val → Orc Bool) (value : Val)',
        {'value': ('value', 'V')}, 'V',
        '`reMatch x` is the answer of `self._pattern.<matchPatternMethod>(<matchPatternSubject>)` for `value = x` (is there a match?).',
        oracles=[Oracle(f'self._pattern.{m}({a})', 'reMatch', ['V'], 'B', True) for m in RE_METHODS
                 for a in ('string=str(_0)', 'str(_0)', 'string=_0', '_0')],
        init={'_pattern': ['re.compile(pattern=pattern)', 're.compile(pattern)']})[0] + '\n')
    out.append(translate_validate(
        repo, 'datetime_isoformat.py', 'DatetimeIsoFormat', 'datetimeIsoFormatValidate', '(fromIso : Val → Orc Val) (value : Val)',
        {'value': ('value', 'V')}, 'V', '`fromIso x` is the answer of `datetime.fromisoformat(x)`.',
        oracles=[Oracle('datetime.fromisoformat(_0)', 'fromIso', ['V'], 'V', True)], init={})[0] + '\n')
    ux_text, ux_tr = translate_validate(
        repo, 'datetime_unix_timestamp.py', 'DateTimeUnixTimestamp', 'dateTimeUnixTimestampValidate',
        '(floatOf : Val → Orc Num) (timedeltaOf : Num → Orc Int) (datetimePlus : List Int → Int → Orc Val) (value : Val)',
        {'value': ('value', 'V')}, 'V',
        '`floatOf x` is the answer of `float(x)`, `timedeltaOf s` that of `timedelta(seconds=s)` in whole microseconds, '
        '`datetimePlus [y, m, d] us` that of `datetime(y, m, d) + <timedelta of us microseconds>`.',
        oracles=[Oracle('float(_0)', 'floatOf', ['V'], 'N', True), Oracle('timedelta(seconds=_0)', 'timedeltaOf', ['N'], 'T', True)], init={})
    eps = ux_tr.epochs
    if len(eps) > 1 and any(e != eps[0] for e in eps):
        raise Skip('DateTimeUnixTimestamp.validate: timedeltas are added to different dates')
    ep = eps[0] if eps else []
    it = gen_import_time(repo)
    if eps and not ep and it.rstrip().endswith(':= []'):
        # not a literal date and nothing computed at import time either (e.g. an inline call): outside the subset - the
        # correspondence check (which runs the timestamps in several time zones) decides alone
        raise Skip('DateTimeUnixTimestamp.validate: the seconds are not added to a literal date')
    out.append(f'/-- the summand `datetime(<year>, <month>, <day>)` of `<it> + timedelta(seconds=seconds)`: [year, month, day] of the\n'
               f'    literal date (a name bound once, at module level, to such a literal is looked through); `[]` when the summand is a value\n'
               f'    computed at import time (see `importTimeComputations`) or when nothing is added at all -/\n'
               f'def dateTimeUnixTimestampEpoch : List Int := [{", ".join(str(x) for x in ep)}]\n\n')
    out.append(ux_text + '\n')
    # e-mail pattern and re entry points
    em = ast.parse(src(repo, VDIR + 'email.py'))
    pat = None
    for node in em.body:
        if isinstance(node, ast.Assign) and ast.unparse(node.targets[0]) == 'REGEX_EMAIL' and isinstance(node.value, ast.Constant) and isinstance(node.value.value, str):
            pat = node.value.value
    if pat is None:
        raise Skip('REGEX_EMAIL is not a string literal')
    init = find_func(em, '__init__', cls='Email')
    defaults = dict(zip([a.arg for a in init.args.args][-len(init.args.defaults):], init.args.defaults))
    if ast.unparse(defaults.get('email_pattern', ast.Constant(0))) != 'REGEX_EMAIL':
        raise Skip('Email.__init__: default of email_pattern is not REGEX_EMAIL')
    out.append(translate_validate(
        repo, 'email.py', 'Email', 'emailValidate', '(reMatch : Val → Orc Bool) (post : Val → Val) (value : Val)',
        {'value': ('value', 'V')}, 'V',
        '`reMatch x` is the answer of `re.<emailMethod>(self._pattern, <emailSubject>)` for `value = x` (is there a match?), `post` the `post_processor`.',
        oracles=[Oracle(f're.{m}({a})', 'reMatch', ['V'], 'B', True) for m in RE_METHODS
                 for a in ('pattern=self._pattern, string=_0', 'self._pattern, _0', 'self._pattern, string=_0')]
        + [Oracle('self._post_processor(_0)', 'post', ['V'], 'V', False)],
        init={'_pattern': ['email_pattern'], '_post_processor': ['post_processor']})[0] + '\n')
    meth, subj = re_entry(per['Email'][2], 'Email.validate')
    out.append(f'/-- {VDIR}email.py: `REGEX_EMAIL` (the default of `email_pattern`) -/\ndef regexEmail : String := {lean_str(pat)}\n'
               f'/-- the `re` function `Email.validate` calls, and its subject -/\ndef emailMethod : String := {lean_str(meth)}\n'
               f'def emailSubject : String := {lean_str(subj)}\n')
    meth, subj = re_entry(per['MatchPattern'][2], 'MatchPattern.validate')
    out.append(f'/-- {VDIR}match_pattern.py: the method of the compiled pattern `MatchPattern.validate` calls, and its subject -/\n'
               f'def matchPatternMethod : String := {lean_str(meth)}\ndef matchPatternSubject : String := {lean_str(subj)}\n\n')
    out.append(it)
    out.append(gen_convert(repo))
    out.append('\nend PedVerif.Gen.Validators\n')
    return ''.join(out)


FILES = {'Validators.lean': gen_validators}
