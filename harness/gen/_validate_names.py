"""The table of names shared by the C12/C13 harness (props/_validate_common.py: a name on the wire is its index) and the translator
(gen/validate.py: string literals of the source that are compared with a key are translated to these indices).
The first twelve entries are fixed: Lean's `selfName` = 0, `argsName` = 1, `emptyName` = 11."""

NAMES = ['self', 'args', 'a', 'b', 'c', 'd', 'zz', 'yy', 'kwargs', 'cls', 'rest', '',
         # single letters and every other proper substring of `self`; superstrings of it
         's', 'e', 'l', 'f', 'se', 'el', 'lf', 'sel', 'elf', 'selfie', 'myself', 'self_', '_self', 'Self',
         # substrings / superstrings of `cls`, `args`, `kwargs`
         'cl', 'ls', 'clss', 'arg', 'ar', 'rgs', 'args_', 'kw', 'kwarg', 'wargs', 'kwargs_', 'r', 'g', 'k', 'w',
         # names the library itself uses as keywords / locals
         'value', 'key', 'name', 'validators', 'default', 'required', 'parameter', 'parameters', 'result', 'v', 'func', 'strict',
         'value_type', 'return_as', 'ignore_input', 'signature', 'x', 'y']
assert len(set(NAMES)) == len(NAMES) and NAMES[0] == 'self' and NAMES[1] == 'args' and NAMES[11] == ''
