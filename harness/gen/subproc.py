"""Translator part for C17: the protocol of `calculate_in_subprocess` as a flat instruction list (a tiny compiler for the
statement shapes that occur there: straight-line protocol calls, `if not rx.poll(): await event.wait()`,
try/except/finally), the shape of `_inner` (what is caught, what is sent) and of the `in_subprocess` wrapper.

The ORDER of the protocol statements is what the Lean theorems are about: the generated `prog` is interpreted by
`PedVerif.Subproc` and every theorem of Props/C17 is checked about it.  Reordering that keeps the property re-proves;
dropping `tx.close()`, `remove_reader`, `join`, `rx.close()` or the EOF handler does not.

HOW readiness is tested before the wait is part of the instruction: `if not rx.poll(): await event.wait()` (a zero-timeout poll of the
Connection — multiprocess waits with selectors.PollSelector, any descriptor number) becomes `pollWait`; `if not select.select([rx], [], [], 0)[0]`
becomes `selectWait`, which the model lets raise when the read end's descriptor number is >= FD_SETSIZE (`local_ok` and
`readiness_by_connection_poll` do not re-prove); any other test is outside the subset (Skip).

Also read off: whether `join` is given a timeout (`process.join(timeout=..)` / `process.join(1.0)` becomes the instruction
`joinTimeout`, which goes on without having reaped a child that needs longer — `terminates_and_releases` does not re-prove), and
whether the child is made daemonic (`Process(.., daemon=..)` or `process.daemon = ..`: a daemonic process may not start
processes of its own, so a callee that does raises instead of returning — `childBeh_table` / `source_shape` do not re-prove).

Second generated file, `SubprocModule.lean` (never skipped for a change of the protocol statements): everything in the module
that could carry state from one invocation to the next, or from one event loop to the next — module-level names bound by anything
but imports / classes / functions / `T = TypeVar(..)`, class attributes, `with` / `async with` statements, acquire / release
calls and mentions of synchronisation primitives (Semaphore, Lock, …) in any function, `global` / `nonlocal`, stores through
objects that are not locals, mutable defaults, decorators other than `@wraps(..)`; and `calleeTouchedInParent`: every use the parent side
(`in_subprocess`, its wrapper, `calculate_in_subprocess`) makes of the callee or of the caller's `*args` / `**kwargs` other than passing
them on unchanged (`inspect.signature(func)`, `signature.bind(*args, **kwargs)`, `len(args)`, … — `callee_and_arguments_only_passed_on`).
`no_state_between_invocations` (Props/C17)
proves the three lists empty by `decide`: the N-invocation theorems are about invocations that share nothing but the event
loop's reader table, and a module that keeps such state is outside them."""
import ast
from extract import Skip, src, find_func, lean_bool, lean_str, HEADER

REL = 'pedantic/decorators/fn_deco_in_subprocess.py'


def _name(n):
    return n.id if isinstance(n, ast.Name) else None


def _is_method_call(node, obj, meth):
    return (isinstance(node, ast.Call) and isinstance(node.func, ast.Attribute) and node.func.attr == meth
            and _name(node.func.value) == obj)


def _is_const(node, values):
    return isinstance(node, ast.Constant) and any(node.value is v for v in values)


def _arg(call, pos, kw):
    if len(call.args) > pos:
        return call.args[pos]
    for k in call.keywords:
        if k.arg == kw:
            return k.value
    return None


class Comp:
    """compiles the body into a list of [op, onEof, onErr] with symbolic labels, resolved at the end"""

    def __init__(self):
        self.code = []          # entries: ['op', name, eofLabel, errLabel] | ['label', id]
        self.nlabels = 0
        self.names = {}         # role -> python name
        self.proc_args_ok = False
        self.daemon = False     # the child is started as a daemonic process
        self.seen = []

    def label(self):
        self.nlabels += 1
        return self.nlabels

    def emit(self, op, ctx, arg=None):
        self.code.append(['op', op, ctx['eof'], ctx['err'], ctx['cancel'], arg])
        self.seen.append(op)

    def place(self, lab):
        self.code.append(['label', lab])

    # ---- statement recognisers
    def simple(self, s, ctx):
        N = self.names
        if isinstance(s, ast.Pass):
            return True
        if isinstance(s, ast.Expr) and isinstance(s.value, ast.Constant):
            return True
        # if Pipe is None: raise ImportError(...)
        if isinstance(s, ast.If) and isinstance(s.test, ast.Compare) and len(s.test.ops) == 1 and isinstance(s.test.ops[0], ast.Is) \
                and isinstance(s.test.comparators[0], ast.Constant) and s.test.comparators[0].value is None \
                and len(s.body) == 1 and isinstance(s.body[0], ast.Raise) and not s.orelse and _name(s.test.left) in ('Pipe', 'Process'):
            return True
        if isinstance(s, ast.Assign) and len(s.targets) == 1:
            t, v = s.targets[0], s.value
            # rx, tx = Pipe(duplex=False)
            if isinstance(t, ast.Tuple) and len(t.elts) == 2 and all(isinstance(e, ast.Name) for e in t.elts) \
                    and isinstance(v, ast.Call) and _name(v.func) == 'Pipe':
                dup = _arg(v, 0, 'duplex')
                if not (isinstance(dup, ast.Constant) and dup.value is False):
                    raise Skip('Pipe() is not created with duplex=False')
                if 'rx' in N:
                    raise Skip('two Pipe() calls')
                N['rx'], N['tx'] = t.elts[0].id, t.elts[1].id
                self.emit('pipe', ctx)
                return True
            if isinstance(t, ast.Name) and isinstance(v, ast.Call):
                # process = Process(target=_inner, args=(tx, func, *args), kwargs=kwargs)
                if _name(v.func) == 'Process':
                    N['process'] = t.id
                    tgt, args, kw = _arg(v, 99, 'target'), _arg(v, 99, 'args'), _arg(v, 99, 'kwargs')
                    for k in v.keywords:
                        if k.arg is None:
                            raise Skip('Process(**..): keywords not visible')
                        if k.arg == 'daemon':
                            self.daemon = self.daemon or not _is_const(k.value, (False, None))
                        elif k.arg not in ('target', 'args', 'kwargs', 'name', 'group'):
                            raise Skip(f'Process(): unknown keyword {k.arg}')
                    self.proc_args_ok = (_name(tgt) == '_inner' and isinstance(args, ast.Tuple) and len(args.elts) == 3
                                         and _name(args.elts[0]) == N.get('tx') and _name(args.elts[1]) == 'func'
                                         and isinstance(args.elts[2], ast.Starred) and _name(args.elts[2].value) == 'args'
                                         and _name(kw) == 'kwargs')
                    return True
                # event = asyncio.Event()
                if isinstance(v.func, ast.Attribute) and v.func.attr == 'Event' and not v.args and not v.keywords:
                    N['event'] = t.id
                    return True
                # loop = asyncio.get_event_loop() / get_running_loop()
                if isinstance(v.func, ast.Attribute) and v.func.attr in ('get_event_loop', 'get_running_loop'):
                    N['loop'] = t.id
                    return True
                # result = rx.recv()
                if 'rx' in N and _is_method_call(v, N['rx'], 'recv') and not v.args:
                    N.setdefault('result', t.id)
                    if N['result'] != t.id:
                        raise Skip('recv() result stored under two names')
                    self.emit('recv', ctx)
                    return True
                # result = SubprocessError(ex=ChildProcessError(...))
                if N.get('result') == t.id or 'result' not in N:
                    if _name(v.func) == 'SubprocessError':
                        ex = _arg(v, 0, 'ex')
                        if isinstance(ex, ast.Call) and _name(ex.func) == 'ChildProcessError':
                            N.setdefault('result', t.id)
                            self.emit('setChildProcessError', ctx)
                            return True
            # process.daemon = <value>
            if isinstance(t, ast.Attribute) and t.attr == 'daemon' and 'process' in N and _name(t.value) == N['process']:
                self.daemon = not _is_const(v, (False,))
                return True
            if isinstance(t, ast.Name) and N.get('result') == t.id:
                # any other value stored as the result: the caller gets something that is not the child's result
                self.emit('setForeign', ctx)
                return True
            return False
        if isinstance(s, ast.Expr):
            c = s.value
            if 'process' in N and _is_method_call(c, N['process'], 'start'):
                self.emit('start', ctx); return True
            if 'process' in N and _is_method_call(c, N['process'], 'join'):
                to = _arg(c, 0, 'timeout')
                if len(c.args) > 1 or any(k.arg != 'timeout' for k in c.keywords):
                    raise Skip('process.join(): unknown arguments')
                # join() / join(None) / join(timeout=None) wait for the child; anything else gives up after a while
                self.emit('join' if (to is None or _is_const(to, (None,))) else 'joinTimeout', ctx); return True
            if 'process' in N and (_is_method_call(c, N['process'], 'terminate') or _is_method_call(c, N['process'], 'kill')) \
                    and not c.args and not c.keywords:
                self.emit('terminate', ctx); return True
            if 'tx' in N and _is_method_call(c, N['tx'], 'close'):
                self.emit('closeTx', ctx); return True
            if 'rx' in N and _is_method_call(c, N['rx'], 'close'):
                self.emit('closeRx', ctx); return True
            if 'event' in N and _is_method_call(c, N['event'], 'clear'):
                self.emit('clearEvent', ctx); return True
            if 'loop' in N and _is_method_call(c, N['loop'], 'add_reader'):
                fd, cb = _arg(c, 0, 'fd'), _arg(c, 1, 'callback')
                if not (fd is not None and _is_method_call(fd, N.get('rx'), 'fileno')):
                    raise Skip('add_reader: fd is not rx.fileno()')
                if not (isinstance(cb, ast.Attribute) and cb.attr == 'set' and _name(cb.value) == N.get('event')):
                    raise Skip('add_reader: callback is not event.set')
                self.emit('addReader', ctx); return True
            if 'loop' in N and _is_method_call(c, N['loop'], 'remove_reader'):
                fd = _arg(c, 0, 'fd')
                if not (fd is not None and _is_method_call(fd, N.get('rx'), 'fileno')):
                    raise Skip('remove_reader: fd is not rx.fileno()')
                self.emit('removeReader', ctx); return True
            if self.is_await_wait(c):
                self.emit('wait', ctx); return True
            return False
        # if not <rx is readable right now>: await event.wait()   — HOW readiness is tested decides the instruction:
        #   rx.poll() (a zero-timeout poll of the Connection: multiprocess waits with selectors.PollSelector, any descriptor number) -> pollWait
        #   select.select([rx], [], [], 0)[0] (a zero-timeout select(): descriptor numbers below FD_SETSIZE only)                  -> selectWait
        #   anything else (a poll with a timeout blocks the loop, process.is_alive() says nothing about the pipe, …)               -> Skip
        if isinstance(s, ast.If) and not s.orelse and len(s.body) == 1 and isinstance(s.body[0], ast.Expr) \
                and self.is_await_wait(s.body[0].value):
            how = self.readiness(s.test)
            if how is None:
                raise Skip(f'calculate_in_subprocess: the readiness test before `await event.wait()` is neither `not rx.poll()` nor a '
                           f'zero-timeout select() on rx (line {s.lineno}): {ast.unparse(s.test)[:60]}')
            self.emit(how, ctx); return True
        # if isinstance(result, SubprocessError): raise result.exception
        if isinstance(s, ast.If) and not s.orelse and len(s.body) == 1 and isinstance(s.body[0], ast.Raise):
            t, r = s.test, s.body[0]
            if isinstance(t, ast.Call) and _name(t.func) == 'isinstance' and len(t.args) == 2 and _name(t.args[0]) == N.get('result') \
                    and _name(t.args[1]) == 'SubprocessError' and isinstance(r.exc, ast.Attribute) and r.exc.attr == 'exception' \
                    and _name(r.exc.value) == N.get('result') and r.cause is None:
                if ctx['depth'] != 0:
                    raise Skip('`raise result.exception` inside a try statement')
                self.emit('raiseIfError', ctx); return True
            return False
        if isinstance(s, ast.Return):
            if _name(s.value) == N.get('result') and s.value is not None:
                if ctx['depth'] != 0:
                    raise Skip('`return result` inside a try statement')
                self.emit('ret', ctx); return True
            return False
        return False

    def is_await_wait(self, c):
        return isinstance(c, ast.Await) and _is_method_call(c.value, self.names.get('event'), 'wait') and not c.value.args

    def readiness(self, t):
        """`t` = the condition under which the coroutine goes to sleep = "rx is NOT readable right now".  -> 'pollWait' | 'selectWait' | None"""
        rx = self.names.get('rx')

        def zero(x):
            return isinstance(x, ast.Constant) and type(x.value) in (int, float) and x.value == 0

        def poll(x):
            # rx.poll() / rx.poll(0) / rx.poll(0.0) / rx.poll(timeout=0): the timeout defaults to 0.0
            if not _is_method_call(x, rx, 'poll') or len(x.args) > 1 or any(k.arg != 'timeout' for k in x.keywords):
                return False
            to = _arg(x, 0, 'timeout')
            return to is None or zero(to)

        def is_rx(x):
            return _name(x) == rx or _is_method_call(x, rx, 'fileno') and not x.args and not x.keywords

        def empty(x):
            return isinstance(x, (ast.List, ast.Tuple)) and not x.elts

        def select0(x):
            # select.select([rx], [], [], 0)[0]  /  select([rx.fileno()], (), (), 0.0)[0]: the list of readable objects
            if not (isinstance(x, ast.Subscript) and isinstance(x.slice, ast.Constant) and x.slice.value == 0):
                return False
            c = x.value
            if not (isinstance(c, ast.Call) and not c.keywords and len(c.args) == 4):
                return False
            f = c.func
            if not (_name(f) == 'select' or isinstance(f, ast.Attribute) and f.attr == 'select' and _name(f.value) == 'select'):
                return False
            r, w, e, to = c.args
            return isinstance(r, (ast.List, ast.Tuple)) and len(r.elts) == 1 and is_rx(r.elts[0]) and empty(w) and empty(e) and zero(to)

        for test, how in ((poll, 'pollWait'), (select0, 'selectWait')):
            if isinstance(t, ast.UnaryOp) and isinstance(t.op, ast.Not) and test(t.operand):
                return how
            if how == 'pollWait' and isinstance(t, ast.Compare) and len(t.ops) == 1 and isinstance(t.ops[0], (ast.Is, ast.Eq)) and test(t.left) \
                    and isinstance(t.comparators[0], ast.Constant) and t.comparators[0].value is False:
                return how
        return None

    def block(self, stmts, ctx):
        for s in stmts:
            if isinstance(s, ast.Try):
                self.try_stmt(s, ctx)
            elif not self.simple(s, ctx):
                raise Skip(f'calculate_in_subprocess: statement outside the translated subset at line {s.lineno}: {ast.unparse(s)[:60]}')

    def try_stmt(self, s, ctx):
        """three kinds of exception are told apart: EOFError, any other error (an `Exception`), and the CancelledError that asyncio raises
        at the `await` when the awaiting task is cancelled / timed out — a BaseException: `except Exception` / `except OSError` /
        `except EOFError` do NOT catch it, `except BaseException`, a bare `except` and `finally` do"""
        KINDS = ('eof', 'err', 'cancel')
        catches = {k: None for k in KINDS}
        hlabels = []
        for h in s.handlers:
            lab = self.label()
            hlabels.append(lab)
            tn = (h.type.attr if isinstance(h.type, ast.Attribute) else _name(h.type)) if h.type is not None else 'BaseException'
            kinds = {'EOFError': ['eof'], 'OSError': ['err'], 'Exception': ['eof', 'err'], 'BaseException': ['eof', 'err', 'cancel'],
                     'CancelledError': ['cancel']}.get(tn)
            if kinds is None:
                raise Skip(f'except clause names {ast.unparse(h.type)}')
            for k in kinds:
                if catches[k] is None:
                    catches[k] = lab
        has_fin = bool(s.finalbody)
        l_exc = self.label() if has_fin else None
        l_fin = self.label()
        l_end = self.label()
        inner = {'depth': ctx['depth'] + 1}
        hctx = {'depth': ctx['depth'] + 1}
        for k in KINDS:
            inner[k] = catches[k] if catches[k] is not None else (l_exc if has_fin else ctx[k])
            # the else clause and the handlers run outside the handlers but inside the finally
            hctx[k] = l_exc if has_fin else ctx[k]
        self.block(s.body, inner)
        self.block(s.orelse, hctx)
        if s.handlers:
            self.code.append(['jump', l_fin])
        for h, lab in zip(s.handlers, hlabels):
            self.place(lab)
            if h.body and isinstance(h.body[-1], ast.Raise) and h.body[-1].exc is None and h.body[-1].cause is None:
                # `except X: <cleanup>; raise` — the exception stays in flight while the clean-up runs and goes on afterwards
                # (compiled like the exceptional copy of a `finally` block)
                self.block(h.body[:-1], hctx)
                self.code.append(['reraise'] + [hctx[k] for k in KINDS])
            else:
                self.code.append(['caught'])
                self.block(h.body, hctx)
                self.code.append(['jump', l_fin])
        self.place(l_fin)
        if has_fin:
            self.block(s.finalbody, ctx)
            self.code.append(['jump', l_end])
            self.place(l_exc)
            self.block(s.finalbody, ctx)
            self.code.append(['reraise'] + [ctx[k] for k in KINDS])
        self.place(l_end)

    def resolve(self):
        # drop jumps to the next instruction, then number
        changed = True
        code = self.code
        while changed:
            changed = False
            for i, c in enumerate(code):
                if c[0] == 'jump':
                    j = i + 1
                    labs = set()
                    while j < len(code) and code[j][0] == 'label':
                        labs.add(code[j][1]); j += 1
                    if c[1] in labs:
                        del code[i]; changed = True
                        break
        pos, n = {}, 0
        for c in code:
            if c[0] == 'label':
                pos[c[1]] = n
            else:
                n += 1
        out = []
        R = lambda l: None if l is None else pos[l]
        for c in code:
            if c[0] == 'op':
                out.append((c[1], R(c[2]), R(c[3]), R(c[4])))
            elif c[0] == 'jump':
                out.append((f'jump {pos[c[1]]}', None, None, None))
            elif c[0] == 'caught':
                out.append(('caught', None, None, None))
            elif c[0] == 'reraise':
                out.append(('reraise', R(c[1]), R(c[2]), R(c[3])))
        return out


def ranks(prog):
    """certificate for termination of the parent program: rank[pc] = 1 + max rank of the successors (longest path to the end);
    checked in Lean (every step of the model decreases the rank), not trusted"""
    n = len(prog)
    succ = []
    for i, (op, eof, err, cancel) in enumerate(prog):
        s = set()
        if op.startswith('jump '):
            s.add(int(op.split()[1]))
        elif op in ('ret',):
            pass
        else:
            s.add(i + 1)
        for t in (eof, err, cancel):
            if t is not None:
                s.add(t)
        succ.append({t for t in s if t < n})
    rank = [None] * n
    state = [0] * n

    def go(i):
        if state[i] == 1:
            raise Skip('calculate_in_subprocess: the translated program has a cycle')
        if state[i] == 2:
            return rank[i]
        state[i] = 1
        r = 1 + max([go(t) for t in succ[i]] + [0])
        rank[i] = r
        state[i] = 2
        return r
    for i in range(n):
        go(i)
    return rank


def lean_opt(x):
    return 'none' if x is None else f'(some {x})'


def inner_shape(tree):
    fn = find_func(tree, '_inner')
    if not fn.args.args:
        raise Skip('_inner has no positional parameter')
    tx = fn.args.args[0].arg
    fun = fn.args.args[1].arg if len(fn.args.args) > 1 else None
    tries = [s for s in fn.body if isinstance(s, ast.Try)]
    if len(tries) != 1:
        raise Skip('_inner: expected exactly one try statement')
    t = tries[0]
    idx = fn.body.index(t)
    if t.finalbody:
        raise Skip('_inner: try has a finally clause')
    for s in fn.body[idx + 1:]:
        if not isinstance(s, ast.Pass):
            raise Skip('_inner: statements after the try statement')
    for s in fn.body[:idx]:
        for x in ast.walk(s):
            if isinstance(x, ast.Call) and isinstance(x.func, ast.Attribute) and x.func.attr == 'send':
                raise Skip('_inner: send before the try statement')

    def sends(stmts):
        """None | 'error' | 'value' | 'other'  — what a block sends through tx (at most one send)"""
        found = []
        for s in stmts:
            for x in ast.walk(s):
                if _is_method_call(x, tx, 'send'):
                    found.append(x)
        if not found:
            return None, None
        if len(found) > 1:
            raise Skip('_inner: several send() calls in one block')
        a = found[0].args[0] if found[0].args else None
        if isinstance(a, ast.Call) and _name(a.func) == 'SubprocessError':
            return 'error', _arg(a, 0, 'ex')
        if isinstance(a, ast.Name):
            return 'value', a
        return 'other', a
    # the try body: calls fun(*a, **kw) (directly or through run_until_complete) and stores the value
    calls, res_names = 0, set()
    for s in t.body:
        for x in ast.walk(s):
            if isinstance(x, ast.Call) and _name(x.func) == fun:
                calls += 1
                ok = (len(x.args) == 1 and isinstance(x.args[0], ast.Starred) and len(x.keywords) == 1 and x.keywords[0].arg is None)
                if not ok:
                    raise Skip('_inner: the callee is not invoked as fun(*a, **kw_args)')
            if isinstance(x, ast.Assign) and len(x.targets) == 1 and isinstance(x.targets[0], ast.Name):
                res_names.add(x.targets[0].id)
    if calls == 0:
        raise Skip('_inner: the try body does not call the function')
    if sends(t.body)[0] is not None:
        raise Skip('_inner: send() inside the try body')
    catches_exc = catches_base = False
    handler_sends_error = False
    for h in t.handlers:
        tn = _name(h.type) if h.type is not None else 'BaseException'
        if tn not in ('Exception', 'BaseException'):
            raise Skip(f'_inner: handler for {tn}')
        kind, a = sends(h.body)
        this_sends = kind == 'error' and h.name is not None and _name(a) == h.name
        if kind is not None and not this_sends:
            raise Skip('_inner: handler sends something that is not SubprocessError(ex=<caught exception>)')
        for x in h.body:
            for y in ast.walk(x):
                if isinstance(y, ast.Raise):
                    raise Skip('_inner: handler raises')
        if tn == 'Exception' and not catches_exc and not catches_base:
            catches_exc = True
            handler_sends_error = this_sends
        elif tn == 'BaseException' and not catches_base:
            if not catches_exc:
                handler_sends_error = this_sends
                catches_exc = True
                catches_base = True
            else:
                if this_sends != handler_sends_error:
                    raise Skip('_inner: handlers differ in what they send')
                catches_base = True
    kind, a = sends(t.orelse)
    else_sends_value = kind == 'value' and _name(a) in res_names
    if kind is not None and not else_sends_value:
        raise Skip('_inner: else clause sends something that is not the computed value')
    # async callee: own event loop + run_until_complete
    async_ok = any(isinstance(x, ast.Call) and isinstance(x.func, ast.Attribute) and x.func.attr == 'run_until_complete'
                   for s in t.body for x in ast.walk(s))
    return catches_exc, catches_base, handler_sends_error, else_sends_value, async_ok


def wrapper_shape(tree):
    fn = find_func(tree, 'in_subprocess')
    inner = [s for s in fn.body if isinstance(s, (ast.AsyncFunctionDef, ast.FunctionDef))]
    if len(inner) != 1:
        raise Skip('in_subprocess: expected one nested function')
    w = inner[0]
    is_async = isinstance(w, ast.AsyncFunctionDef)
    wraps = any(isinstance(d, ast.Call) and _name(d.func) == 'wraps' and len(d.args) == 1 and _name(d.args[0]) == fn.args.args[0].arg
                for d in w.decorator_list)
    body = [s for s in w.body if not (isinstance(s, ast.Expr) and isinstance(s.value, ast.Constant))]
    fwd = False
    if len(body) == 1 and isinstance(body[0], ast.Return) and isinstance(body[0].value, ast.Await):
        c = body[0].value.value
        fwd = (isinstance(c, ast.Call) and _name(c.func) == 'calculate_in_subprocess' and len(c.args) == 2
               and _name(c.args[0]) == fn.args.args[0].arg and isinstance(c.args[1], ast.Starred)
               and w.args.vararg is not None and _name(c.args[1].value) == w.args.vararg.arg
               and len(c.keywords) == 1 and c.keywords[0].arg is None and w.args.kwarg is not None
               and _name(c.keywords[0].value) == w.args.kwarg.arg)
    returns_wrapper = any(isinstance(s, ast.Return) and _name(s.value) == w.name for s in fn.body)
    return is_async, wraps, fwd and returns_wrapper


def gen_subproc(repo):
    tree = ast.parse(src(repo, REL))
    fn = find_func(tree, 'calculate_in_subprocess')
    if not isinstance(fn, ast.AsyncFunctionDef):
        raise Skip('calculate_in_subprocess is not a coroutine function')
    c = Comp()
    c.block(fn.body, {'depth': 0, 'eof': None, 'err': None, 'cancel': None})
    prog = c.resolve()
    if not prog or prog[0][0] != 'pipe':
        raise Skip('calculate_in_subprocess does not begin with Pipe()')
    if 'start' not in c.seen:
        raise Skip('calculate_in_subprocess never starts the process')
    rk = ranks(prog)
    catches_exc, catches_base, handler_sends, else_sends, async_ok = inner_shape(tree)
    w_async, w_wraps, w_fwd = wrapper_shape(tree)
    lines = []
    for i, (op, eof, err, cancel) in enumerate(prog):
        sep = ',' if i + 1 < len(prog) else ''
        opl = f'.{op}' if ' ' not in op else f'(.{op})'
        lines.append(f'  ⟨{opl}, {lean_opt(eof)}, {lean_opt(err)}, {lean_opt(cancel)}⟩{sep}  -- {i}')
    return HEADER.format(rel=REL) + f'''namespace PedVerif.Gen.Subproc

/-- one protocol statement of `calculate_in_subprocess` -/
inductive Op where
  | pipe                    -- rx, tx = Pipe(duplex=False)
  | start                   -- process.start()
  | closeTx                 -- tx.close()
  | addReader               -- loop.add_reader(fd=rx.fileno(), callback=event.set)
  | pollWait                -- if not rx.poll(): await event.wait()
  | selectWait              -- if not select.select([rx], [], [], 0)[0]: await event.wait()   (select(): descriptor numbers < FD_SETSIZE only)
  | wait                    -- await event.wait()
  | removeReader            -- loop.remove_reader(fd=rx.fileno())
  | clearEvent              -- event.clear()
  | recv                    -- result = rx.recv()
  | setChildProcessError    -- result = SubprocessError(ex=ChildProcessError(...))
  | setForeign              -- result = <anything else>
  | terminate               -- process.terminate() / process.kill(): the child ends now, whatever it was doing
  | join                    -- process.join()
  | joinTimeout             -- process.join(timeout=..): returns when the child has exited OR the time is up
  | closeRx                 -- rx.close()
  | raiseIfError            -- if isinstance(result, SubprocessError): raise result.exception
  | ret                     -- return result
  | caught                  -- entry of an `except` clause: the exception is consumed
  | jump (target : Nat)     -- control transfer inserted by the flattening of try statements
  | reraise                 -- end of the exceptional copy of a `finally` block
deriving DecidableEq, Repr

/-- an instruction with the program counters at which an `EOFError` / another error raised by it / the `CancelledError` that arrives
    at it (an `await`) when the awaiting task is cancelled is handled (`none`: the exception leaves the coroutine).  A CancelledError is a
    BaseException: `except Exception` does not catch it, `except BaseException` and `finally` do -/
structure Instr where
  op : Op
  onEof : Option Nat
  onErr : Option Nat
  onCancel : Option Nat
deriving DecidableEq, Repr

/-- `calculate_in_subprocess`, flattened (try/except/finally compiled to jump targets; `finally` blocks are duplicated
    for the normal and the exceptional path, as the bytecode compiler does) -/
def prog : List Instr := [
{chr(10).join(lines)}
]

/-- termination certificate computed by the translator (longest path to the end of the program);
    checked by the theorems, not trusted -/
def progRank : List Nat := {rk}

/-- `Process(target=_inner, args=(tx, func, *args), kwargs=kwargs)` -/
def processArgsForwarded : Bool := {lean_bool(c.proc_args_ok)}
/-- the child is started as a daemonic process (`Process(.., daemon=True)` / `process.daemon = True`): it may not have children -/
def processDaemon : Bool := {lean_bool(c.daemon)}
/-- `_inner`: an `except Exception` (or wider) clause exists -/
def innerCatchesException : Bool := {lean_bool(catches_exc)}
/-- `_inner`: the clause also catches `BaseException` (SystemExit, KeyboardInterrupt) -/
def innerCatchesBaseException : Bool := {lean_bool(catches_base)}
/-- `_inner`: the handler sends `SubprocessError(ex=<the caught exception>)` -/
def innerHandlerSendsError : Bool := {lean_bool(handler_sends)}
/-- `_inner`: the `else` clause sends the computed value -/
def innerElseSendsValue : Bool := {lean_bool(else_sends)}
/-- `_inner`: coroutine functions are run with `run_until_complete` -/
def innerRunsCoroutines : Bool := {lean_bool(async_ok)}
/-- `in_subprocess`: the replacement is `async def`, decorated with `@wraps(func)`, and returns
    `await calculate_in_subprocess(func, *args, **kwargs)` -/
def wrapperIsAsync : Bool := {lean_bool(w_async)}
def wrapperWraps : Bool := {lean_bool(w_wraps)}
def wrapperForwards : Bool := {lean_bool(w_fwd)}

end PedVerif.Gen.Subproc
'''


# ------------------------------------------------------------------------------------------------ module-level state

SYNC_NAMES = {'Semaphore', 'BoundedSemaphore', 'Lock', 'RLock', 'Condition', 'Barrier', 'Queue', 'LifoQueue', 'PriorityQueue',
              'JoinableQueue', 'SimpleQueue', 'Pool', 'ThreadPoolExecutor', 'ProcessPoolExecutor', 'Manager', 'Value', 'Array',
              'lru_cache', 'cache', 'cached_property', 'WeakValueDictionary', 'WeakKeyDictionary', 'ContextVar', 'local'}
SYNC_METHODS = {'acquire', 'release', 'locked', 'notify', 'notify_all', 'wait_for', 'put', 'put_nowait', 'get_nowait', 'task_done'}


def _targets(t):
    """names a binding target binds; anything that is not a plain name is described by its source text"""
    if isinstance(t, ast.Name):
        return [t.id]
    if isinstance(t, (ast.Tuple, ast.List)):
        return [n for e in t.elts for n in _targets(e)]
    if isinstance(t, ast.Starred):
        return _targets(t.value)
    return [ast.unparse(t)]


def _import_names(stmts):
    out = set()
    for s in stmts:
        for a in s.names:
            out.add((a.asname or a.name).split('.')[0])
    return out


def _is_typevar(s):
    return (isinstance(s, ast.Assign) and len(s.targets) == 1 and isinstance(s.targets[0], ast.Name) and isinstance(s.value, ast.Call)
            and (_name(s.value.func) == 'TypeVar' or (isinstance(s.value.func, ast.Attribute) and s.value.func.attr == 'TypeVar'))
            and len(s.value.args) >= 1 and isinstance(s.value.args[0], ast.Constant) and s.value.args[0].value == s.targets[0].id)


def _is_main_guard(s):
    t = s.test
    return (isinstance(s, ast.If) and isinstance(t, ast.Compare) and len(t.ops) == 1 and isinstance(t.ops[0], ast.Eq)
            and _name(t.left) == '__name__' and isinstance(t.comparators[0], ast.Constant) and t.comparators[0].value == '__main__')


def _is_static(v):
    """a value that cannot carry state: constants, tuples of them, typing expressions (names, attributes, subscripts, `A | B` — no calls),
    `TypeVar(..)`-like declarations, a logger"""
    if v is None or isinstance(v, (ast.Constant, ast.Name)):
        return True
    if isinstance(v, ast.Attribute):
        return _is_static(v.value)
    if isinstance(v, ast.UnaryOp):
        return _is_static(v.operand)
    if isinstance(v, ast.Tuple):
        return all(_is_static(e) for e in v.elts)
    if isinstance(v, ast.Subscript):
        sl = v.slice
        return _is_static(v.value) and all(_is_static(e) for e in (sl.elts if isinstance(sl, (ast.Tuple, ast.List)) else [sl]))
    if isinstance(v, ast.List):                      # only inside a subscript: Callable[[int], str]
        return all(_is_static(e) for e in v.elts)
    if isinstance(v, ast.BinOp) and isinstance(v.op, ast.BitOr):
        return _is_static(v.left) and _is_static(v.right)
    if isinstance(v, ast.Call):
        f = v.func.attr if isinstance(v.func, ast.Attribute) else _name(v.func)
        return f in ('TypeVar', 'ParamSpec', 'NewType', 'getLogger') and all(_is_static(a) for a in v.args) \
            and all(_is_static(k.value) for k in v.keywords)
    return False


def module_bindings(stmts, prefix=''):
    """names bound when the module is imported, other than by import / class / def / `T = TypeVar('T')` / the `None` fallbacks of an
    optional import — and statements that do something else at import time (calls, loops, …)"""
    out = []
    for s in stmts:
        if isinstance(s, (ast.Import, ast.ImportFrom, ast.FunctionDef, ast.AsyncFunctionDef, ast.Pass)):
            continue
        if isinstance(s, ast.Expr) and isinstance(s.value, ast.Constant):
            continue                                                   # docstring
        if isinstance(s, ast.ClassDef):
            out += module_bindings(s.body, prefix + s.name + '.')     # class attributes are shared by everything in the interpreter
            continue
        if _is_typevar(s):
            continue
        if isinstance(s, ast.Try) and s.body and all(isinstance(b, (ast.Import, ast.ImportFrom)) for b in s.body) \
                and not s.orelse and not s.finalbody:
            # try: from multiprocess import ..  except ImportError: <the same names> = None
            names = _import_names(s.body)
            for h in s.handlers:
                for b in h.body:
                    tgt = b.target if isinstance(b, ast.AnnAssign) else (b.targets[0] if isinstance(b, ast.Assign) and len(b.targets) == 1 else None)
                    if tgt is not None and _name(tgt) in names and isinstance(b.value, ast.Constant) and b.value.value is None:
                        continue
                    if isinstance(b, (ast.Import, ast.ImportFrom, ast.Pass)):
                        continue
                    out += module_bindings([b], prefix)
            continue
        if isinstance(s, ast.If) and _is_main_guard(s) and not prefix:
            # not executed on import; a binding in there is still a module-level name
            for b in s.body + s.orelse:
                if not (isinstance(b, ast.Expr) and isinstance(b.value, ast.Call)):
                    out += module_bindings([b], prefix)
            continue
        if isinstance(s, (ast.Assign, ast.AnnAssign)) and not isinstance(s.value, ast.List) and _is_static(s.value) \
                and all(isinstance(t, ast.Name) for t in (s.targets if isinstance(s, ast.Assign) else [s.target])):
            continue                                                   # NAME = <constant / typing expression / TypeVar / logger>
        if isinstance(s, ast.Assign) and [ast.unparse(t) for t in s.targets] == ['__all__'] and isinstance(s.value, (ast.List, ast.Tuple)) \
                and all(isinstance(e, ast.Constant) for e in s.value.elts):
            continue
        if isinstance(s, ast.Assign):
            out += [prefix + n for t in s.targets for n in _targets(t)]
        elif isinstance(s, (ast.AnnAssign, ast.AugAssign)):
            out += [prefix + n for n in _targets(s.target)]
        elif isinstance(s, (ast.If, ast.Try, ast.With, ast.For, ast.While)):
            inner = module_bindings([b for b in ast.iter_child_nodes(s) if isinstance(b, ast.stmt)], prefix)
            out += inner or [prefix + f'<{type(s).__name__.lower()} statement at import time>']
        else:
            out.append(prefix + f'<{ast.unparse(s)[:40]}>')
    return out


def _functions(tree):
    """every function of the module with its qualified name (nested ones too)"""
    out = []

    def walk(stmts, prefix):
        for s in stmts:
            if isinstance(s, (ast.FunctionDef, ast.AsyncFunctionDef)):
                out.append((prefix + s.name, s))
                walk(s.body, prefix + s.name + '.')
            elif isinstance(s, ast.ClassDef):
                walk(s.body, prefix + s.name + '.')
            else:
                walk([b for b in ast.iter_child_nodes(s) if isinstance(b, ast.stmt)], prefix)
    walk(tree.body, '')
    return out


def _own_nodes(fn):
    """nodes of a function body without the bodies of nested functions / classes"""
    todo = list(fn.body)
    while todo:
        n = todo.pop()
        yield n
        for c in ast.iter_child_nodes(n):
            if not isinstance(c, (ast.FunctionDef, ast.AsyncFunctionDef, ast.ClassDef, ast.Lambda)):
                todo.append(c)


def _locals(fn):
    a = fn.args
    names = {x.arg for x in a.posonlyargs + a.args + a.kwonlyargs}
    for v in (a.vararg, a.kwarg):
        if v is not None:
            names.add(v.arg)
    for n in _own_nodes(fn):
        if isinstance(n, ast.Name) and isinstance(n.ctx, ast.Store):
            names.add(n.id)
        elif isinstance(n, (ast.Import, ast.ImportFrom)):
            names |= _import_names([n])
        elif isinstance(n, ast.ExceptHandler) and n.name:
            names.add(n.name)
    for n in _own_nodes(fn):
        if isinstance(n, (ast.Global, ast.Nonlocal)):
            names -= set(n.names)
    return names


def _base_name(n):
    while isinstance(n, (ast.Attribute, ast.Subscript)):
        n = n.value
    return _name(n)


def body_guards(tree):
    """context managers, acquire/release calls and synchronisation primitives in any function of the module"""
    out = []
    for q, fn in _functions(tree):
        loc = _locals(fn)
        for n in _own_nodes(fn):
            if isinstance(n, (ast.With, ast.AsyncWith)):
                # a context manager that is not an object of this activation (`with rx:` is; a module-level or closure object is not)
                kw = 'async with' if isinstance(n, ast.AsyncWith) else 'with'
                ext = [i for i in n.items if not (isinstance(i.context_expr, (ast.Name, ast.Attribute)) and _base_name(i.context_expr) in loc)]
                if ext:
                    out.append(f'{q}: {kw} ' + ', '.join(ast.unparse(i.context_expr)[:40] for i in ext))
            elif isinstance(n, ast.Call) and isinstance(n.func, ast.Attribute) and n.func.attr in SYNC_METHODS:
                out.append(f'{q}: {ast.unparse(n.func)[:40]}()')
            elif isinstance(n, ast.Name) and n.id in SYNC_NAMES or isinstance(n, ast.Attribute) and n.attr in SYNC_NAMES:
                out.append(f'{q}: {ast.unparse(n)[:40]}')
    return sorted(set(out))


def shared_stores(tree):
    """what lets a function keep something beyond its own activation"""
    out = []
    for q, fn in _functions(tree):
        loc = _locals(fn)
        a = fn.args
        for d in a.defaults + [k for k in a.kw_defaults if k is not None]:
            if not isinstance(d, ast.Constant) and not (isinstance(d, ast.Tuple) and not d.elts):
                out.append(f'{q}: default {ast.unparse(d)[:40]}')
        for d in fn.decorator_list:
            if not (isinstance(d, ast.Call) and _name(d.func) == 'wraps' and len(d.args) == 1 and not d.keywords):
                out.append(f'{q}: @{ast.unparse(d)[:40]}')
        for n in _own_nodes(fn):
            if isinstance(n, (ast.Global, ast.Nonlocal)):
                out.append(f'{q}: {"global" if isinstance(n, ast.Global) else "nonlocal"} ' + ', '.join(n.names))
            elif isinstance(n, (ast.Attribute, ast.Subscript)) and isinstance(n.ctx, (ast.Store, ast.Del)) and _base_name(n) not in loc:
                out.append(f'{q}: {ast.unparse(n)[:40]} = ..')
            elif isinstance(n, ast.Call) and _name(n.func) in ('setattr', 'delattr') and n.args and _base_name(n.args[0]) not in loc:
                out.append(f'{q}: {ast.unparse(n)[:40]}')
            elif isinstance(n, ast.Call) and isinstance(n.func, ast.Attribute) \
                    and n.func.attr in ('append', 'add', 'update', 'extend', 'insert', 'pop', 'popitem', 'remove', 'discard', 'clear', '__setitem__') \
                    and _base_name(n.func.value) is not None and _base_name(n.func.value) not in loc:
                out.append(f'{q}: {ast.unparse(n.func)[:40]}()')
    return sorted(set(out))


def awaits_while_tx_open(tree):
    """`await` expressions between `rx, tx = Pipe(..)` and the parent's `tx.close()`: while a coroutine is suspended there, the other
    invocations run — a child they fork inherits this invocation's write end, and the EOF this invocation relies on when its own child
    dies without a result does not come before those children have exited"""
    out = []
    for q, fn in _functions(tree):
        nodes = list(_own_nodes(fn))
        pipes = [n for n in nodes if isinstance(n, ast.Assign) and isinstance(n.value, ast.Call) and _name(n.value.func) == 'Pipe'
                 and len(n.targets) == 1 and isinstance(n.targets[0], ast.Tuple) and len(n.targets[0].elts) == 2
                 and all(isinstance(e, ast.Name) for e in n.targets[0].elts)]
        for pa in pipes:
            tx = pa.targets[0].elts[1].id
            pos = lambda n: (n.lineno, n.col_offset)
            closes = sorted(pos(n) for n in nodes if isinstance(n, ast.Expr) and _is_method_call(n.value, tx, 'close') and pos(n) > pos(pa))
            if not closes:
                out.append(f'{q}: {tx}.close() is missing')
                continue
            for n in nodes:
                if isinstance(n, (ast.Await, ast.AsyncWith, ast.AsyncFor, ast.Yield, ast.YieldFrom)) and pos(pa) < pos(n) < closes[0]:
                    out.append(f'{q}: {ast.unparse(n)[:48]}')
    return sorted(set(out))


EXECUTOR_CALLS = {'run_in_executor', 'to_thread', 'set_default_executor', 'submit'}


def shared_executors(tree):
    """work handed to a thread / process pool: the loop's default executor has min(32, cpu_count + 4) workers for ALL invocations — whatever
    occupies a worker for as long as an invocation is pending bounds the number of invocations that can make progress at once"""
    out = []
    for q, fn in _functions(tree):
        for n in _own_nodes(fn):
            if isinstance(n, ast.Call):
                f = n.func.attr if isinstance(n.func, ast.Attribute) else _name(n.func)
                if f in EXECUTOR_CALLS:
                    out.append(f'{q}: {ast.unparse(n)[:48]}')
    return sorted(set(out))


def dispatch_inside_try(tree):
    """the statements that hand the child's answer to the caller — `raise <x>.exception`, `return <value>` — of a function that receives
    from a pipe (`.recv()`), found INSIDE a try statement: there the callee's own exception (which may be an EOFError, an OSError, a
    ChildProcessError … or derive from one) passes the handlers the parent keeps for ITS OWN failures and can be swallowed or replaced"""
    out = []
    for q, fn in _functions(tree):
        own = list(_own_nodes(fn))
        if not any(isinstance(n, ast.Call) and isinstance(n.func, ast.Attribute) and n.func.attr == 'recv' for n in own):
            continue

        def walk(stmts, in_try):
            for st in stmts:
                if isinstance(st, (ast.FunctionDef, ast.AsyncFunctionDef, ast.ClassDef)):
                    continue
                if in_try and isinstance(st, ast.Raise) and isinstance(st.exc, ast.Attribute) and st.exc.attr == 'exception':
                    out.append(f'{q}: {ast.unparse(st)[:48]}')
                if in_try and isinstance(st, ast.Return) and st.value is not None:
                    out.append(f'{q}: {ast.unparse(st)[:48]}')
                if isinstance(st, ast.Try):
                    walk(st.body, True)
                    walk(st.orelse, True)
                    for h in st.handlers:
                        walk(h.body, in_try)        # a handler's body is protected by the try statements AROUND this one only
                    walk(st.finalbody, in_try)
                else:
                    for field in ('body', 'orelse', 'finalbody'):
                        sub = getattr(st, field, None)
                        if isinstance(sub, list) and sub and isinstance(sub[0], ast.stmt):
                            walk(sub, in_try)
                    for h in getattr(st, 'handlers', []) or []:
                        walk(h.body, in_try)
        walk(fn.body, False)
    return sorted(set(out))


def callee_touched_in_parent(tree):
    """every use the PARENT side makes of the callee or of the caller's arguments other than passing them on unchanged.

    Parent side: `in_subprocess` (decoration time), its nested wrapper (call time) and `calculate_in_subprocess`.  Watched names: the
    first parameter of `in_subprocess` / `calculate_in_subprocess` (the callee) and the `*args` / `**kwargs` parameters of the wrapper
    and of `calculate_in_subprocess` (the call).  Passing on = `@wraps(func)`, `calculate_in_subprocess(func, *args, **kwargs)`,
    `Process(.., args=(.., func, *args), kwargs=kwargs)`.  Anything else — `inspect.signature(func)`, `signature.bind(*args, **kwargs)`
    (the first use that derives something from a watched name is what gets listed), `func.__name__`, `len(args)`, `kwargs.pop(..)`,
    `inspect.iscoroutinefunction(func)`, calling `func` — lets the parent decide something about a call that only the callable itself
    can decide (what it accepts is what `fun(*a, **kw)` in the child accepts: `inspect.signature` follows `__wrapped__` and honours
    `__signature__`, and neither has to agree with the parameters the callable really takes)."""
    out = []
    try:
        deco = find_func(tree, 'in_subprocess')
        calc = find_func(tree, 'calculate_in_subprocess')
    except Skip as e:
        return [str(e)]

    def params(fn, first):
        w = set()
        if first and (fn.args.posonlyargs + fn.args.args):
            w.add((fn.args.posonlyargs + fn.args.args)[0].arg)
        for v in (fn.args.vararg, fn.args.kwarg):
            if v is not None:
                w.add(v.arg)
        return w

    def scan(fn, q, watched):
        allowed = set()          # ids of Name nodes that only pass a watched name on
        for n in ast.walk(fn):
            if not isinstance(n, ast.Call):
                continue
            f = _name(n.func)
            if f == 'calculate_in_subprocess':
                # calculate_in_subprocess(func, *args, **kwargs)
                if len(n.args) == 2 and isinstance(n.args[1], ast.Starred) and len(n.keywords) == 1 and n.keywords[0].arg is None:
                    allowed.update(id(x) for x in (n.args[0], n.args[1].value, n.keywords[0].value) if isinstance(x, ast.Name))
            elif f == 'Process':
                # Process(target=_inner, args=(tx, func, *args), kwargs=kwargs)
                a, k = _arg(n, 99, 'args'), _arg(n, 99, 'kwargs')
                if isinstance(a, ast.Tuple) and len(a.elts) == 3 and isinstance(a.elts[2], ast.Starred):
                    allowed.update(id(x) for x in (a.elts[1], a.elts[2].value) if isinstance(x, ast.Name))
                if isinstance(k, ast.Name):
                    allowed.add(id(k))
        # the smallest statement around each remaining use
        def visit(stmts):
            for st in stmts:
                if isinstance(st, (ast.FunctionDef, ast.AsyncFunctionDef)):
                    for d in st.decorator_list:
                        if isinstance(d, ast.Call) and _name(d.func) == 'wraps' and len(d.args) == 1 and not d.keywords and _name(d.args[0]) in watched:
                            continue                 # @wraps(func): copies the metadata, decides nothing
                        for x in ast.walk(d):
                            if isinstance(x, ast.Name) and x.id in watched and id(x) not in allowed:
                                out.append(f'{q}: @{ast.unparse(d)[:56]}')
                                break
                    continue
                sub = [getattr(st, f, None) for f in ('body', 'orelse', 'finalbody')]
                heads = [c for c in ast.iter_child_nodes(st) if not isinstance(c, (ast.stmt, ast.ExceptHandler))]
                hit = False
                for h in heads:
                    for x in ast.walk(h):
                        if isinstance(x, ast.Name) and x.id in watched and id(x) not in allowed:
                            hit = True
                if hit:
                    out.append(f'{q}: {ast.unparse(st).splitlines()[0][:56]}')
                for b in sub:
                    if isinstance(b, list) and b and isinstance(b[0], ast.stmt):
                        visit(b)
                for h in getattr(st, 'handlers', []) or []:
                    visit(h.body)
        visit(fn.body)

    scan(deco, 'in_subprocess', params(deco, True))
    for w in deco.body:
        if isinstance(w, (ast.FunctionDef, ast.AsyncFunctionDef)):
            scan(w, f'in_subprocess.{w.name}', params(deco, True) | params(w, False))
    scan(calc, 'calculate_in_subprocess', params(calc, True))
    return sorted(set(out))


def lean_str_list(xs):
    return '[' + ', '.join(lean_str(x) for x in xs) + ']'


def gen_module(repo):
    tree = ast.parse(src(repo, REL))
    state = module_bindings(tree.body)
    # synchronisation primitives created at import time are module state whatever they are bound to
    for s in tree.body:
        if not isinstance(s, (ast.FunctionDef, ast.AsyncFunctionDef, ast.ClassDef, ast.Import, ast.ImportFrom)):
            for n in ast.walk(s):
                if isinstance(n, ast.Call) and (_name(n.func) in SYNC_NAMES or isinstance(n.func, ast.Attribute) and n.func.attr in SYNC_NAMES):
                    state.append(f'<{ast.unparse(n)[:40]} at import time>')
    state = sorted(set(state))
    return HEADER.format(rel=REL) + f'''namespace PedVerif.Gen.SubprocModule

/-- names bound when the module is imported by anything but `import`, `class`, `def`, `NAME = <constant / typing expression /
    TypeVar(..) / getLogger(..)>` and the `None` fallbacks of the optional `multiprocess` import; class attributes bound otherwise;
    other statements executed at import time; synchronisation primitives created at import time -/
def moduleState : List String := {lean_str_list(state)}

/-- `with` / `async with` statements, acquire/release-like calls and mentions of synchronisation primitives (Semaphore, Lock,
    Queue, …) in any function of the module: something an invocation could have to wait for besides its own child -/
def bodyGuards : List String := {lean_str_list(body_guards(tree))}

/-- `global` / `nonlocal` declarations, stores through objects that are not locals of the function, non-constant defaults,
    decorators other than `@wraps(func)`: ways for a function to keep something beyond one activation -/
def sharedStores : List String := {lean_str_list(shared_stores(tree))}

/-- calls that hand work to a thread / process pool (`loop.run_in_executor`, `asyncio.to_thread`, `pool.submit`, …): a pool is shared by
    all invocations and bounded — the loop's default executor has min(32, cpu_count + 4) workers -/
def sharedExecutors : List String := {lean_str_list(shared_executors(tree))}

/-- suspension points (`await`, `async with`, `async for`) between `rx, tx = Pipe(..)` and the parent's `tx.close()`: while the coroutine is
    suspended there other invocations fork their children, which inherit this invocation's write end (the model gives the write end to
    the invocation's own child only: `start` copies `parentTx` to `childTx` of the same invocation) -/
def awaitsWhileWriteEndOpen : List String := {lean_str_list(awaits_while_tx_open(tree))}

/-- `raise <x>.exception` / `return <value>` of the function that receives from the pipe, placed INSIDE the body (or `else`) of a try
    statement: the exception the callee raised — which may be an EOFError, an OSError, a ChildProcessError or derive from one — would
    pass the handlers the parent keeps for its own failures (the model's `raiseIfError` / `ret` end the coroutine at once, whatever the
    class of the transported exception is) -/
def dispatchInsideTry : List String := {lean_str_list(dispatch_inside_try(tree))}

/-- every use the parent side (`in_subprocess` at decoration time, its wrapper at call time, `calculate_in_subprocess`) makes of the
    callee or of the caller's `*args` / `**kwargs` OTHER than passing them on unchanged (`@wraps(func)`,
    `calculate_in_subprocess(func, *args, **kwargs)`, `Process(.., args=(tx, func, *args), kwargs=kwargs)`): whether a call fits is decided
    by `fun(*a, **kw_args)` in the child and by nothing else — `inspect.signature(func)` follows `__wrapped__` and honours `__signature__`,
    neither of which has to agree with what the callable accepts (the model's `Call.sigFits` is read by nothing) -/
def calleeTouchedInParent : List String := {lean_str_list(callee_touched_in_parent(tree))}

end PedVerif.Gen.SubprocModule
'''


FILES = {'Subproc.lean': gen_subproc, 'SubprocModule.lean': gen_module}
