"""Translator part for C07: the TypeVar branch of `_is_instance`, the TypeVar part of `_check_union`, the binding store of
`FunctionCall` and the per-instance accessor `pedantic_class` adds — read with `ast` only.

Local variable names are not significant: simple aliases (`other = type_vars[type_]`) are inlined before a statement is
compared with the shapes the model understands.  Anything outside those shapes raises `Skip` (the committed snapshot is
used and the correspondence check alone decides)."""
import ast, copy
from extract import Skip, src, find_func, lean_bool, lean_str, HEADER

CT = 'pedantic/type_checking_logic/check_types.py'
FC = 'pedantic/models/function_call.py'
CD = 'pedantic/decorators/class_decorators.py'
GC = 'pedantic/type_checking_logic/check_generic_classes.py'


class _Inline(ast.NodeTransformer):
    def __init__(self, aliases):
        self.aliases = aliases

    def visit_Name(self, node):
        if isinstance(node.ctx, ast.Load) and node.id in self.aliases:
            return copy.deepcopy(self.aliases[node.id])
        return node


def canon(node, aliases=None):
    """source text of the expression with aliases inlined and keyword arguments sorted"""
    node = copy.deepcopy(node)
    if aliases:
        node = _Inline(aliases).visit(node)
    for n in ast.walk(node):
        if isinstance(n, ast.Call):
            n.keywords.sort(key=lambda k: k.arg or '')
    return ast.unparse(node)


def strip_not(node):
    """(negated?, inner) for `not x`; `a not in b` -> (True, `a in b`); `a is not b` -> (True, `a is b`)"""
    if isinstance(node, ast.UnaryOp) and isinstance(node.op, ast.Not):
        neg, inner = strip_not(node.operand)
        return (not neg), inner
    if isinstance(node, ast.Compare) and len(node.ops) == 1 and isinstance(node.ops[0], (ast.NotIn, ast.IsNot)):
        c = copy.deepcopy(node)
        c.ops = [ast.In() if isinstance(node.ops[0], ast.NotIn) else ast.Is()]
        return True, c
    return False, node


def is_return_const(stmts, value):
    return len(stmts) == 1 and isinstance(stmts[0], ast.Return) and isinstance(stmts[0].value, ast.Constant) and stmts[0].value.value is value


MUTATORS = ('setdefault', 'pop', 'popitem', 'update', 'clear', 'append', 'extend', 'insert', 'remove', 'add', 'discard', '__setitem__', '__delitem__')


def has_side_effect(node):
    """the expression calls a mutating method (`type_vars.setdefault(...)`) or contains an assignment expression"""
    for n in ast.walk(node):
        if isinstance(n, ast.NamedExpr):
            return True
        if isinstance(n, ast.Call) and isinstance(n.func, ast.Attribute) and n.func.attr in MUTATORS:
            return True
    return False


def simple_alias(stmt):
    """`name = <expression without side effects>`: the name may be replaced by the expression wherever it is read"""
    return (isinstance(stmt, ast.Assign) and len(stmt.targets) == 1 and isinstance(stmt.targets[0], ast.Name) and not has_side_effect(stmt.value))


def call_args(call, names):
    """arguments of a call by parameter name (positional or keyword), as canonical text; None when absent"""
    out = {}
    for i, a in enumerate(call.args):
        if i < len(names):
            out[names[i]] = a
    for k in call.keywords:
        if k.arg:
            out[k.arg] = k.value
    return out


IS_INSTANCE_PARAMS = ['obj', 'type_', 'type_vars', 'context']


def is_is_instance_call(node, aliases, obj, type_):
    """`_is_instance(obj=<obj>, type_=<type_>, type_vars=type_vars, ...)`"""
    if not (isinstance(node, ast.Call) and isinstance(node.func, ast.Name) and node.func.id == '_is_instance'):
        return False
    a = call_args(node, IS_INSTANCE_PARAMS)
    return ('obj' in a and 'type_' in a and 'type_vars' in a and canon(a['obj'], aliases) == obj and canon(a['type_'], aliases) == type_
            and canon(a['type_vars'], aliases) == 'type_vars')


def raised_class(stmts):
    if len(stmts) == 1 and isinstance(stmts[0], ast.Raise) and isinstance(stmts[0].exc, ast.Call) and isinstance(stmts[0].exc.func, ast.Name):
        return stmts[0].exc.func.id
    if len(stmts) == 1 and isinstance(stmts[0], ast.Raise) and isinstance(stmts[0].exc, ast.Name):
        return stmts[0].exc.id
    return None


# ------------------------------------------------------------------ the TypeVar branch

def typevar_branch(tree):
    fn = find_func(tree, '_is_instance')
    branch = [s for s in fn.body if isinstance(s, ast.If) and canon(s.test) in ('isinstance(type_, TypeVar)', 'isinstance(type_, typing.TypeVar)')]
    if len(branch) != 1 or branch[0].orelse:
        raise Skip('_is_instance: no single `if isinstance(type_, TypeVar):` branch')
    facts = {'arms': [], 'constraintsExactClass': True, 'varianceDispatch': False, 'covIsinstanceForClass': False, 'anyCountsAsClass': False,
             'mismatch': set(), 'bindOnlyWhenUnbound': True}
    aliases = {}
    body = list(branch[0].body)
    B = 'type_.__bound__'
    C = 'type_.__constraints__'

    def bound_test(s):
        """`if bound is not None and not isinstance(obj, bound): return False`"""
        if not (isinstance(s.test, ast.BoolOp) and isinstance(s.test.op, ast.And) and len(s.test.values) == 2):
            return False
        n0, t0 = strip_not(s.test.values[0])
        n1, t1 = strip_not(s.test.values[1])
        return (n0 and canon(t0, aliases) == f'{B} is None' and n1 and canon(t1, aliases) == f'isinstance(obj, {B})'
                and is_return_const(s.body, False) and not s.orelse)

    for idx, s in enumerate(body):
        last = idx == len(body) - 1
        if simple_alias(s):
            aliases[s.targets[0].id] = _Inline(aliases).visit(copy.deepcopy(s.value))
            continue
        # `[x =] type_vars.setdefault(type_, type(obj))`: binds when unbound — the binding statement, wherever it stands
        sd = s.value if isinstance(s, (ast.Assign, ast.Expr)) else None
        if isinstance(sd, ast.Call) and isinstance(sd.func, ast.Attribute) and sd.func.attr == 'setdefault' and canon(sd.func.value, aliases) == 'type_vars' \
                and len(sd.args) == 2 and not sd.keywords and canon(sd.args[0], aliases) == 'type_':
            if canon(sd.args[1], aliases) not in ('type(obj)', 'obj.__class__'):
                raise Skip('TypeVar branch: the binding is not type(obj)')
            if 'bind' in facts['arms']:
                raise Skip('TypeVar branch: two binding statements')
            facts['arms'].append('bind')
            facts['bindOnlyWhenUnbound'] = True
            if isinstance(s, ast.Assign) and len(s.targets) == 1 and isinstance(s.targets[0], ast.Name):
                aliases[s.targets[0].id] = ast.parse('type_vars[type_]', mode='eval').body      # what the name holds afterwards
            continue
        if isinstance(s, ast.Return):
            if not (last and isinstance(s.value, ast.Constant) and s.value.value is True):
                raise Skip('TypeVar branch: unexpected return')
            continue
        # the binding statement, unguarded
        if isinstance(s, ast.Assign) and canon(s.targets[0], aliases) == 'type_vars[type_]':
            if canon(s.value, aliases) not in ('type(obj)', 'obj.__class__'):
                raise Skip('TypeVar branch: the binding is not type(obj)')
            if 'bind' in facts['arms']:
                raise Skip('TypeVar branch: two binding statements')
            facts['arms'].append('bind')
            facts['bindOnlyWhenUnbound'] = False
            continue
        if not isinstance(s, ast.If):
            raise Skip(f'TypeVar branch: unexpected statement {type(s).__name__}')
        neg, t = strip_not(s.test)
        tc = canon(t, aliases)
        # constraints
        if isinstance(s.test, ast.BoolOp) and isinstance(s.test.op, ast.And) and len(s.test.values) == 2 \
                and canon(s.test.values[0], aliases) in (f'len({C}) > 0', f'len({C}) != 0', f'0 < len({C})', f'len({C}) >= 1', C):
            n1, t1 = strip_not(s.test.values[1])
            c1 = canon(t1, aliases)
            if n1 and c1 == f'type(obj) in {C}':
                facts['constraintsExactClass'] = True
            elif n1 and c1 == f'isinstance(obj, {C})':
                facts['constraintsExactClass'] = False
            else:
                raise Skip('TypeVar branch: constraints test has an unknown membership test')
            if not is_return_const(s.body, False) or s.orelse:
                raise Skip('TypeVar branch: constraints test does not `return False`')
            facts['arms'].append('constraints')
            continue
        # forward-reference bound (+ elif bound)
        if not neg and tc in (f'_is_forward_ref(type_={B})', f'_is_forward_ref({B})'):
            inner = list(s.body)
            while inner and simple_alias(inner[0]):
                aliases[inner[0].targets[0].id] = _Inline(aliases).visit(copy.deepcopy(inner[0].value))
                inner = inner[1:]
            R = f"resolve_forward_ref({B}.__forward_arg__, context=context)"
            if len(inner) == 1 and isinstance(inner[0], ast.Return) and is_is_instance_call(inner[0].value, aliases, 'obj', R):
                facts['arms'].append('fwdBoundReturn')
            elif len(inner) == 1 and isinstance(inner[0], ast.If) and not inner[0].orelse and is_return_const(inner[0].body, False) \
                    and strip_not(inner[0].test)[0] and is_is_instance_call(strip_not(inner[0].test)[1], aliases, 'obj', R):
                facts['arms'].append('fwdBoundTest')
            else:
                raise Skip('TypeVar branch: forward-reference bound arm has an unknown shape')
            if s.orelse:
                if len(s.orelse) == 1 and isinstance(s.orelse[0], ast.If) and bound_test(s.orelse[0]):
                    facts['arms'].append('bound')
                else:
                    raise Skip('TypeVar branch: unknown else of the forward-reference arm')
            continue
        if bound_test(s):
            # a plain `if` (not `elif`) would apply isinstance to a ForwardRef object as well
            if 'fwdBoundTest' in facts['arms']:
                raise Skip('TypeVar branch: bound test is not the `elif` of the forward-reference arm')
            facts['arms'].append('bound')
            continue
        # previously bound
        if not neg and tc == 'type_ in type_vars':
            if s.orelse:
                raise Skip('TypeVar branch: previously-bound arm has an else')
            inner = list(s.body)
            while inner and simple_alias(inner[0]) and not canon(inner[0].targets[0]) == 'matches':
                aliases[inner[0].targets[0].id] = _Inline(aliases).visit(copy.deepcopy(inner[0].value))
                inner = inner[1:]
            O = 'type_vars[type_]'

            def covariant(stmts):
                """the covariant / invariant re-check; returns (usesIsinstanceForClass, anyCountsAsClass)"""
                if len(stmts) == 1 and isinstance(stmts[0], ast.If) and not stmts[0].orelse:
                    n, t = strip_not(stmts[0].test)
                    if n and is_is_instance_call(t, aliases, 'obj', O):
                        facts['mismatch'].add(raised_class(stmts[0].body))
                        return False, False
                    if n and canon(t, aliases) == f'isinstance(obj, {O})':
                        raise Skip('TypeVar branch: covariant re-check is a bare isinstance')
                if len(stmts) == 2 and isinstance(stmts[0], ast.If) and isinstance(stmts[1], ast.If) and not stmts[1].orelse:
                    g, chk = stmts
                    if not (len(g.body) == 1 and len(g.orelse) == 1 and simple_alias(g.body[0]) and simple_alias(g.orelse[0])
                            and g.body[0].targets[0].id == g.orelse[0].targets[0].id):
                        raise Skip('TypeVar branch: covariant re-check has an unknown shape')
                    var = g.body[0].targets[0].id
                    if not (canon(g.body[0].value, aliases) == f'isinstance(obj, {O})' and is_is_instance_call(g.orelse[0].value, aliases, 'obj', O)):
                        raise Skip('TypeVar branch: covariant re-check has unknown alternatives')
                    n, t = strip_not(chk.test)
                    if not (n and isinstance(t, ast.Name) and t.id == var):
                        raise Skip('TypeVar branch: covariant re-check does not test its verdict')
                    facts['mismatch'].add(raised_class(chk.body))
                    guard = canon(g.test, aliases)
                    if guard == f'isinstance({O}, type)':
                        return True, True
                    if guard in (f'isinstance({O}, type) and {O} is not Any', f'isinstance({O}, type) and {O} is not typing.Any',
                                 f'isinstance({O}, type) and {O} != Any', f'{O} is not Any and isinstance({O}, type)'):
                        return True, False
                    raise Skip('TypeVar branch: unknown guard of the isinstance re-check')
                raise Skip('TypeVar branch: covariant re-check has an unknown shape')

            if len(inner) == 1 and isinstance(inner[0], ast.If) and canon(inner[0].test, aliases) == 'type_.__contravariant__':
                v = inner[0]
                if not (len(v.body) == 1 and isinstance(v.body[0], ast.If) and not v.body[0].orelse):
                    raise Skip('TypeVar branch: contravariant arm has an unknown shape')
                n, t = strip_not(v.body[0].test)
                if not (n and isinstance(t, ast.Call) and isinstance(t.func, ast.Name) and t.func.id == '_is_subtype'):
                    raise Skip('TypeVar branch: contravariant arm does not call _is_subtype')
                a = call_args(t, ['sub_type', 'super_type', 'context'])
                if not (canon(a.get('sub_type', ast.Constant(0)), aliases) == O
                        and canon(a.get('super_type', ast.Constant(0)), aliases) in ('obj.__class__', 'type(obj)')):
                    raise Skip('TypeVar branch: contravariant arm compares something else')
                facts['mismatch'].add(raised_class(v.body[0].body))
                facts['varianceDispatch'] = True
                facts['covIsinstanceForClass'], facts['anyCountsAsClass'] = covariant(v.orelse)
            else:
                facts['varianceDispatch'] = False
                facts['covIsinstanceForClass'], facts['anyCountsAsClass'] = covariant(inner)
            facts['arms'].append('prevBound')
            continue
        # guarded binding
        if neg and tc == 'type_ in type_vars':
            if not (len(s.body) == 1 and isinstance(s.body[0], ast.Assign) and canon(s.body[0].targets[0], aliases) == 'type_vars[type_]'
                    and canon(s.body[0].value, aliases) in ('type(obj)', 'obj.__class__') and not s.orelse):
                raise Skip('TypeVar branch: guarded binding has an unknown shape')
            if 'bind' in facts['arms']:
                raise Skip('TypeVar branch: two binding statements')
            facts['arms'].append('bind')
            facts['bindOnlyWhenUnbound'] = True
            continue
        raise Skip(f'TypeVar branch: unknown test `{canon(s.test)}`')
    if facts['mismatch'] - {'PedanticTypeVarMismatchException'}:
        if facts['mismatch'] == {'PedanticTypeCheckException'}:
            facts['mismatchTVM'] = False
        else:
            raise Skip('TypeVar branch: mismatch arms raise different / unknown exceptions')
    else:
        facts['mismatchTVM'] = True
    return facts


# ------------------------------------------------------------------ _check_union

def check_union(tree):
    fn = find_func(tree, '_check_union')
    body = [s for s in fn.body if not (isinstance(s, ast.Expr) and isinstance(s.value, ast.Constant))]
    aliases = {}
    order = []
    facts = {}
    i = 0
    while i < len(body) and simple_alias(body[i]):
        aliases[body[i].targets[0].id] = _Inline(aliases).visit(copy.deepcopy(body[i].value))
        order.append(body[i].targets[0].id)
        i += 1
    rest = body[i:]
    TVS = '[type_arg for type_arg in type_args if isinstance(type_arg, TypeVar)]'

    def is_listcomp_over(node, source_text, cond_pred):
        return (isinstance(node, ast.ListComp) and len(node.generators) == 1 and canon(node.generators[0].iter) == source_text
                and len(node.generators[0].ifs) == 1 and isinstance(node.elt, ast.Name)
                and isinstance(node.generators[0].target, ast.Name) and node.elt.id == node.generators[0].target.id
                and cond_pred(node.generators[0].ifs[0], node.elt.id))
    # the alias table now holds every list; find them by shape
    names = {}
    for n in order:
        v = aliases[n]
        if is_listcomp_over(v, 'type_args', lambda c, x: canon(c) == f'isinstance({x}, TypeVar)'):
            names['tvs'] = n
        elif is_listcomp_over(v, 'type_args', lambda c, x: canon(c) == f'not isinstance({x}, TypeVar)'):
            names['non'] = n
        elif isinstance(v, ast.Call) and isinstance(v.func, ast.Name) and v.func.id == 'any':
            names['matches'] = n
    if set(names) != {'tvs', 'non', 'matches'}:
        raise Skip('_check_union: member lists not recognised')
    # bounded / unbounded are list comprehensions over the TypeVar members; look at the un-inlined statements for them
    raw = {s.targets[0].id: s.value for s in body[:i]}
    for n in order:
        v = raw[n]
        if is_listcomp_over(v, names['tvs'], lambda c, x: canon(c) == f'{x} in type_vars'):
            names['bounded'] = n
    for n in order:
        v = raw[n]
        if 'bounded' in names and is_listcomp_over(v, names['tvs'], lambda c, x: canon(c) == f"{x} not in {names['bounded']}"):
            names['unbounded'] = n
    if 'bounded' not in names or 'unbounded' not in names:
        raise Skip('_check_union: bounded / unbounded split not recognised')
    if order.index(names['bounded']) > order.index(names['matches']):
        raise Skip('_check_union: the bounded / unbounded split is computed after the non-TypeVar members')
    # if matches: return True
    if not (rest and isinstance(rest[0], ast.If) and isinstance(rest[0].test, ast.Name) and rest[0].test.id == names['matches']
            and is_return_const(rest[0].body, True) and not rest[0].orelse):
        raise Skip('_check_union: `if matches_non_type_var: return True` not found')
    rest = rest[1:]
    # the loop over the bounded ones
    if not (rest and isinstance(rest[0], ast.For) and isinstance(rest[0].iter, ast.Name) and rest[0].iter.id == names['bounded']
            and isinstance(rest[0].target, ast.Name) and len(rest[0].body) == 1 and isinstance(rest[0].body[0], ast.Try) and not rest[0].orelse):
        raise Skip('_check_union: loop over the bound TypeVars not found')
    loopvar = rest[0].target.id
    tr = rest[0].body[0]
    if tr.finalbody or tr.orelse or len(tr.handlers) != 1 or not isinstance(tr.handlers[0].type, ast.Name) \
            or not (len(tr.handlers[0].body) == 1 and isinstance(tr.handlers[0].body[0], (ast.Pass, ast.Continue))):
        raise Skip('_check_union: try statement of the loop has an unknown shape')
    facts['swallows'] = tr.handlers[0].type.id
    tb = tr.body
    if len(tb) == 1 and isinstance(tb[0], ast.If) and is_is_instance_call(tb[0].test, {}, 'value', loopvar) and is_return_const(tb[0].body, True) and not tb[0].orelse:
        facts['testsVerdict'] = True
    elif len(tb) == 2 and isinstance(tb[0], ast.Expr) and is_is_instance_call(tb[0].value, {}, 'value', loopvar) and is_return_const(tb[1:], True):
        facts['testsVerdict'] = False
    else:
        raise Skip('_check_union: body of the try has an unknown shape')
    rest = rest[1:]
    U = names['unbounded']
    facts['noUnboundRejects'] = False
    facts['singleUnboundChecked'] = False
    for s in rest[:-1]:
        if isinstance(s, ast.If) and not s.orelse and canon(s.test) in (f'not {U}', f'len({U}) == 0') and is_return_const(s.body, False):
            facts['noUnboundRejects'] = True
        elif isinstance(s, ast.If) and not s.orelse and canon(s.test) == f'len({U}) == 1' and len(s.body) == 1 and isinstance(s.body[0], ast.Return) \
                and is_is_instance_call(s.body[0].value, {}, 'value', f'{U}[0]'):
            facts['singleUnboundChecked'] = True
        else:
            raise Skip('_check_union: unknown statement after the loop')
    if not (rest and is_return_const(rest[-1:], True)):
        raise Skip('_check_union: does not end with `return True`')
    return facts


# ------------------------------------------------------------------ which dict the container checks hand on

def dict_passed(node, aliases=None):
    """'same' when the expression is the dict the function received (`type_vars`), 'copy' when it is a shallow copy of it"""
    t = canon(node, aliases)
    if t == 'type_vars':
        return 'same'
    if t in ('dict(type_vars)', 'type_vars.copy()', '{**type_vars}', 'copy(type_vars)', 'copy.copy(type_vars)', 'dict(**type_vars)', 'dict(type_vars.items())'):
        return 'copy'
    raise Skip(f'a container check hands `{t}` to the check of its elements')


def element_calls(node):
    """the `_is_instance(...)` calls inside the element expression of a comprehension"""
    return [n for n in ast.walk(node) if isinstance(n, ast.Call) and isinstance(n.func, ast.Name) and n.func.id == '_is_instance']


def loop_pass(call, want_fn, what):
    """`all(<generator over the elements>)` / `any([...])`: (which dict the element checks receive, is the comprehension a list)"""
    if not (isinstance(call, ast.Call) and isinstance(call.func, ast.Name) and call.func.id == want_fn and len(call.args) == 1 and not call.keywords
            and isinstance(call.args[0], (ast.GeneratorExp, ast.ListComp)) and len(call.args[0].generators) == 1 and not call.args[0].generators[0].ifs):
        raise Skip(f'{what}: not `{want_fn}(<one comprehension over the elements>)`')
    calls = element_calls(call.args[0].elt)
    if not calls:
        raise Skip(f'{what}: no element check in the comprehension')
    passes = set()
    for c in calls:
        a = call_args(c, IS_INSTANCE_PARAMS)
        if 'type_vars' not in a:
            raise Skip(f'{what}: an element check is not handed a binding dict')
        passes.add(dict_passed(a['type_vars']))
    if len(passes) != 1:
        raise Skip(f'{what}: element checks are handed different dicts')
    return passes.pop(), isinstance(call.args[0], ast.ListComp)


def returns_of(fn):
    return [n for n in ast.walk(fn) if isinstance(n, ast.Return) and n.value is not None]


def container_threading(tree):
    facts = {}
    # List / Set / Sequence / ...: the last return of _instancecheck_iterable
    it = find_func(tree, '_instancecheck_iterable')
    rs = [r for r in returns_of(it) if isinstance(r.value, ast.Call)]
    if len(rs) != 1:
        raise Skip('_instancecheck_iterable: not exactly one loop over the elements')
    facts['iterable'], eager = loop_pass(rs[0].value, 'all', '_instancecheck_iterable')
    if eager:
        raise Skip('_instancecheck_iterable: `all([...])` evaluates every element (not modelled)')
    iv = find_func(tree, '_instancecheck_items_view')
    rs = [r for r in returns_of(iv) if isinstance(r.value, ast.Call)]
    if len(rs) != 1:
        raise Skip('_instancecheck_items_view: not exactly one loop over the items')
    facts['mapping'], eager = loop_pass(rs[0].value, 'all', '_instancecheck_items_view')
    elt = rs[0].value.args[0].elt
    if eager or not (isinstance(elt, ast.BoolOp) and isinstance(elt.op, ast.And) and len(elt.values) == 2 and all(len(element_calls(v)) == 1 for v in elt.values)):
        raise Skip('_instancecheck_items_view: not `all(check(key) and check(val) for key, val in items)`')
    tp = find_func(tree, '_instancecheck_tuple')
    body = [s for s in tp.body if not (isinstance(s, ast.Expr) and isinstance(s.value, ast.Constant))]
    ell = [s for s in body if isinstance(s, ast.If) and canon(s.test) == 'Ellipsis in type_args']
    if not (len(ell) == 1 and len(ell[0].body) == 1 and isinstance(ell[0].body[0], ast.Return) and not ell[0].orelse and isinstance(body[-1], ast.Return)):
        raise Skip('_instancecheck_tuple: unknown shape')
    facts['tupleVar'], e1 = loop_pass(ell[0].body[0].value, 'all', '_instancecheck_tuple (Tuple[x, ...])')
    facts['tuple'], e2 = loop_pass(body[-1].value, 'all', '_instancecheck_tuple')
    if e1 or e2:
        raise Skip('_instancecheck_tuple: `all([...])` evaluates every element (not modelled)')
    if not (canon(body[-1].value.args[0].generators[0].iter) in ('zip(tup, type_args)',)):
        raise Skip('_instancecheck_tuple: the elements are not zipped with the type arguments')
    # _check_union: any([...]) over the non-TypeVar members
    cu = find_func(tree, '_check_union')
    anys = [s.value for s in cu.body if isinstance(s, ast.Assign) and isinstance(s.value, ast.Call) and isinstance(s.value.func, ast.Name) and s.value.func.id == 'any']
    if len(anys) != 1:
        raise Skip('_check_union: `any(...)` over the non-TypeVar members not found')
    facts['unionMembers'], facts['unionEager'] = loop_pass(anys[0], 'any', '_check_union')
    # the way down: _is_instance -> validator(obj, type_args, type_vars, context); mapping -> items view; union -> _check_union
    down = set()
    isi = find_func(tree, '_is_instance')
    for n in ast.walk(isi):
        if isinstance(n, ast.Call) and isinstance(n.func, ast.Name) and n.func.id == 'validator':
            a = call_args(n, ['obj', 'type_args', 'type_vars', 'context'])
            if 'type_vars' not in a:
                raise Skip('_is_instance: a container checker is not handed the binding dict')
            down.add(dict_passed(a['type_vars']))
    if not down:
        raise Skip('_is_instance: no call of a container checker found')
    for fname, callee, names in (('_instancecheck_mapping', '_instancecheck_items_view', ['items_view', 'type_args', 'type_vars', 'context']),
                                 ('_instancecheck_union', '_check_union', ['value', 'type_args', 'type_vars', 'context'])):
        fn = find_func(tree, fname)
        cs = [n for n in ast.walk(fn) if isinstance(n, ast.Call) and isinstance(n.func, ast.Name) and n.func.id == callee]
        if len(cs) != 1 or 'type_vars' not in call_args(cs[0], names):
            raise Skip(f'{fname}: does not hand the binding dict to {callee}')
        down.add(dict_passed(call_args(cs[0], names)['type_vars']))
    facts['dispatch'] = 'same' if down == {'same'} else 'copy'
    return facts


# ------------------------------------------------------------------ FunctionCall

def function_call(tree):
    init = find_func(tree, '__init__', cls='FunctionCall')
    fresh = None
    getter_ok = False
    for s in init.body:
        if isinstance(s, ast.Assign) and canon(s.targets[0]) == 'self._type_vars':
            fresh = canon(s.value) in ('dict()', '{}')
        if isinstance(s, ast.Assign) and canon(s.targets[0]) == 'self._get_type_vars':
            getter_ok = canon(s.value) == 'lambda: self._type_vars'
    if fresh is None or not getter_ok:
        raise Skip('FunctionCall.__init__: `self._type_vars = ...` / `self._get_type_vars = lambda: self._type_vars` not found')
    prop = find_func(tree, 'type_vars', cls='FunctionCall')
    body = [s for s in prop.body if not (isinstance(s, ast.Expr) and isinstance(s.value, ast.Constant))]
    # `if self.<cache> is None: <resolve>; self.<cache> = res` / `return self.<cache>`: the store is resolved once per call
    once = False
    if len(body) == 2 and isinstance(body[0], ast.If) and not body[0].orelse and isinstance(body[1], ast.Return) \
            and isinstance(body[0].test, ast.Compare) and len(body[0].test.ops) == 1 and isinstance(body[0].test.ops[0], ast.Is) \
            and isinstance(body[0].test.comparators[0], ast.Constant) and body[0].test.comparators[0].value is None \
            and isinstance(body[0].test.left, ast.Attribute) and canon(body[0].test.left.value) == 'self':
        cache = canon(body[0].test.left)
        inner = list(body[0].body)
        if not (canon(body[1].value) == cache and inner and isinstance(inner[-1], ast.Assign) and canon(inner[-1].targets[0]) == cache
                and isinstance(inner[-1].value, ast.Name)):
            raise Skip('FunctionCall.type_vars: cache has an unknown shape')
        if not any(isinstance(s, ast.Assign) and canon(s.targets[0]) == cache and canon(s.value) == 'None' for s in init.body):
            raise Skip('FunctionCall.__init__: the cache is not reset per call')
        once = True
        body = inner[:-1] + [ast.Return(value=inner[-1].value)]
    switch = False
    if body and isinstance(body[0], ast.If) and canon(body[0].test) == 'hasattr(self._instance, TYPE_VAR_METHOD_NAME)':
        b = body[0]
        if not (len(b.body) == 1 and isinstance(b.body[0], ast.Assign) and canon(b.body[0].targets[0]) == 'self._get_type_vars'
                and canon(b.body[0].value) == 'getattr(self._instance, TYPE_VAR_METHOD_NAME)' and not b.orelse):
            raise Skip('FunctionCall.type_vars: accessor switch has an unknown shape')
        switch = True
        body = body[1:]
    if not (body and isinstance(body[0], ast.Assign) and canon(body[0].value) == 'self._get_type_vars()' and isinstance(body[0].targets[0], ast.Name)):
        raise Skip('FunctionCall.type_vars: `res = self._get_type_vars()` not found')
    res = body[0].targets[0].id
    if not (isinstance(body[-1], ast.Return) and isinstance(body[-1].value, ast.Name) and body[-1].value.id == res):
        raise Skip('FunctionCall.type_vars: does not return the dict it obtained')
    for s in body[1:-1]:
        # only `if TYPE_VAR_SELF not in res: res[TYPE_VAR_SELF] = self.clazz` may stand here
        if not (isinstance(s, ast.If) and canon(s.test) == f'TYPE_VAR_SELF not in {res}' and len(s.body) == 1
                and canon(s.body[0]) == f'{res}[TYPE_VAR_SELF] = self.clazz' and not s.orelse):
            raise Skip('FunctionCall.type_vars: unknown statement')
    # every check of the class is handed `self.type_vars`
    cls = [n for n in ast.walk(tree) if isinstance(n, ast.ClassDef) and n.name == 'FunctionCall'][0]
    wrapper_resolved = None
    for n in ast.walk(cls):
        if isinstance(n, ast.Call) and isinstance(n.func, ast.Name) and n.func.id == 'assert_value_matches_type':
            kw = {k.arg: k.value for k in n.keywords}
            if 'type_vars' not in kw or canon(kw['type_vars']) != 'self.type_vars':
                raise Skip('FunctionCall: a check is not handed self.type_vars')
        if isinstance(n, ast.Call) and isinstance(n.func, ast.Name) and n.func.id == 'GeneratorWrapper':
            # the wrapper checks what the generator yields / returns later on: with the resolved store of the call (`self.type_vars`),
            # or with the private dict of the FunctionCall (`self._type_vars`), which a method of a pedantic_class instance never fills
            kw = {k.arg: k.value for k in n.keywords}
            got = canon(kw['type_vars']) if 'type_vars' in kw else None
            if got not in ('self.type_vars', 'self._type_vars') or wrapper_resolved not in (None, got == 'self.type_vars'):
                raise Skip('FunctionCall: GeneratorWrapper is handed something else than self.type_vars / self._type_vars')
            wrapper_resolved = got == 'self.type_vars'
    if wrapper_resolved is None:
        raise Skip('FunctionCall: no GeneratorWrapper(...) call found')
    return {'fresh': fresh, 'switch': switch, 'once': once, 'wrapper': wrapper_resolved, 'kwfilter': kwargs_filter(tree, init)}


def kwargs_filter(tree, init):
    """which keyword arguments `_check_types_kwargs` matches against the annotation of `**kwargs`: `not_yet_check_kwargs` is
    `{k: v for k, v in self._kwargs.items() if k not in <names>}`; <names> is the list the loop over the NAMED parameters fills
    (`visitedNamed`), the names of the signature (`signatureNames`: they include the names of the `*` / `**` parameters), or absent"""
    prop = find_func(tree, 'not_yet_check_kwargs', cls='FunctionCall')
    body = [s for s in prop.body if not (isinstance(s, ast.Expr) and isinstance(s.value, ast.Constant))]
    # since 8cfcc6f: an optional first statement `receiver = 'self' if self.func.is_instance_method else None` and the extra conjunct
    # `k != receiver` in the filter (the receiver passed by keyword is no value for **kwargs)
    receiver_alias = None
    if (len(body) == 2 and isinstance(body[0], ast.Assign) and len(body[0].targets) == 1 and isinstance(body[0].targets[0], ast.Name)
            and canon(body[0].value) in ("'self' if self.func.is_instance_method else None", "'self' if self._func.is_instance_method else None")):
        receiver_alias = body[0].targets[0].id
        body = body[1:]
    if not (len(body) == 1 and isinstance(body[0], ast.Return) and isinstance(body[0].value, ast.DictComp)):
        raise Skip('FunctionCall.not_yet_check_kwargs: not a single dict comprehension')
    dc = body[0].value
    g = dc.generators
    if not (len(g) == 1 and isinstance(g[0].target, ast.Tuple) and len(g[0].target.elts) == 2 and canon(g[0].iter) in ('self._kwargs.items()', 'self.kwargs.items()')
            and canon(dc.key) == canon(g[0].target.elts[0]) and canon(dc.value) == canon(g[0].target.elts[1])):
        raise Skip('FunctionCall.not_yet_check_kwargs: does not run over the keyword arguments of the call')
    # `_check_types_kwargs` must check exactly these
    ck = find_func(tree, '_check_types_kwargs', cls='FunctionCall')
    loops = [n for n in ast.walk(ck) if isinstance(n, ast.For)]
    if not (len(loops) == 1 and canon(loops[0].iter) == 'self.not_yet_check_kwargs'):
        raise Skip('FunctionCall._check_types_kwargs: does not run over self.not_yet_check_kwargs')
    if not g[0].ifs:
        return 'everyKeyword'
    if len(g[0].ifs) != 1:
        raise Skip('FunctionCall.not_yet_check_kwargs: several filters')
    cond = g[0].ifs[0]
    if receiver_alias is not None and isinstance(cond, ast.BoolOp) and isinstance(cond.op, ast.And) and len(cond.values) == 2:
        extra = [v for v in cond.values if canon(v) in (f'{canon(dc.key)} != {receiver_alias}', f'{receiver_alias} != {canon(dc.key)}')]
        rest = [v for v in cond.values if v not in extra]
        if len(extra) == 1 and len(rest) == 1:
            cond = rest[0]
    neg, t = strip_not(cond)
    if not (neg and isinstance(t, ast.Compare) and len(t.ops) == 1 and isinstance(t.ops[0], ast.In) and canon(t.left) == canon(dc.key)):
        raise Skip('FunctionCall.not_yet_check_kwargs: unknown filter')
    names = canon(t.comparators[0])
    if names in ('self._params_without_self', 'self.params_without_self', 'self.func.signature.parameters', 'self._func.signature.parameters'):
        return 'signatureNames'
    if not (names.startswith('self.') and names[5:].isidentifier()):
        raise Skip('FunctionCall.not_yet_check_kwargs: filters by something else than a list kept on the call')
    # the list starts empty per call and receives exactly the keys the loop over the named parameters visits
    if not any(isinstance(s_, ast.Assign) and canon(s_.targets[0]) == names and canon(s_.value) in ('[]', 'list()', 'set()') for s_ in init.body):
        raise Skip('FunctionCall.__init__: the list of checked keywords does not start empty per call')
    writers = []
    cls = [n for n in ast.walk(tree) if isinstance(n, ast.ClassDef) and n.name == 'FunctionCall'][0]
    for fn in cls.body:
        if isinstance(fn, (ast.FunctionDef, ast.AsyncFunctionDef)):
            for n in ast.walk(fn):
                if isinstance(n, ast.Attribute) and canon(n) == names and not (isinstance(n.ctx, ast.Load) and fn.name in ('not_yet_check_kwargs',)):
                    writers.append(fn.name)
    if set(writers) - {'__init__', '_check_type_param'}:
        raise Skip('FunctionCall: the list of checked keywords is touched outside _check_type_param')
    cp = find_func(tree, '_check_type_param', cls='FunctionCall')
    loop = [s_ for s_ in cp.body if isinstance(s_, ast.For)]
    if not (len(loop) == 1 and canon(loop[0].iter) == 'params.items()' and isinstance(loop[0].target, ast.Tuple) and loop[0].body
            and canon(loop[0].body[0]) in (f'{names}.append({canon(loop[0].target.elts[0])})', f'{names}.add({canon(loop[0].target.elts[0])})')):
        raise Skip('FunctionCall._check_type_param: the visited key is not recorded first thing in the loop')
    # ... and that loop is handed the named parameters only
    ca = find_func(tree, '_check_types_of_arguments', cls='FunctionCall')
    al = {}
    handed = None
    for s_ in ca.body:
        if simple_alias(s_):
            al[s_.targets[0].id] = s_.value
        for n in ast.walk(s_):
            if isinstance(n, ast.Call) and canon(n.func) == 'self._check_type_param':
                handed = canon(call_args(n, ['params']).get('params', ast.Constant(0)), al)
    if handed != "{k: v for k, v in self.params_without_self.items() if not str(v).startswith('*')}":
        raise Skip('FunctionCall._check_types_of_arguments: _check_type_param is not handed the named parameters')
    return 'visitedNamed'


# ------------------------------------------------------------------ pedantic_class accessor

def _as_getattr(node, direct):
    """`get_instance_attribute(instance=X, name=N, default=D)` (the helper that reads what is stored on the instance WITHOUT falling back to
    a `__getattr__` of the class) is read as `getattr(X, N, D)`; `direct` collects which of the two forms every read of the stored dict has"""
    if isinstance(node, ast.Call) and canon(node.func) == 'get_instance_attribute':
        a = call_args(node, ['instance', 'name', 'default'])
        if 'instance' in a and 'name' in a:
            direct.append(True)
            return ast.Call(func=ast.Name(id='getattr', ctx=ast.Load()), args=[a['instance'], a['name']] + ([a['default']] if 'default' in a else []), keywords=[])
    elif isinstance(node, ast.Call) and canon(node.func) == 'getattr':
        direct.append(False)
    return node


def instance_reads_helper_ok(tree):
    """`get_instance_attribute`: `try: return object.__getattribute__(instance, name)` / `except AttributeError: return default`"""
    try:
        fn = find_func(tree, 'get_instance_attribute')
    except Exception:
        return False
    body = [canon(s) for s in fn.body if not (isinstance(s, ast.Expr) and isinstance(s.value, ast.Constant))]
    return body == ['try:\n    return object.__getattribute__(instance, name)\nexcept AttributeError:\n    return default'] \
        and [a.arg for a in fn.args.args] == ['instance', 'name', 'default']


def already_checked_direct(tree):
    """`_assert_constructor_called_with_generics` asks for its own mark with get_instance_attribute (not hasattr / getattr)"""
    fn = find_func(tree, '_assert_constructor_called_with_generics')
    reads = [canon(n) for n in ast.walk(fn) if isinstance(n, ast.Call) and canon(n.func) in ('hasattr', 'getattr', 'get_instance_attribute')
             and 'ATTR_NAME_GENERIC_INSTANCE_ALREADY_CHECKED' in canon(n)]
    return bool(reads) and all(r.startswith('get_instance_attribute(') for r in reads)


def accessor(tree):
    outer = find_func(tree, '_add_type_var_attr_and_method_to_class')
    inner = [s for s in outer.body if isinstance(s, ast.FunctionDef)]
    if len(inner) != 1 or not inner[0].args.args:
        raise Skip('_add_type_var_attr_and_method_to_class: accessor not found')
    acc = inner[0]
    me = acc.args.args[0].arg
    installs = [s for s in outer.body if isinstance(s, ast.Expr) and canon(s.value) == f'setattr(cls, TYPE_VAR_METHOD_NAME, {acc.name})']
    if not installs:
        raise Skip('_add_type_var_attr_and_method_to_class: accessor is not installed under TYPE_VAR_METHOD_NAME')
    body = [s for s in acc.body if not (isinstance(s, ast.Expr) and isinstance(s.value, ast.Constant))]
    aliases = {}
    while body and simple_alias(body[0]):
        aliases[body[0].targets[0].id] = body[0].value
        body = body[1:]
    if not (len(body) == 2 and isinstance(body[0], ast.If) and isinstance(body[1], ast.Return)):
        raise Skip('accessor: unknown shape')
    test, ret = body
    if canon(test.test) not in (f'is_instance_of_generic_class(instance={me})', f'is_instance_of_generic_class({me})'):
        raise Skip('accessor: the test is not is_instance_of_generic_class')
    owners = set()

    def owner_of(call):
        o = canon(call.args[0]) if call.args else None
        if o == me:
            owners.add('instance')
        elif o in ('cls', f'type({me})', f'{me}.__class__'):
            owners.add('class')
        else:
            raise Skip('accessor: attribute is kept on something else')
    gen_aliases = dict(aliases)
    stmts = list(test.body)
    while stmts and simple_alias(stmts[0]):
        gen_aliases[stmts[0].targets[0].id] = stmts[0].value
        stmts = stmts[1:]
    if not (len(stmts) == 1 and isinstance(stmts[0], ast.Expr) and isinstance(stmts[0].value, ast.Call) and canon(stmts[0].value.func) == 'setattr'
            and len(stmts[0].value.args) == 3 and canon(stmts[0].value.args[1]) == 'TYPE_VAR_ATTR_NAME' and isinstance(stmts[0].value.args[2], ast.Dict)
            and all(k is None for k in stmts[0].value.args[2].keys)):
        raise Skip('accessor: generic arm does not store a `{**a, **b, ...}` merge')
    owner_of(stmts[0].value)
    merge = []
    only_params = False
    SELF = '{TYPE_VAR_SELF: cls}'
    direct = []
    for v in stmts[0].value.args[2].values:
        node = gen_aliases.get(v.id) if isinstance(v, ast.Name) else v
        if node is None:
            raise Skip('accessor: unknown merge operand')
        node = _as_getattr(node, direct)
        if isinstance(node, ast.Call) and canon(node.func) == 'getattr' and len(node.args) == 3 and canon(node.args[1]) == 'TYPE_VAR_ATTR_NAME' \
                and canon(node.args[2]) in ('dict()', '{}'):
            owner_of(node)
            merge.append('fifo')
        elif isinstance(node, ast.DictComp):
            # `{k: v for k, v in getattr(self, ATTR, dict()).items() if k in <type parameters of the class>}`
            g = node.generators
            if not (len(g) == 1 and isinstance(g[0].target, ast.Tuple) and len(g[0].target.elts) == 2 and len(g[0].ifs) == 1
                    and canon(node.key) == canon(g[0].target.elts[0]) and canon(node.value) == canon(g[0].target.elts[1])
                    and isinstance(g[0].iter, ast.Call) and isinstance(g[0].iter.func, ast.Attribute) and g[0].iter.func.attr == 'items'
                    and not g[0].iter.args):
                raise Skip('accessor: unknown comprehension over the stored dict')
            src_ = _as_getattr(g[0].iter.func.value, direct)
            if not (isinstance(src_, ast.Call) and canon(src_.func) == 'getattr' and len(src_.args) == 3 and canon(src_.args[1]) == 'TYPE_VAR_ATTR_NAME'
                    and canon(src_.args[2]) in ('dict()', '{}')):
                raise Skip('accessor: the comprehension does not read the stored dict')
            owner_of(src_)
            cond = g[0].ifs[0]
            if not (isinstance(cond, ast.Compare) and len(cond.ops) == 1 and isinstance(cond.ops[0], ast.In) and canon(cond.left) == canon(node.key)):
                raise Skip('accessor: unknown filter on the stored dict')
            params = cond.comparators[0]
            params = gen_aliases.get(params.id, params) if isinstance(params, ast.Name) else params
            if canon(params) not in (f"getattr(type({me}), '__parameters__', ())", f"type({me}).__parameters__", f"{me}.__class__.__parameters__",
                                     f"getattr({me}.__class__, '__parameters__', ())"):
                raise Skip('accessor: the stored dict is filtered by something else than the type parameters of the class')
            merge.append('fifo')
            only_params = True
        elif canon(node) in (f'check_instance_of_generic_class_and_get_type_vars(instance={me})', f'check_instance_of_generic_class_and_get_type_vars({me})'):
            merge.append('generics')
        elif canon(node) == SELF:
            merge.append('self')
        else:
            raise Skip('accessor: unknown merge operand')
    if sorted(merge) != ['fifo', 'generics', 'self']:
        raise Skip('accessor: merge does not consist of the stored dict, the generics and the Self entry')
    e = test.orelse
    if not (len(e) == 1 and isinstance(e[0], ast.Expr) and isinstance(e[0].value, ast.Call) and canon(e[0].value.func) == 'setattr'
            and len(e[0].value.args) == 3 and canon(e[0].value.args[1]) == 'TYPE_VAR_ATTR_NAME'):
        raise Skip('accessor: non-generic arm has an unknown shape')
    owner_of(e[0].value)
    v = e[0].value.args[2]
    node = aliases.get(v.id) if isinstance(v, ast.Name) else v
    non_generic_fresh = node is not None and canon(node) == SELF
    if not non_generic_fresh:
        raise Skip('accessor: non-generic arm does not store a fresh {TYPE_VAR_SELF: cls}')
    if not (isinstance(ret.value, ast.Call) and canon(ret.value.func) == 'getattr' and len(ret.value.args) == 2 and canon(ret.value.args[1]) == 'TYPE_VAR_ATTR_NAME'):
        raise Skip('accessor: does not return the stored attribute')
    owner_of(ret.value)
    if len(owners) != 1:
        raise Skip('accessor: attribute is read and written on different objects')
    return {'merge': merge, 'nonGenericFresh': non_generic_fresh, 'storeOnInstance': owners == {'instance'}, 'onlyParams': only_params,
            'storedReadDirect': bool(direct) and all(direct)}


ORIG_DIRECT = [False]


def generics_from_orig_class(tree):
    """(True, where the type parameters of the class are taken from): `firstOrigBase` — the type arguments of `__orig_bases__[0]`;
    `genericEntry` — those of the first `Generic[...]` entry of `__orig_bases__`; `parameters` — `type(instance).__parameters__`"""
    fn = find_func(tree, 'check_instance_of_generic_class_and_get_type_vars')
    body = [s for s in fn.body if not (isinstance(s, ast.Expr) and isinstance(s.value, ast.Constant))]
    head = ['type_vars = dict()', '_assert_constructor_called_with_generics(instance=instance)',
            "if not hasattr(instance, '__orig_class__'):\n    return type_vars"]
    tail = ['actual_types = get_type_arguments(instance.__orig_class__)',
            'for i, type_var in enumerate(type_variables):\n    type_vars[type_var] = actual_types[i]', 'return type_vars']
    txt = [canon(s) for s in body]
    # the same, reading `__orig_class__` through get_instance_attribute (no fall-back to a `__getattr__` of the class)
    head2 = head[:2] + ["orig_class = get_instance_attribute(instance=instance, name='__orig_class__')", 'if orig_class is None:\n    return type_vars']
    tail2 = ['actual_types = get_type_arguments(orig_class)'] + tail[1:]
    if txt[:4] == head2 and txt[-3:] == tail2:
        body = body[:2] + body[3:]           # (the `orig_class = …` line is part of the head)
        ORIG_DIRECT[0] = True
    elif txt[:3] != head or txt[-3:] != tail:
        raise Skip('check_instance_of_generic_class_and_get_type_vars: body differs from the modelled one')
    else:
        ORIG_DIRECT[0] = False
    mid = body[3:-3]
    aliases = {}
    while len(mid) > 1 and simple_alias(mid[0]):
        aliases[mid[0].targets[0].id] = _Inline(aliases).visit(copy.deepcopy(mid[0].value))
        mid = mid[1:]
    if not (len(mid) == 1 and simple_alias(mid[0]) and mid[0].targets[0].id == 'type_variables'):
        raise Skip('check_instance_of_generic_class_and_get_type_vars: `type_variables = ...` not found')
    v = canon(mid[0].value, aliases)
    OB = 'type(instance).__orig_bases__'
    gen_entries = [f"[{x} for {x} in {OB} if getattr({x}, '__origin__', None) is Generic]" for x in ('base', 'b', 'x')] + \
                  [f"[{x} for {x} in {OB} if get_origin({x}) is Generic]" for x in ('base', 'b', 'x')]
    if v in (f'get_type_arguments({OB}[0])', f'get_type_arguments(cls={OB}[0])'):
        return True, 'firstOrigBase'
    if v in [f'get_type_arguments({g}[0])' for g in gen_entries]:
        return True, 'genericEntry'
    if v in ('type(instance).__parameters__', 'instance.__class__.__parameters__', "getattr(type(instance), '__parameters__', ())"):
        return True, 'parameters'
    raise Skip('check_instance_of_generic_class_and_get_type_vars: the type parameters are taken from an unknown place')


def generic_test(tree):
    """what makes an instance one of a generic class for the accessor: `directBase` - `Generic in instance.__class__.__bases__`;
    `directBaseOrParameters` - that, or the class still has type parameters (`__parameters__`); `parameters` - the latter alone"""
    fn = find_func(tree, 'is_instance_of_generic_class')
    body = [s for s in fn.body if not (isinstance(s, ast.Expr) and isinstance(s.value, ast.Constant))]
    aliases = {}
    while len(body) > 1 and simple_alias(body[0]):
        aliases[body[0].targets[0].id] = _Inline(aliases).visit(copy.deepcopy(body[0].value))
        body = body[1:]
    if not (len(body) == 1 and isinstance(body[0], ast.Return)):
        raise Skip('is_instance_of_generic_class: unknown shape')
    C = ('instance.__class__', 'type(instance)')
    direct = [f'Generic in {c}.__bases__' for c in C]
    params = [f"bool(getattr({c}, '__parameters__', ()))" for c in C] + [f'bool({c}.__parameters__)' for c in C] + [f'len({c}.__parameters__) > 0' for c in C]
    v = body[0].value
    parts = [canon(x, aliases) for x in v.values] if isinstance(v, ast.BoolOp) and isinstance(v.op, ast.Or) else [canon(v, aliases)]
    kinds = set()
    for t in parts:
        if t in direct:
            kinds.add('d')
        elif t in params:
            kinds.add('p')
        else:
            raise Skip(f'is_instance_of_generic_class: unknown test `{t}`')
    return {'d': 'directBase', 'p': 'parameters', 'dp': 'directBaseOrParameters'}[''.join(sorted(kinds))]


def gen_typevars(repo):
    ct = ast.parse(src(repo, CT))
    tvb = typevar_branch(ct)
    un = check_union(ct)
    th = container_threading(ct)
    fc = function_call(ast.parse(src(repo, FC)))
    ac = accessor(ast.parse(src(repo, CD)))
    gc = generics_from_orig_class(ast.parse(src(repo, GC)))
    gt = generic_test(ast.parse(src(repo, GC)))
    arms = ', '.join('.' + a for a in tvb['arms'])
    merge = ', '.join('.' + m for m in ac['merge'])
    return HEADER.format(rel=', '.join([CT, FC, CD, GC])) + f'''namespace PedVerif.Gen.TypeVars

/-- the statements of the TypeVar branch of `_is_instance` (`if isinstance(type_, TypeVar):`), in source order -/
inductive Arm where
  | constraints      -- `if len(constraints) > 0 and <membership test fails>: return False`
  | fwdBoundReturn   -- `if _is_forward_ref(bound): return _is_instance(obj, resolved)` (leaves the branch: no binding)
  | fwdBoundTest     -- `if _is_forward_ref(bound): if not _is_instance(obj, resolved): return False`
  | bound            -- `(el)if bound is not None and not isinstance(obj, bound): return False`
  | prevBound        -- `if type_ in type_vars:` compare with the stored binding, raise on mismatch
  | bind             -- `type_vars[type_] = type(obj)`
deriving DecidableEq, Repr

def tvArms : List Arm := [{arms}]
/-- the constraints test is `type(obj) not in constraints` (exact class), not an isinstance test -/
def constraintsExactClass : Bool := {lean_bool(tvb['constraintsExactClass'])}
/-- `if type_.__contravariant__:` selects `_is_subtype(sub_type=other, super_type=obj.__class__)` -/
def varianceDispatch : Bool := {lean_bool(tvb['varianceDispatch'])}
/-- covariant re-check: `isinstance(obj, other)` when the stored binding is a class -/
def covIsinstanceForClass : Bool := {lean_bool(tvb['covIsinstanceForClass'])}
/-- ... and `typing.Any` (a class since Python 3.11) takes that `isinstance` path too -/
def anyCountsAsClass : Bool := {lean_bool(tvb['anyCountsAsClass'])}
/-- both mismatch arms raise PedanticTypeVarMismatchException -/
def mismatchRaisesTypeVarMismatch : Bool := {lean_bool(tvb['mismatchTVM'])}
/-- the binding statement is guarded by `if type_ not in type_vars:` -/
def bindOnlyWhenUnbound : Bool := {lean_bool(tvb['bindOnlyWhenUnbound'])}

/-- `_check_union`: the loop over already-bound TypeVars tests the verdict (`if _is_instance(...): return True`) -/
def unionBoundedTestsVerdict : Bool := {lean_bool(un['testsVerdict'])}
/-- exception class swallowed by that loop -/
def unionSwallows : String := {lean_str(un['swallows'])}
/-- `if not args_type_vars_unbounded: return False` -/
def unionNoUnboundRejects : Bool := {lean_bool(un['noUnboundRejects'])}
/-- `if len(args_type_vars_unbounded) == 1: return _is_instance(value, that one)`; several unbound ones: `return True` -/
def unionSingleUnboundChecked : Bool := {lean_bool(un['singleUnboundChecked'])}

/-- which binding dict a container check hands to the check of an element / a member -/
inductive Pass where
  | same   -- `type_vars=type_vars`: the dict it received — the bindings made by one element are seen by the next, and by the caller
  | copy   -- a copy (`dict(type_vars)`, `type_vars.copy()`, `{{**type_vars}}`): what an element binds is lost
deriving DecidableEq, Repr
/-- `_instancecheck_iterable` (List, Set, Sequence, ...): `all(_is_instance(val, type_, type_vars=type_vars, ...) for val in iterable)`, a lazy `all` -/
def iterablePass : Pass := .{th['iterable']}
/-- `_instancecheck_mapping` → `_instancecheck_items_view`: `all(_is_instance(key, ...) and _is_instance(val, ...) for key, val in items_view)` -/
def mappingPass : Pass := .{th['mapping']}
/-- `_instancecheck_tuple`, `Tuple[x, ...]`: `all(_is_instance(val, type_args[0], ...) for val in tup)` -/
def tupleVarPass : Pass := .{th['tupleVar']}
/-- `_instancecheck_tuple`, fixed length: `all(_is_instance(val, type_, ...) for val, type_ in zip(tup, type_args))` -/
def tuplePass : Pass := .{th['tuple']}
/-- `_check_union`: `any([_is_instance(value, typ, type_vars=type_vars, ...) for typ in args_non_type_vars])` -/
def unionMembersPass : Pass := .{th['unionMembers']}
/-- ... a LIST comprehension inside `any`: every non-TypeVar member is evaluated (a generator would stop at the first True) -/
def unionMembersEager : Bool := {lean_bool(th['unionEager'])}
/-- `_is_instance` hands the dict it received to the container checker (`validator(obj, type_args, type_vars, context)`), and
    `_instancecheck_mapping` / `_instancecheck_union` hand it on to `_instancecheck_items_view` / `_check_union` -/
def dispatchPass : Pass := .{th['dispatch']}

/-- `FunctionCall.__init__`: `self._type_vars = dict()` — a fresh map per call -/
def perCallFreshMap : Bool := {lean_bool(fc['fresh'])}
/-- `FunctionCall.type_vars`: `if hasattr(self._instance, TYPE_VAR_METHOD_NAME):` switches to the per-instance accessor -/
def instanceAccessorSwitch : Bool := {lean_bool(fc['switch'])}
/-- `FunctionCall.type_vars` resolves the store once per call and hands the same dict to every check of the call -/
def resolveOncePerCall : Bool := {lean_bool(fc['once'])}
/-- `_check_types_return` hands the `GeneratorWrapper` of a generator function the resolved store of the call (`self.type_vars`):
    what the generator yields / returns later is checked with the bindings of its call (and of its instance) -/
def generatorGetsResolvedStore : Bool := {lean_bool(fc['wrapper'])}

/-- what the per-instance accessor of `pedantic_class` merges for a generic instance, in `{{**a, **b, **c}}` order -/
inductive Src where
  | fifo       -- `getattr(self, TYPE_VAR_ATTR_NAME, dict())`: what earlier accesses left on the instance
  | generics   -- `check_instance_of_generic_class_and_get_type_vars(instance=self)`: TypeVar ↦ argument of `__orig_class__`
  | self       -- `{{TYPE_VAR_SELF: cls}}`
deriving DecidableEq, Repr
def genericMergeOrder : List Src := [{merge}]
/-- of the stored dict only the type parameters of the class are carried over (`if k in type(self).__parameters__`) -/
def fifoOnlyClassParams : Bool := {lean_bool(ac['onlyParams'])}
/-- for an instance of a non-generic class the attribute is overwritten with a fresh `{{TYPE_VAR_SELF: cls}}` -/
def nonGenericFresh : Bool := {lean_bool(ac['nonGenericFresh'])}
/-- the attribute is read from and written to the instance (`self`), not the class -/
def storeOnInstance : Bool := {lean_bool(ac['storeOnInstance'])}
/-- what the library has stored on an instance (`TYPE_VAR_ATTR_NAME`, `__orig_class__`) is read with `get_instance_attribute`
    (`object.__getattribute__`, `default` on AttributeError): never through a `__getattr__` of the class - user code, and in a pedantic class
    a checked method whose wrapper asks for the type variables of the instance again -/
def storedStateReadDirect : Bool := {lean_bool(ac['storedReadDirect'] and ORIG_DIRECT[0] and instance_reads_helper_ok(ast.parse(src(repo, GC))) and already_checked_direct(ast.parse(src(repo, GC))))}
/-- `check_instance_of_generic_class_and_get_type_vars`: `{{}}` without `__orig_class__`, else parameters zipped with arguments in order -/
def genericsFromOrigClass : Bool := {lean_bool(gc[0])}
/-- ... and where the parameters are taken from -/
inductive ParamSrc where
  | firstOrigBase   -- `get_type_arguments(type(instance).__orig_bases__[0])`
  | genericEntry    -- the type arguments of the first `Generic[...]` entry of `__orig_bases__` (IndexError when there is none)
  | parameters      -- `type(instance).__parameters__`
deriving DecidableEq, Repr
def genericParamsFrom : ParamSrc := .{gc[1]}
/-- `is_instance_of_generic_class`: what makes an instance one of a generic class for the accessor -/
inductive GenericTest where
  | directBase               -- `Generic in instance.__class__.__bases__` (direct bases only)
  | directBaseOrParameters   -- ... or the class still has type parameters (`__parameters__`)
  | parameters               -- the class has type parameters
deriving DecidableEq, Repr
def genericTest : GenericTest := .{gt}

/-- which keyword arguments of a call `_check_types_kwargs` matches against the annotation of `**kwargs` -/
inductive KwFilter where
  | visitedNamed    -- all but the keys the loop over the NAMED parameters has visited (`_already_checked_kwargs`, filled per call)
  | signatureNames  -- all but the names of the signature — these include the names of the `*args` / `**kwargs` parameters themselves
  | everyKeyword    -- no filter
deriving DecidableEq, Repr
def kwargsFilter : KwFilter := .{fc['kwfilter']}

end PedVerif.Gen.TypeVars
'''


FILES = {'TypeVars.lean': gen_typevars}
