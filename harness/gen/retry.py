"""Translator part for C15: the shape of the retry_func loop."""
import ast
from extract import Skip, src, find_func, lean_bool, HEADER, CMP


def is_call_func_args_kwargs(node) -> bool:
    """`func(*args, **kwargs)`"""
    return (isinstance(node, ast.Call) and isinstance(node.func, ast.Name) and node.func.id == 'func'
            and len(node.args) == 1 and isinstance(node.args[0], ast.Starred)
            and isinstance(node.args[0].value, ast.Name) and node.args[0].value.id == 'args'
            and len(node.keywords) == 1 and node.keywords[0].arg is None
            and isinstance(node.keywords[0].value, ast.Name) and node.keywords[0].value.id == 'kwargs')


def contains_sleep(nodes) -> bool:
    for n in nodes:
        for x in ast.walk(n):
            if isinstance(x, ast.Call) and isinstance(x.func, ast.Attribute) and x.func.attr == 'sleep':
                return True
            if isinstance(x, ast.Call) and isinstance(x.func, ast.Name) and x.func.id == 'sleep':
                return True
    return False


def gen_retry(repo):
    rel = 'pedantic/decorators/fn_deco_retry.py'
    tree = ast.parse(src(repo, rel))
    fn = find_func(tree, 'retry_func')
    body = [s for s in fn.body if not (isinstance(s, ast.Expr) and isinstance(s.value, ast.Constant))]
    init = None
    whiles = [s for s in body if isinstance(s, ast.While)]
    if len(whiles) != 1:
        raise Skip('retry_func: expected exactly one while loop')
    w = whiles[0]
    widx = body.index(w)
    for s in body[:widx]:
        if isinstance(s, ast.Assign) and len(s.targets) == 1 and isinstance(s.targets[0], ast.Name) \
                and s.targets[0].id == 'attempt' and isinstance(s.value, ast.Constant) and isinstance(s.value.value, int):
            init = s.value.value
    if init is None:
        raise Skip('retry_func: no `attempt = <int>`')
    t = w.test
    if not (isinstance(t, ast.Compare) and len(t.ops) == 1 and type(t.ops[0]) in CMP
            and isinstance(t.left, ast.Name) and isinstance(t.comparators[0], ast.Name)
            and {t.left.id, t.comparators[0].id} == {'attempt', 'attempts'}):
        raise Skip('retry_func: loop guard is not a comparison of attempt and attempts')
    guard = f'decide ({t.left.id} {CMP[type(t.ops[0])]} {t.comparators[0].id})'
    if w.orelse or len(w.body) != 1 or not isinstance(w.body[0], ast.Try):
        raise Skip('retry_func: loop body is not a single try statement')
    tr = w.body[0]
    if tr.finalbody or tr.orelse or len(tr.handlers) != 1:
        raise Skip('retry_func: try has finally/else or several handlers')
    if not (len(tr.body) == 1 and isinstance(tr.body[0], ast.Return) and is_call_func_args_kwargs(tr.body[0].value)):
        raise Skip('retry_func: try body is not `return func(*args, **kwargs)`')
    h = tr.handlers[0]
    handler_is_param = isinstance(h.type, ast.Name) and h.type.id == 'exceptions'
    inc = None
    for s in h.body:
        if isinstance(s, ast.AugAssign) and isinstance(s.target, ast.Name) and s.target.id == 'attempt' \
                and isinstance(s.op, ast.Add) and isinstance(s.value, ast.Constant) and isinstance(s.value.value, int):
            inc = s.value.value
        if isinstance(s, (ast.Return, ast.Raise, ast.Break, ast.Continue)):
            raise Skip('retry_func: handler leaves the loop iteration explicitly')
    if inc is None:
        raise Skip('retry_func: handler has no `attempt += <int>`')
    sleep_in_handler = contains_sleep(h.body)
    # does the handler read an attribute of the retried callable (e.g. `func.__name__` in the log message)?  A callable without
    # that attribute (functools.partial, an instance with __call__) then makes the handler itself raise AttributeError
    needs_name = any(isinstance(x, ast.Attribute) and isinstance(x.value, ast.Name) and x.value.id == 'func'
                     for st in h.body for x in ast.walk(st))
    # the sleep duration is the caller's `sleep_time`
    sleeps = [x for st in h.body for x in ast.walk(st) if isinstance(x, ast.Call) and ast.unparse(x.func) in ('time.sleep', 'sleep')]
    sleep_arg_ok = all(len(x.args) == 1 and ast.unparse(x.args[0]) == 'sleep_time.total_seconds()' for x in sleeps)
    others = body[:widx] + body[widx + 1:]
    sleep_elsewhere = contains_sleep(others) or contains_sleep(tr.body)
    after = body[widx + 1:]
    final_call = len(after) == 1 and isinstance(after[0], ast.Return) and is_call_func_args_kwargs(after[0].value)
    if after and not final_call:
        raise Skip('retry_func: statements after the loop are not `return func(*args, **kwargs)`')
    forwards = True  # both call sites matched is_call_func_args_kwargs above
    return HEADER.format(rel=rel) + f'''namespace PedVerif.Gen.Retry

/-- `attempt = <init>` before the loop -/
def initAttempt : Int := {init}
/-- the `while <guard>:` test, translated -/
def loopGuard (attempt attempts : Int) : Bool := {guard}
/-- `attempt += <inc>` in the handler -/
def inc : Int := {inc}
/-- the handler of the `try` names exactly the caller-supplied `exceptions` -/
def handlerIsExceptionsParam : Bool := {lean_bool(handler_is_param)}
/-- `time.sleep(...)` occurs in the handler (after a failed attempt) -/
def sleepInHandler : Bool := {lean_bool(sleep_in_handler)}
/-- the handler reads an attribute of `func` (a callable object without it makes the handler raise) -/
def handlerNeedsName : Bool := {lean_bool(needs_name)}
/-- every sleep waits `sleep_time.total_seconds()` -/
def sleepArgIsSleepTime : Bool := {lean_bool(sleep_arg_ok)}
/-- `time.sleep(...)` occurs anywhere else in the function -/
def sleepElsewhere : Bool := {lean_bool(sleep_elsewhere)}
/-- the statement after the loop is `return func(*args, **kwargs)` -/
def finalCall : Bool := {lean_bool(final_call)}
/-- every invocation is spelled `func(*args, **kwargs)` -/
def forwardsArgsUnchanged : Bool := {lean_bool(forwards)}

end PedVerif.Gen.Retry
'''



FILES = {'Retry.lean': gen_retry}
