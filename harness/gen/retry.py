"""Translator part for C15: the shape of the retry_func loop."""
import ast
from extract import Skip, src, find_func, lean_bool, HEADER, CMP


def is_call_func_args_kwargs(node) -> bool:
    """`func(*args, **kwargs)`"""
    return (isinstance(node, ast.Call) and isinstance(node.func, ast.Name) and node.func.id == 'func'
            and len(node.args) == 1 and isinstance(node.args[0], ast.Starred)
            and isinstance(node.args[0].value, ast.Name) and node.args[0].value.id == 'args'
            and len(node.keywords) == 1 and node.keywords[0].arg is None
            and isinstance(node.keywords[0].value, ast.Name) and node.keywords[0].value.id == 'kwargs')


def contains_sleep(nodes) -> bool:
    for n in nodes:
        for x in ast.walk(n):
            if isinstance(x, ast.Call) and isinstance(x.func, ast.Attribute) and x.func.attr == 'sleep':
                return True
            if isinstance(x, ast.Call) and isinstance(x.func, ast.Name) and x.func.id == 'sleep':
                return True
    return False


def gen_retry(repo):
    rel = 'pedantic/decorators/fn_deco_retry.py'
    tree = ast.parse(src(repo, rel))
    fn = find_func(tree, 'retry_func')
    body = [s for s in fn.body if not (isinstance(s, ast.Expr) and isinstance(s.value, ast.Constant))]
    init = None
    whiles = [s for s in body if isinstance(s, ast.While)]
    if len(whiles) != 1:
        raise Skip('retry_func: expected exactly one while loop')
    w = whiles[0]
    widx = body.index(w)
    for s in body[:widx]:
        if isinstance(s, ast.Assign) and len(s.targets) == 1 and isinstance(s.targets[0], ast.Name) \
                and s.targets[0].id == 'attempt' and isinstance(s.value, ast.Constant) and isinstance(s.value.value, int):
            init = s.value.value
    if init is None:
        raise Skip('retry_func: no `attempt = <int>`')
    t = w.test
    if not (isinstance(t, ast.Compare) and len(t.ops) == 1 and type(t.ops[0]) in CMP
            and isinstance(t.left, ast.Name) and isinstance(t.comparators[0], ast.Name)
            and {t.left.id, t.comparators[0].id} == {'attempt', 'attempts'}):
        raise Skip('retry_func: loop guard is not a comparison of attempt and attempts')
    guard = f'decide ({t.left.id} {CMP[type(t.ops[0])]} {t.comparators[0].id})'
    if w.orelse or len(w.body) != 1 or not isinstance(w.body[0], ast.Try):
        raise Skip('retry_func: loop body is not a single try statement')
    tr = w.body[0]
    if tr.finalbody or tr.orelse or len(tr.handlers) != 1:
        raise Skip('retry_func: try has finally/else or several handlers')
    if not (len(tr.body) == 1 and isinstance(tr.body[0], ast.Return) and is_call_func_args_kwargs(tr.body[0].value)):
        raise Skip('retry_func: try body is not `return func(*args, **kwargs)`')
    h = tr.handlers[0]
    handler_is_param = isinstance(h.type, ast.Name) and h.type.id == 'exceptions'
    inc = None
    for s in h.body:
        if isinstance(s, ast.AugAssign) and isinstance(s.target, ast.Name) and s.target.id == 'attempt' \
                and isinstance(s.op, ast.Add) and isinstance(s.value, ast.Constant) and isinstance(s.value.value, int):
            inc = s.value.value
        if isinstance(s, (ast.Return, ast.Raise, ast.Break, ast.Continue)):
            raise Skip('retry_func: handler leaves the loop iteration explicitly')
    if inc is None:
        raise Skip('retry_func: handler has no `attempt += <int>`')
    sleep_in_handler = contains_sleep(h.body)
    # does the handler read an attribute of the retried callable (e.g. `func.__name__` in the log message)?  A callable without
    # that attribute (functools.partial, an instance with __call__) then makes the handler itself raise AttributeError
    needs_name = any(isinstance(x, ast.Attribute) and isinstance(x.value, ast.Name) and x.value.id == 'func'
                     for st in h.body for x in ast.walk(st))
    # does the handler look at the exception object (`except exceptions as e: … {e} …`, str / repr / format / attribute access,
    # traceback.format_exc, sys.exc_info)?  An exception whose __str__ / __repr__ raises then makes the handler itself raise
    reads_exc = (h.name is not None and any(isinstance(x, ast.Name) and x.id == h.name for st in h.body for x in ast.walk(st))) \
        or any(isinstance(x, ast.Call) and (ast.unparse(x.func).startswith('traceback.') or ast.unparse(x.func) in ('sys.exc_info', 'exc_info', 'format_exc'))
               for st in h.body for x in ast.walk(st)) \
        or any(isinstance(x, ast.keyword) and x.arg == 'exc_info' for st in h.body for x in ast.walk(st)) \
        or any(isinstance(x, ast.Call) and isinstance(x.func, ast.Attribute) and x.func.attr == 'exception' for st in h.body for x in ast.walk(st))
    # retry_func works on its own locals only: no global / nonlocal, no store into an attribute or an item
    only_locals = not any(isinstance(x, (ast.Global, ast.Nonlocal)) for x in ast.walk(fn)) and not any(
        isinstance(t, (ast.Attribute, ast.Subscript)) for x in ast.walk(fn) if isinstance(x, (ast.Assign, ast.AugAssign, ast.AnnAssign))
        for t in (x.targets if isinstance(x, ast.Assign) else [x.target]))
    # the decorator `retry`: retry -> decorator -> wrapper, the wrapper is `return retry_func(func, *args, <the four options>, **kwargs)`
    # and nothing else happens on any level (no object shared between calls of one decorated function or between decorated functions)
    rt = find_func(tree, 'retry')
    rb = [x for x in rt.body if not (isinstance(x, ast.Expr) and isinstance(x.value, ast.Constant))]
    wrapper_forwards = keeps_no_state = False
    if len(rb) == 2 and isinstance(rb[0], ast.FunctionDef) and isinstance(rb[1], ast.Return) and isinstance(rb[1].value, ast.Name) \
            and rb[1].value.id == rb[0].name:
        deco = rb[0]
        db = [x for x in deco.body if not (isinstance(x, ast.Expr) and isinstance(x.value, ast.Constant))]
        if len(db) == 2 and isinstance(db[0], ast.FunctionDef) and isinstance(db[1], ast.Return) and isinstance(db[1].value, ast.Name) \
                and db[1].value.id == db[0].name and len(deco.args.args) == 1:
            keeps_no_state = True
            wr = db[0]
            fparam = deco.args.args[0].arg
            wb = [x for x in wr.body if not (isinstance(x, ast.Expr) and isinstance(x.value, ast.Constant))]
            if len(wb) == 1 and isinstance(wb[0], ast.Return) and isinstance(wb[0].value, ast.Call):
                c = wb[0].value
                kws = {k.arg: k.value for k in c.keywords}
                wrapper_forwards = (
                    isinstance(c.func, ast.Name) and c.func.id == 'retry_func'
                    and len(c.args) == 2 and isinstance(c.args[0], ast.Name) and c.args[0].id == fparam
                    and isinstance(c.args[1], ast.Starred) and isinstance(c.args[1].value, ast.Name)
                    and wr.args.vararg is not None and c.args[1].value.id == wr.args.vararg.arg
                    and wr.args.kwarg is not None and None in kws and isinstance(kws[None], ast.Name) and kws[None].id == wr.args.kwarg.arg
                    and not wr.args.args and not wr.args.kwonlyargs
                    and all(isinstance(kws.get(n), ast.Name) and kws[n].id == n for n in ('attempts', 'exceptions', 'sleep_time', 'logger'))
                    and set(kws) == {None, 'attempts', 'exceptions', 'sleep_time', 'logger'})
    # the sleep duration is the caller's `sleep_time`
    sleeps = [x for st in h.body for x in ast.walk(st) if isinstance(x, ast.Call) and ast.unparse(x.func) in ('time.sleep', 'sleep')]
    sleep_arg_ok = all(len(x.args) == 1 and ast.unparse(x.args[0]) == 'sleep_time.total_seconds()' for x in sleeps)
    others = body[:widx] + body[widx + 1:]
    sleep_elsewhere = contains_sleep(others) or contains_sleep(tr.body)
    after = body[widx + 1:]
    final_call = len(after) == 1 and isinstance(after[0], ast.Return) and is_call_func_args_kwargs(after[0].value)
    if after and not final_call:
        raise Skip('retry_func: statements after the loop are not `return func(*args, **kwargs)`')
    forwards = True  # both call sites matched is_call_func_args_kwargs above
    return HEADER.format(rel=rel) + f'''namespace PedVerif.Gen.Retry

/-- `attempt = <init>` before the loop -/
def initAttempt : Int := {init}
/-- the `while <guard>:` test, translated -/
def loopGuard (attempt attempts : Int) : Bool := {guard}
/-- `attempt += <inc>` in the handler -/
def inc : Int := {inc}
/-- the handler of the `try` names exactly the caller-supplied `exceptions` -/
def handlerIsExceptionsParam : Bool := {lean_bool(handler_is_param)}
/-- `time.sleep(...)` occurs in the handler (after a failed attempt) -/
def sleepInHandler : Bool := {lean_bool(sleep_in_handler)}
/-- the handler reads an attribute of `func` (a callable object without it makes the handler raise) -/
def handlerNeedsName : Bool := {lean_bool(needs_name)}
/-- the handler looks at the exception object it caught (formats it, reads an attribute, asks for the traceback): an exception whose
    `__str__` / `__repr__` raises makes the handler itself raise -/
def handlerReadsException : Bool := {lean_bool(reads_exc)}
/-- `retry_func` works on its own locals only (no global / nonlocal, no store into an attribute or item) -/
def retryFuncOnlyLocals : Bool := {lean_bool(only_locals)}
/-- `retry(...)(func)` is `wrapper(*args, **kwargs) = retry_func(func, *args, attempts=…, exceptions=…, sleep_time=…, logger=…, **kwargs)` -/
def decoratorWrapperForwards : Bool := {lean_bool(wrapper_forwards)}
/-- `retry` and its inner `decorator` consist of the nested definition and its return only: nothing is created per decorator or per
    decorated function that the calls could share -/
def decoratorKeepsNoState : Bool := {lean_bool(keeps_no_state)}
/-- every sleep waits `sleep_time.total_seconds()` -/
def sleepArgIsSleepTime : Bool := {lean_bool(sleep_arg_ok)}
/-- `time.sleep(...)` occurs anywhere else in the function -/
def sleepElsewhere : Bool := {lean_bool(sleep_elsewhere)}
/-- the statement after the loop is `return func(*args, **kwargs)` -/
def finalCall : Bool := {lean_bool(final_call)}
/-- every invocation is spelled `func(*args, **kwargs)` -/
def forwardsArgsUnchanged : Bool := {lean_bool(forwards)}

end PedVerif.Gen.Retry
'''



FILES = {'Retry.lean': gen_retry}
