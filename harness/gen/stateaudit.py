"""State-inventory translator: every place in the library where state can survive a call.

The models in lean/PedVerif/Model/*.lean are pure functions of their arguments (plus the state they carry explicitly:
per-instance TypeVar bindings, the count_calls counter, the ENABLE_PEDANTIC switch, ...).  "The verdict does not depend on
what was checked before" is therefore a theorem of the model for free - and a fact of the implementation only while the
library keeps no *other* state between calls.  This generator walks, with `ast` only, every non-test module below
`pedantic/` and prints the canonical, sorted inventory of **state sites** as Lean data
(`PedVerif.Gen.StateAudit.sites : List Site`, `Site = ⟨module, scope, kind, name⟩`); `Props/StateAudit*.lean` prove that it
is exactly the hand-justified list `Spec.StateInventory.expected`.  A memo dict, an `lru_cache`, a "validated once" flag,
a helper object shared by all calls of one decorated function ... adds a site and breaks the proof obligation of every
property whose model covers the touched module (harness/props/_stateaudit_modules.json).

Kinds (closed enumeration; complete rather than clever - whatever the unchanged tree trips is listed and justified by hand):

moduleMutable       module-level name bound (anywhere at import time: also inside if / for / try at module level) to a
                    mutable value: dict / list / set display or comprehension, generator expression, a call of a mutable
                    constructor, or a call of anything that is not a known constructor of immutable values; import-time
                    stores through names that are not such module-level containers (`os.environ[...] = `, `Cls.attr = `) are
                    reported as attrStoreOnForeign with scope `<module>`
cacheDecorator      functools.lru_cache / cache / cached_property / singledispatch / singledispatchmethod (bare, dotted or
                    aliased), any decorator whose name contains `cache` or `memo`, and every other *reference* to those names
                    (`lru_cache(maxsize=None)(f)`, `memo = functools.lru_cache`)
globalStmt          `global x` (one site per name), with the function it sits in
nonlocalStmt        `nonlocal x`
classMutable        class-body binding of a mutable value, or of any other value that some function of the module rebinds
                    through `cls.x` / `type(self).x` / `self.__class__.x` / `ClassName.x`
mutableDefault      parameter default that is a mutable value (as for moduleMutable: also unknown calls - a default is
                    evaluated once)
attrStoreOnForeign  attribute / item store, augmented assignment, `del`, `setattr` / `delattr` / `object.__setattr__`,
                    `__dict__` write or mutating method call (`append`, `add`, `update`, `setdefault`, `pop`, ...) whose target is
                    rooted in something that is NOT a fresh local of the same function and not `self` inside `__init__`:
                    a parameter, `self` elsewhere, `cls`, an alias of one of those, a loop variable, a module-level object
closureState        the same stores when the root is a variable of an *enclosing function* (the state lives in the closure of
                    the returned wrapper), augmented assignment / rebinding of a `nonlocal`, and every enclosing-function local
                    that holds a call result / mutable display and is read by a nested function (`captured`: an object made
                    once per decoration and shared by all calls of the wrapper)
idOrReprKey         `id(...)`, `hash(...)`, `repr(...)`, `.__code__`, `.__qualname__`, `.__name__`, `.__module__` used as subscript
                    index, dict-display key, set member, operand of `in`, argument of get / setdefault / pop / add / discard /
                    remove / __contains__ or of a cache-decorated function - directly, inside a tuple / f-string / str(), or
                    through one local name (`key = repr(x)` ... `memo[key]`)

Canonical naming (independent of line numbers, formatting, and of the names of parameters and plain locals): the root of a
store target is printed by role - `self`, `cls`, `<argN>` (N-th parameter), `<local>` (non-fresh local: alias, loop variable),
`<call>` (the target hangs off a call result, `type(self).x`), a module-level / builtin name as written, a variable of an
enclosing function as `<outer>.name`; attribute names are kept, subscripts are `[]`.
"""
import ast, os
from extract import Skip, lean_str, HEADER

MUTABLE_CTORS = {
    'dict', 'list', 'set', 'bytearray', 'defaultdict', 'OrderedDict', 'deque', 'Counter', 'ChainMap', 'UserDict', 'UserList',
    'WeakSet', 'WeakKeyDictionary', 'WeakValueDictionary', 'WeakMethod', 'ContextVar', 'local', 'count', 'cycle', 'iter',
    'Lock', 'RLock', 'Semaphore', 'BoundedSemaphore', 'Event', 'Condition', 'Queue', 'LifoQueue', 'PriorityQueue', 'SimpleQueue',
    'SimpleNamespace', 'Namespace', 'array', 'memoryview', 'StringIO', 'BytesIO', 'Random', 'ThreadPoolExecutor',
    'ProcessPoolExecutor', 'Manager', 'Value', 'Array', 'finalize', 'LRUCache', 'TTLCache', 'Cache',
}
# calls whose result is immutable (or a stateless handle): a module-level / default binding of these is not state
IMMUTABLE_CALLS = {
    'TypeVar', 'ParamSpec', 'TypeVarTuple', 'NewType', 'namedtuple', 'NamedTuple', 'frozenset', 'tuple', 'str', 'int', 'float',
    'complex', 'bool', 'bytes', 'range', 'slice', 'type', 'object', 'getLogger', 'timedelta', 'date', 'time', 'timezone', 'Decimal', 'Fraction',
    'MappingProxyType', 'Path', 'PurePath', 'UUID', 'len', 'min', 'max', 'abs', 'sum', 'ord', 'chr', 'format', 'join', 'sorted_tuple',
    'compile',   # only `re.compile` / `compile` imported from re: see _immutable_call
    'Literal', 'Union', 'Optional', 'cast', 'itemgetter', 'attrgetter', 'methodcaller', 'partial', 'lower', 'upper', 'strip',
    'encode', 'decode',
}
CACHE_NAMES = {'lru_cache', 'cache', 'cached_property', 'singledispatch', 'singledispatchmethod', 'cached', 'cachedmethod',
               'memoize', 'memoized', 'memo'}
MUTATORS = {
    'append', 'extend', 'insert', 'add', 'update', 'setdefault', 'pop', 'popitem', 'clear', 'remove', 'discard', 'appendleft',
    'extendleft', 'popleft', 'sort', 'reverse', 'rotate', 'set', 'reset', 'put', 'put_nowait', 'subtract', 'move_to_end',
    'intersection_update', 'difference_update', 'symmetric_difference_update', '__setitem__', '__delitem__', '__setattr__',
    '__delattr__', '__ior__', '__iadd__', 'cache_clear', 'register',
}
KEY_METHODS = {'get', 'setdefault', 'pop', 'add', 'discard', 'remove', '__contains__', '__getitem__', '__setitem__', '__delitem__'}
KEY_ATTRS = {'__code__', '__qualname__', '__name__', '__module__'}
KEY_CALLS = {'id', 'hash', 'repr'}
# calls that hand out an object that already exists (never a fresh one)
FRESH_CALLS = {'copy', 'deepcopy', 'replace', 'sorted', 'reversed', 'tuple', 'frozenset', 'str', 'int', 'float', 'bool', 'bytes', 'repr',
               'format', 'join', 'split', 'items', 'keys', 'values', 'zip', 'enumerate', 'map', 'filter', 'range', 'signature',
               'getfullargspec', 'fields', 'asdict', 'astuple', 'timedelta', 'namedtuple', 'compile', 'parse'}
NONFRESH_CALLS = {'getattr', 'vars', 'globals', 'locals', 'next', 'setdefault', 'get', 'pop', '__getitem__', 'cast', 'unwrap',
                  'currentframe', 'getmodule', 'import_module', '__import__'}
KINDS = ['moduleMutable', 'cacheDecorator', 'globalStmt', 'nonlocalStmt', 'classMutable', 'mutableDefault', 'attrStoreOnForeign',
         'closureState', 'idOrReprKey']
FUNC = (ast.FunctionDef, ast.AsyncFunctionDef)


def module_files(repo):
    out = []
    base = os.path.join(repo, 'pedantic')
    if not os.path.isdir(base):
        raise Skip('no pedantic/ package')
    for dp, dn, fn in os.walk(base):
        dn[:] = sorted(d for d in dn if d not in ('tests', 'examples', '__pycache__'))
        for f in sorted(fn):
            if f.endswith('.py'):
                out.append(os.path.relpath(os.path.join(dp, f), repo).replace(os.sep, '/'))
    return sorted(out)


def dotted(e):
    """`a.b.c` -> ['a','b','c'] or None"""
    parts = []
    while isinstance(e, ast.Attribute):
        parts.append(e.attr)
        e = e.value
    if isinstance(e, ast.Name):
        parts.append(e.id)
        return parts[::-1]
    return None


class Module:
    def __init__(self, rel, tree):
        self.rel = rel
        self.tree = tree
        self.alias = {}          # local name -> dotted origin ('functools.lru_cache', 'typing.TypeVar', 'functools')
        self.sites = []          # (scope, kind, name)
        self.imports = set()     # pedantic-internal modules imported (dotted)
        self.module_mutables = set()
        self.cached_funcs = set()
        for n in ast.walk(tree):
            if isinstance(n, ast.Import):
                for a in n.names:
                    self.alias[a.asname or a.name.split('.')[0]] = a.name if a.asname else a.name.split('.')[0]
                    self._imp(a.name)
            elif isinstance(n, ast.ImportFrom):
                mod = ('.' * n.level) + (n.module or '')
                for a in n.names:
                    self.alias[a.asname or a.name] = f'{mod}.{a.name}'
                self._imp(mod, [a.name for a in n.names])
        # module-level plain aliases `TypeVar = Tv`
        for s in tree.body:
            if isinstance(s, ast.Assign) and len(s.targets) == 1 and isinstance(s.targets[0], ast.Name) and isinstance(s.value, ast.Name) \
                    and s.value.id in self.alias:
                self.alias[s.targets[0].id] = self.alias[s.value.id]

    def _imp(self, mod, names=()):
        if mod.startswith('.'):
            pkg = self.rel[:-3].split('/')[:-1]
            level = len(mod) - len(mod.lstrip('.'))
            pkg = pkg[:len(pkg) - (level - 1)] if level > 1 else pkg
            mod = '.'.join(pkg + ([mod.lstrip('.')] if mod.lstrip('.') else []))
        if mod == 'pedantic' or mod.startswith('pedantic.'):
            self.imports.add(mod)
            for n in names:
                self.imports.add(f'{mod}.{n}')      # may be a submodule; filtered against the module list later

    def resolve(self, e):
        d = dotted(e)
        if d is None:
            return None
        head = self.alias.get(d[0], d[0])
        return '.'.join([head] + d[1:])

    def last(self, e):
        r = self.resolve(e)
        return r.split('.')[-1] if r else None

    def add(self, scope, kind, name):
        assert kind in KINDS
        self.sites.append((scope, kind, name))

    # ------------------------------------------------------------ values
    def immutable_call(self, c):
        r = self.resolve(c.func) or ''
        last = r.split('.')[-1]
        if last == 'compile':
            return r in ('re.compile', 'regex.compile')
        return last in IMMUTABLE_CALLS

    def is_mutable(self, e, unknown_calls=True):
        """is the value of expression `e` (evaluated once) a mutable object / an object of unknown mutability"""
        if e is None:
            return False
        if isinstance(e, (ast.Dict, ast.List, ast.Set, ast.DictComp, ast.ListComp, ast.SetComp, ast.GeneratorExp)):
            return True
        if isinstance(e, ast.Call):
            last = self.last(e.func)
            if last in MUTABLE_CTORS:
                return True
            if self.immutable_call(e):
                return False
            if last in CACHE_NAMES:
                return True
            return unknown_calls
        if isinstance(e, ast.Tuple):
            return any(self.is_mutable(x, unknown_calls) for x in e.elts)
        if isinstance(e, ast.Starred):
            return self.is_mutable(e.value, unknown_calls)
        if isinstance(e, ast.BinOp):
            return self.is_mutable(e.left, unknown_calls) or self.is_mutable(e.right, unknown_calls)
        if isinstance(e, ast.BoolOp):
            return any(self.is_mutable(x, unknown_calls) for x in e.values)
        if isinstance(e, ast.IfExp):
            return self.is_mutable(e.body, unknown_calls) or self.is_mutable(e.orelse, unknown_calls)
        if isinstance(e, ast.NamedExpr):
            return self.is_mutable(e.value, unknown_calls)
        if isinstance(e, ast.Name):
            return e.id in self.module_mutables
        if isinstance(e, ast.Await):
            return True
        return False      # constants, names, attributes, subscripts (typing aliases), lambdas, f-strings, comparisons


def fn_params(fn):
    a = fn.args
    names = [x.arg for x in a.posonlyargs + a.args]
    if a.vararg:
        names.append(a.vararg.arg)
    names += [x.arg for x in a.kwonlyargs]
    if a.kwarg:
        names.append(a.kwarg.arg)
    return names


def own_nodes(node):
    """all AST nodes of a function / class / module body that belong to this scope: does not descend into nested
    function or class definitions (their decorators, defaults and bases DO belong to this scope); lambdas and
    comprehensions are read as part of the scope"""
    stack = list(ast.iter_child_nodes(node)) if not isinstance(node, list) else list(node)
    while stack:
        n = stack.pop()
        yield n
        if isinstance(n, FUNC):
            stack.extend(n.decorator_list)
            stack.extend(n.args.defaults)
            stack.extend(x for x in n.args.kw_defaults if x is not None)
            continue
        if isinstance(n, ast.ClassDef):
            stack.extend(n.decorator_list)
            stack.extend(n.bases)
            stack.extend(k.value for k in n.keywords)
            continue
        stack.extend(ast.iter_child_nodes(n))


def target_names(t):
    """plain names bound by an assignment / for / with target"""
    if isinstance(t, ast.Name):
        return [t.id]
    if isinstance(t, (ast.Tuple, ast.List)):
        return [n for x in t.elts for n in target_names(x)]
    if isinstance(t, ast.Starred):
        return target_names(t.value)
    return []


class Scope:
    """a function scope: what its names are bound to"""

    def __init__(self, mod, fn, parent, qual, in_class):
        self.mod, self.fn, self.parent, self.qual, self.in_class = mod, fn, parent, qual, in_class
        self.params = fn_params(fn) if fn is not None else []
        self.vararg = fn.args.vararg.arg if fn is not None and fn.args.vararg else None
        self.kwarg = fn.args.kwarg.arg if fn is not None and fn.args.kwarg else None
        self.bind = {}          # local name -> list of ('value', expr) | ('def',) | ('class',) | ('iter', expr) | ('with', expr) | ('other',)
        self.globals, self.nonlocals = set(), set()
        deco = {mod.last(d.func if isinstance(d, ast.Call) else d) for d in (fn.decorator_list if fn is not None else [])}
        self.is_static = 'staticmethod' in deco
        self.is_classmethod = 'classmethod' in deco or (fn is not None and fn.name in ('__init_subclass__', '__class_getitem__', '__new__'))
        body = fn.body if fn is not None else mod.tree.body
        for n in own_nodes(body):
            if isinstance(n, ast.Global):
                self.globals.update(n.names)
            elif isinstance(n, ast.Nonlocal):
                self.nonlocals.update(n.names)
        for n in own_nodes(body):
            if isinstance(n, ast.Assign):
                for t in n.targets:
                    self._bind_target(t, n.value)
            elif isinstance(n, ast.AnnAssign) and n.value is not None:
                self._bind_target(n.target, n.value)
            elif isinstance(n, ast.AugAssign):
                for x in target_names(n.target):
                    self.bind.setdefault(x, []).append(('other',))
            elif isinstance(n, (ast.For, ast.AsyncFor)):
                for x in target_names(n.target):
                    self.bind.setdefault(x, []).append(('iter', n.iter))
            elif isinstance(n, ast.comprehension):
                for x in target_names(n.target):
                    self.bind.setdefault(x, []).append(('iter', n.iter))
            elif isinstance(n, (ast.With, ast.AsyncWith)):
                for it in n.items:
                    if it.optional_vars is not None:
                        for x in target_names(it.optional_vars):
                            self.bind.setdefault(x, []).append(('with', it.context_expr))
            elif isinstance(n, ast.NamedExpr):
                self.bind.setdefault(n.target.id, []).append(('value', n.value))
            elif isinstance(n, FUNC):
                self.bind.setdefault(n.name, []).append(('def',))
            elif isinstance(n, ast.ClassDef):
                self.bind.setdefault(n.name, []).append(('class',))
            elif isinstance(n, ast.ExceptHandler) and n.name:
                self.bind.setdefault(n.name, []).append(('other',))
            elif isinstance(n, (ast.Import, ast.ImportFrom)):
                for a in n.names:
                    self.bind.setdefault(a.asname or a.name.split('.')[0], []).append(('import',))
            elif isinstance(n, (ast.MatchAs, ast.MatchStar)) and n.name:
                self.bind.setdefault(n.name, []).append(('other',))
        for x in self.globals | self.nonlocals:
            self.bind.pop(x, None)

    def _bind_target(self, t, value):
        if isinstance(t, ast.Name):
            self.bind.setdefault(t.id, []).append(('value', value))
        else:
            for x in target_names(t):
                self.bind.setdefault(x, []).append(('other',))

    # ---- roles
    def is_local(self, name):
        return self.fn is not None and (name in self.bind or name in self.params)

    def owner(self, name):
        """the scope that binds `name` as seen from here: self, an enclosing function scope, or None (module / builtin)"""
        s = self
        while s is not None and s.fn is not None:
            if name in s.bind or name in s.params:
                return s
            s = s.parent
        return None

    def self_name(self):
        if self.fn is not None and self.in_class and not self.is_static and self.params and not self.is_classmethod:
            return self.params[0]
        return None

    def cls_name(self):
        if self.fn is not None and self.in_class and self.is_classmethod and self.params:
            return self.params[0]
        return None

    def fresh_value(self, e, depth=0):
        """does evaluating `e` yield an object created here and now (so that a store onto it is not state that was there before)"""
        m = self.mod
        if isinstance(e, (ast.Dict, ast.List, ast.Set, ast.DictComp, ast.ListComp, ast.SetComp, ast.GeneratorExp, ast.Tuple,
                          ast.Constant, ast.JoinedStr, ast.Lambda, ast.BinOp, ast.Compare, ast.UnaryOp)):
            return True
        if isinstance(e, ast.Call):
            # a call result is fresh only when the callee is, by name, a constructor: a builtin / collections container, a
            # copy function, or a Capitalised class name (FunctionCall(...), Process(...), asyncio.Event()).  Everything else
            # (`dataclass(**args)(cls_)`, `getattr(...)`, `self._helper()`, `registry.setdefault(...)`) may hand out an object
            # that existed before, so a store onto it is reported.
            f = e.func
            last = f.attr if isinstance(f, ast.Attribute) else (f.id if isinstance(f, ast.Name) else None)
            if last is None or last in NONFRESH_CALLS:
                return False
            return last in MUTABLE_CTORS or last in FRESH_CALLS or (last[:1].isupper() and not last.isupper())
        if isinstance(e, ast.IfExp):
            return self.fresh_value(e.body, depth) and self.fresh_value(e.orelse, depth)
        if isinstance(e, ast.NamedExpr):
            return self.fresh_value(e.value, depth)
        if isinstance(e, ast.Await):
            return isinstance(e.value, ast.Call) and self.fresh_value(e.value, depth)
        if isinstance(e, ast.Name) and depth < 4 and self.owner(e.id) is self and e.id not in self.params:
            return self.fresh_local(e.id, depth + 1)
        return False

    def fresh_local(self, name, depth=0):
        b = self.bind.get(name)
        if not b or name in self.params:
            return False
        for x in b:
            if x[0] in ('def', 'class'):
                continue
            if x[0] == 'value' and depth < 4 and self.fresh_value(x[1], depth + 1):
                continue
            return False
        return True


def qualify(parent_qual, name):
    return name if parent_qual in ('', '<module>') else f'{parent_qual}.{name}'


class Auditor:
    def __init__(self, mod):
        self.m = mod

    # ------------------------------------------------------------ naming
    def canon(self, e, sc):
        """canonical text of a store target / receiver: root by role, attributes kept, subscripts `[]`"""
        if isinstance(e, ast.Name):
            return self.role(e.id, sc)[1]
        if isinstance(e, ast.Attribute):
            return f'{self.canon(e.value, sc)}.{e.attr}'
        if isinstance(e, ast.Subscript):
            return f'{self.canon(e.value, sc)}[]'
        if isinstance(e, ast.Call):
            f = self.m.last(e.func)
            if f == 'type' and len(e.args) == 1:
                return f'type({self.canon(e.args[0], sc)})'
            if f in ('vars', 'getattr') and e.args:
                return f'{f}({self.canon(e.args[0], sc)})'
            return '<call>'
        if isinstance(e, ast.Starred):
            return self.canon(e.value, sc)
        return '<expr>'

    def role(self, name, sc):
        """(class, text): class in self / cls / arg / fresh / local / outer / global"""
        own = sc.owner(name)
        if own is None:
            return ('global', self.m.resolve(ast.Name(id=name)) or name)
        if own is not sc:
            return ('outer', f'<outer>.{name}')
        if name == sc.self_name():
            return ('self', 'self')
        if name == sc.cls_name():
            return ('cls', 'cls')
        if name in sc.params:
            if name in (sc.vararg, sc.kwarg):
                return ('varargs', f'<arg{sc.params.index(name)}>')
            return ('arg', f'<arg{sc.params.index(name)}>')
        if sc.fresh_local(name):
            return ('fresh', '<fresh>')
        return ('local', '<local>')

    def root_of(self, e):
        depth = 0
        while isinstance(e, (ast.Attribute, ast.Subscript, ast.Starred)):
            e = e.value
            depth += 1
        return e, depth

    def key_text(self, e, sc):
        """canonical text of the name argument of setattr & co"""
        if isinstance(e, ast.Constant):
            return repr(e.value)
        if isinstance(e, ast.Name):
            r = self.role(e.id, sc)
            return r[1] if r[0] != 'global' else e.id
        return '<expr>'

    # ------------------------------------------------------------ stores
    def store(self, target, sc, how=''):
        """classify a store whose target expression (Attribute / Subscript, or the receiver of a mutating call) is `target`"""
        root, depth = self.root_of(target)
        text = self.canon(target, sc) + how
        scope = sc.qual
        if isinstance(root, ast.Name):
            cls, _ = self.role(root.id, sc)
            if cls == 'fresh':
                return
            if cls == 'varargs' and depth <= 1 and isinstance(target, (ast.Subscript, ast.Name)):
                return                                   # kwargs[k] = v, kwargs.update(...): the interpreter's fresh dict of this call
            if cls == 'self' and sc.fn.name == '__init__':
                return
            if cls == 'outer':
                self.m.add(scope, 'closureState', text)
                return
            if cls == 'global' and sc.fn is None and root.id in self.m.module_mutables:
                return                                   # import-time filling of a module-level container that is listed itself
            self.m.add(scope, 'attrStoreOnForeign', text)
            return
        if isinstance(root, ast.Call) and sc.fresh_value(root) and self.m.last(root.func) not in ('type', 'vars', 'getattr', 'globals', 'locals'):
            return
        self.m.add(scope, 'attrStoreOnForeign', text)

    def walk_scope(self, body, sc):
        m = self.m
        for n in own_nodes(body):
            # ---- global / nonlocal
            if isinstance(n, ast.Global):
                for x in n.names:
                    m.add(sc.qual, 'globalStmt', x)
            elif isinstance(n, ast.Nonlocal):
                for x in n.names:
                    m.add(sc.qual, 'nonlocalStmt', x)
            # ---- stores
            if isinstance(n, (ast.Assign, ast.AnnAssign, ast.AugAssign, ast.Delete, ast.For, ast.AsyncFor)):
                if isinstance(n, ast.Assign):
                    ts = n.targets
                elif isinstance(n, ast.Delete):
                    ts = n.targets
                elif isinstance(n, ast.AnnAssign):
                    ts = [n.target] if n.value is not None else []
                else:
                    ts = [n.target]
                flat = []
                for t in ts:
                    flat += [t] if not isinstance(t, (ast.Tuple, ast.List)) else [x.value if isinstance(x, ast.Starred) else x for x in ast.walk(t) if isinstance(x, (ast.Attribute, ast.Subscript, ast.Name)) and isinstance(getattr(x, 'ctx', None), (ast.Store, ast.Del))]
                for t in flat:
                    if isinstance(t, (ast.Attribute, ast.Subscript)):
                        self.store(t, sc, ' (del)' if isinstance(n, ast.Delete) else '')
                    elif isinstance(t, ast.Name) and sc.fn is not None:
                        own = sc.owner(t.id)
                        if t.id in sc.nonlocals:
                            m.add(sc.qual, 'closureState', f'<outer>.{t.id} (rebound)')
                        elif t.id in sc.globals:
                            m.add(sc.qual, 'attrStoreOnForeign', f'{t.id} (global rebound)')
            elif isinstance(n, (ast.With, ast.AsyncWith)):
                for it in n.items:
                    if isinstance(it.optional_vars, (ast.Attribute, ast.Subscript)):
                        self.store(it.optional_vars, sc)
            elif isinstance(n, ast.NamedExpr) and sc.fn is not None and n.target.id in sc.nonlocals:
                m.add(sc.qual, 'closureState', f'<outer>.{n.target.id} (rebound)')
            elif isinstance(n, ast.Call):
                f = n.func
                last = m.last(f)
                if isinstance(f, ast.Name) and f.id in ('setattr', 'delattr') and len(n.args) >= 2 and sc.owner(f.id) is None:
                    self.store(ast.Attribute(value=n.args[0], attr='{' + self.key_text(n.args[1], sc) + '}'), sc,
                               ' (setattr)' if f.id == 'setattr' else ' (delattr)')
                elif isinstance(f, ast.Attribute) and f.attr in ('__setattr__', '__delattr__', '__setitem__', '__delitem__') \
                        and isinstance(f.value, ast.Name) and sc.owner(f.value.id) is None and f.value.id in ('object', 'type', 'dict', 'list', 'super') and n.args:
                    # object.__setattr__(obj, name, v)
                    key = self.key_text(n.args[1], sc) if len(n.args) > 1 else '?'
                    self.store(ast.Attribute(value=n.args[0], attr='{' + key + '}'), sc, f' ({f.value.id}.{f.attr})')
                elif isinstance(f, ast.Attribute) and f.attr in MUTATORS:
                    recv = f.value
                    if isinstance(recv, ast.Call) and isinstance(recv.func, ast.Name) and recv.func.id == 'super':
                        continue
                    if isinstance(recv, (ast.Constant, ast.JoinedStr)):
                        continue
                    self.store(recv, sc, f'.{f.attr}()')
        # ---- closure capture: handled by the caller (needs the nested scopes)

    # ------------------------------------------------------------ key uses
    def key_uses(self, body, sc):
        m = self.m
        parents = {}
        nodes = list(own_nodes(body))
        for n in nodes:
            for c in ast.iter_child_nodes(n):
                parents[id(c)] = n
        # names of this scope that carry an identity-like key
        carriers = {}      # local name -> canonical text of the key expression

        def keyish(e):
            if isinstance(e, ast.Call) and isinstance(e.func, ast.Name) and e.func.id in KEY_CALLS and sc.owner(e.func.id) is None \
                    and e.func.id not in m.alias:
                arg = self.canon(e.args[0], sc) if e.args else ''
                return f'{e.func.id}({arg})'
            if isinstance(e, ast.Attribute) and e.attr in KEY_ATTRS and isinstance(e.ctx, ast.Load):
                return self.canon(e, sc)
            return None

        def in_key_context(e):
            """climb through tuple / f-string / str() / + / % wrappers; is the value used as a key?"""
            cur = e
            while True:
                p = parents.get(id(cur))
                if p is None:
                    return None
                if isinstance(p, (ast.Tuple, ast.JoinedStr, ast.FormattedValue, ast.BinOp, ast.Starred)):
                    cur = p
                    continue
                if isinstance(p, ast.Call) and isinstance(p.func, ast.Name) and p.func.id in ('str', 'tuple', 'frozenset', 'hash', 'repr', 'id') and cur in p.args:
                    cur = p
                    continue
                if isinstance(p, ast.Call) and isinstance(p.func, ast.Attribute) and p.func.attr in ('format', 'join') and (cur in p.args or cur is p.func.value):
                    cur = p
                    continue
                if isinstance(p, ast.Subscript) and p.slice is cur:
                    return 'index'
                if isinstance(p, ast.Slice):
                    return None
                if isinstance(p, ast.Dict) and cur in p.keys:
                    return 'dict key'
                if isinstance(p, ast.DictComp) and p.key is cur:
                    return 'dict key'
                if isinstance(p, ast.Set) or (isinstance(p, ast.SetComp) and p.elt is cur):
                    return 'set member'
                if isinstance(p, ast.Compare) and any(isinstance(o, (ast.In, ast.NotIn)) for o in p.ops) and p.left is cur:
                    return 'in'
                if isinstance(p, ast.Call) and isinstance(p.func, ast.Attribute) and p.func.attr in KEY_METHODS and cur in p.args[:1]:
                    return p.func.attr + '()'
                if isinstance(p, ast.Call) and (cur in p.args or any(k.value is cur for k in p.keywords)):
                    fn = m.last(p.func)
                    if fn in m.cached_funcs or fn in CACHE_NAMES:
                        return f'cache argument of {fn}'
                    return None
                if isinstance(p, (ast.Assign, ast.AnnAssign, ast.NamedExpr)) and getattr(p, 'value', None) is cur:
                    ts = p.targets if isinstance(p, ast.Assign) else [p.target]
                    names = [x for t in ts for x in target_names(t)]
                    return ('carrier', names)
                return None

        for n in nodes:
            k = keyish(n)
            if k is None:
                continue
            ctx = in_key_context(n)
            if ctx is None:
                continue
            if isinstance(ctx, tuple):
                for x in ctx[1]:
                    carriers.setdefault(x, []).append(k)
            else:
                m.add(sc.qual, 'idOrReprKey', f'{k} as {ctx}')
        if carriers:
            for n in nodes:
                if isinstance(n, ast.Name) and isinstance(n.ctx, ast.Load) and n.id in carriers:
                    ctx = in_key_context(n)
                    if ctx is not None and not isinstance(ctx, tuple):
                        for k in carriers[n.id]:
                            m.add(sc.qual, 'idOrReprKey', f'{k} as {ctx} (through a local)')

    # ------------------------------------------------------------ the walk
    def run(self):
        m = self.m
        top = Scope(m, None, None, '<module>', False)
        # pass 0: module-level mutable names (needed by is_mutable(Name) and by the import-time fill rule)
        for _ in range(2):
            for n in own_nodes(m.tree.body):
                if isinstance(n, (ast.Assign, ast.AnnAssign)) and getattr(n, 'value', None) is not None:
                    ts = n.targets if isinstance(n, ast.Assign) else [n.target]
                    for t in ts:
                        for x in target_names(t):
                            if m.is_mutable(n.value):
                                m.module_mutables.add(x)
        # cache-decorated functions of this module (for `cache argument`)
        for n in ast.walk(m.tree):
            if isinstance(n, FUNC + (ast.ClassDef,)):
                for d in n.decorator_list:
                    if self.cache_name(d):
                        m.cached_funcs.add(n.name)
        self.visit_body(m.tree.body, top, None)
        self.cache_refs()

    def cache_name(self, d):
        e = d.func if isinstance(d, ast.Call) else d
        r = self.m.resolve(e)
        if r is None:
            return self.cache_name(e) if isinstance(e, ast.Call) else None
        last = r.split('.')[-1]
        if last in CACHE_NAMES or 'cache' in last.lower() or 'memo' in last.lower():
            return r
        return None

    def cache_refs(self):
        """every reference to a cache-making name that is not a decorator position (those are reported with the function)"""
        m = self.m
        deco_nodes = set()
        for n in ast.walk(m.tree):
            if isinstance(n, FUNC + (ast.ClassDef,)):
                for d in n.decorator_list:
                    for x in ast.walk(d):
                        deco_nodes.add(id(x))
        quals = {}
        self._quals(m.tree, '<module>', quals)
        seen_attr_bases = set()
        for n in ast.walk(m.tree):
            if id(n) in deco_nodes:
                continue
            if isinstance(n, ast.Attribute) and isinstance(n.ctx, ast.Load):
                r = m.resolve(n)
                if r and r.split('.')[-1] in CACHE_NAMES and r.split('.')[0] in ('functools', 'cachetools', 'methodtools', 'cachelib', 'django', 'werkzeug'):
                    m.add(quals.get(id(n), '<module>'), 'cacheDecorator', f'ref:{r}')
                    for x in ast.walk(n.value):
                        seen_attr_bases.add(id(x))
            elif isinstance(n, ast.Name) and isinstance(n.ctx, ast.Load) and id(n) not in seen_attr_bases:
                r = m.alias.get(n.id)
                if r and r.split('.')[-1] in CACHE_NAMES and r != n.id:
                    m.add(quals.get(id(n), '<module>'), 'cacheDecorator', f'ref:{r}')

    def _quals(self, node, qual, out):
        for c in ast.iter_child_nodes(node):
            if isinstance(c, FUNC + (ast.ClassDef,)):
                for d in c.decorator_list:
                    for x in ast.walk(d):
                        out[id(x)] = qual
                q = qualify(qual, c.name)
                for part in c.body:
                    out[id(part)] = q
                    self._quals_fill(part, q, out)
            else:
                out[id(c)] = qual
                self._quals(c, qual, out)

    def _quals_fill(self, node, q, out):
        out[id(node)] = q
        if isinstance(node, FUNC + (ast.ClassDef,)):
            self._quals(ast.Module(body=[node], type_ignores=[]), q, out)
            return
        self._quals(node, q, out)

    def visit_body(self, body, sc, cls_qual):
        """`body`: statements of scope `sc` (module, function); class bodies are visited through visit_class"""
        m = self.m
        if sc.fn is None:
            self.module_level(body, sc)
        self.walk_scope(body, sc)
        self.key_uses(body, sc)
        for n in own_nodes(body):
            if isinstance(n, FUNC):
                self.visit_func(n, sc, sc.qual, in_class=False)
            elif isinstance(n, ast.ClassDef):
                self.visit_class(n, sc, sc.qual)

    def module_level(self, body, sc):
        m = self.m
        for n in own_nodes(body):
            if isinstance(n, (ast.Assign, ast.AnnAssign)) and getattr(n, 'value', None) is not None:
                ts = n.targets if isinstance(n, ast.Assign) else [n.target]
                for t in ts:
                    for x in target_names(t):
                        if m.is_mutable(n.value):
                            m.add('<module>', 'moduleMutable', x)
            elif isinstance(n, ast.AugAssign) and isinstance(n.target, ast.Name) and m.is_mutable(n.value):
                m.add('<module>', 'moduleMutable', n.target.id)
            elif isinstance(n, ast.NamedExpr) and m.is_mutable(n.value):
                m.add('<module>', 'moduleMutable', n.target.id)

    def decorators_and_defaults(self, n, sc_outer, qual):
        m = self.m
        for d in n.decorator_list:
            r = self.cache_name(d)
            if r:
                m.add(sc_outer.qual, 'cacheDecorator', f'{n.name}@{r}')
        if isinstance(n, FUNC):
            a = n.args
            pos = a.posonlyargs + a.args
            pairs = list(zip(pos[len(pos) - len(a.defaults):], a.defaults)) + [(p, d) for p, d in zip(a.kwonlyargs, a.kw_defaults) if d is not None]
            names = fn_params(n)
            for p, d in pairs:
                if m.is_mutable(d):
                    m.add(qual, 'mutableDefault', f'<arg{names.index(p.arg)}>')

    def visit_func(self, n, parent_sc, parent_qual, in_class):
        qual = qualify(parent_qual, n.name)
        self.decorators_and_defaults(n, parent_sc, qual)
        sc = Scope(self.m, n, parent_sc if parent_sc.fn is not None else None, qual, in_class)
        self.visit_body(n.body, sc, None)
        # closure capture: locals of `sc` holding a call result / mutable display that nested functions read
        nested = [x for x in own_nodes(n.body) if isinstance(x, FUNC + (ast.Lambda,))]
        if nested:
            for name, binds in sorted(sc.bind.items()):
                if name in sc.params:
                    continue
                made = [b for b in binds if b[0] == 'value' and self.m.is_mutable(b[1])]
                made += [b for b in binds if b[0] == 'with']
                if not made:
                    continue
                for g in nested:
                    if isinstance(g, ast.Lambda):
                        continue        # lambdas are read as part of this scope (they rarely outlive it; stores are impossible in them)
                    if self.reads_free(g, name):
                        self.m.add(qual, 'closureState', f'{name} (captured by {g.name})')

    def reads_free(self, g, name):
        """does function `g` (or a function nested in it) read `name` as a free variable"""
        if name in fn_params(g):
            return False
        local = set()
        for x in own_nodes(g.body):
            if isinstance(x, (ast.Assign, ast.AnnAssign, ast.AugAssign, ast.For, ast.AsyncFor)):
                for t in (x.targets if isinstance(x, ast.Assign) else [x.target]):
                    local.update(target_names(t))
            elif isinstance(x, FUNC + (ast.ClassDef,)):
                local.add(x.name)
        declared = {y for x in own_nodes(g.body) if isinstance(x, ast.Nonlocal) for y in x.names}
        if name in local and name not in declared:
            return False
        for x in own_nodes(g.body):
            if isinstance(x, ast.Name) and x.id == name:
                return True
            if isinstance(x, FUNC) and self.reads_free(x, name):
                return True
        return False

    def visit_class(self, c, parent_sc, parent_qual):
        m = self.m
        qual = qualify(parent_qual, c.name)
        self.decorators_and_defaults(c, parent_sc, qual)
        # names rebound through the class object somewhere in the module
        rebound = set()
        for n in ast.walk(m.tree):
            t = None
            if isinstance(n, (ast.Assign, ast.AugAssign, ast.AnnAssign)):
                for t in (n.targets if isinstance(n, ast.Assign) else [n.target]):
                    if isinstance(t, ast.Attribute) and self.classish(t.value, c.name):
                        rebound.add(t.attr)
            elif isinstance(n, ast.Call) and isinstance(n.func, ast.Name) and n.func.id == 'setattr' and len(n.args) >= 2 \
                    and isinstance(n.args[1], ast.Constant) and self.classish(n.args[0], c.name):
                rebound.add(n.args[1].value)
        for n in own_nodes(c.body):
            if isinstance(n, (ast.Assign, ast.AnnAssign)) and getattr(n, 'value', None) is not None:
                ts = n.targets if isinstance(n, ast.Assign) else [n.target]
                for t in ts:
                    for x in target_names(t):
                        if m.is_mutable(n.value):
                            m.add(qual, 'classMutable', x)
                        elif x in rebound:
                            m.add(qual, 'classMutable', f'{x} (rebound through the class)')
        # class body statements that are not definitions (stores, calls) run once at import: treat like module level
        body_sc = Scope(m, None, None, qual, False)
        body_sc.bind = {}
        self.walk_scope([s for s in c.body if not isinstance(s, FUNC + (ast.ClassDef,))], body_sc)
        self.key_uses([s for s in c.body if not isinstance(s, FUNC + (ast.ClassDef,))], body_sc)
        for n in c.body:
            if isinstance(n, FUNC):
                self.visit_func(n, parent_sc, qual, in_class=True)
            elif isinstance(n, ast.ClassDef):
                self.visit_class(n, parent_sc, qual)
        # definitions nested in compound statements of the class body (rare)
        for n in own_nodes([s for s in c.body if not isinstance(s, FUNC + (ast.ClassDef,))]):
            if isinstance(n, FUNC):
                self.visit_func(n, parent_sc, qual, in_class=True)
            elif isinstance(n, ast.ClassDef):
                self.visit_class(n, parent_sc, qual)

    @staticmethod
    def classish(e, cname):
        """`cls`, `type(x)`, `x.__class__`, `<ClassName>`"""
        if isinstance(e, ast.Name):
            return e.id in ('cls', 'klass', 'mcs', cname)
        if isinstance(e, ast.Call) and isinstance(e.func, ast.Name) and e.func.id == 'type' and len(e.args) == 1:
            return True
        if isinstance(e, ast.Attribute) and e.attr == '__class__':
            return True
        return False


def audit(repo):
    files = module_files(repo)
    mods = {}
    for rel in files:
        try:
            with open(os.path.join(repo, rel)) as f:
                tree = ast.parse(f.read())
            mod = Module(rel, tree)
            Auditor(mod).run()
        except (SyntaxError, RecursionError, AttributeError, IndexError, KeyError, TypeError, ValueError, AssertionError) as e:
            # a module the walker cannot read must not pass as stateless: it shows up as a site, so the obligation of the module breaks
            mod = Module(rel, ast.parse(''))
            mod.add('<module>', 'moduleMutable', f'<module not analysable: {type(e).__name__}>')
        mods[rel] = mod
    known = {rel[:-3].replace('/', '.').removesuffix('.__init__'): rel for rel in files}
    sites, imports = [], []
    for rel, mod in mods.items():
        for (scope, kind, name) in mod.sites:
            sites.append((rel, scope, kind, name))
        for d in sorted(mod.imports):
            if d in known and known[d] != rel:
                imports.append((rel, known[d]))
    return files, sorted(set(imports)), sorted(sites)        # duplicates of a site are kept: the inventory is a multiset


def ident(rel, files=None):
    """Lean identifier of a module: its file name, prefixed with the parent directory for `__init__` and for file names that occur twice
    (pedantic/type_checking_logic/check_types.py -> check_types ; pedantic/exceptions.py -> pedantic_exceptions ;
    pedantic/mixins/__init__.py -> mixins_init)"""
    parts = rel[:-3].split('/')
    base = parts[-1]
    dup = files is not None and sum(1 for f in files if f.endswith('/' + base + '.py')) > 1
    if base == '__init__':
        return f'{parts[-2]}_init'
    if dup or base in ('exceptions',):
        return f'{parts[-2]}_{base}'
    return base


def gen_state_audit(repo):
    files, imports, sites = audit(repo)
    out = [HEADER.format(rel='every non-test module below pedantic/ (harness/gen/stateaudit.py)')]
    out.append('/-! The inventory of **state sites** of the library: every place where something can survive a call.\n'
               '`Props/StateAudit/*.lean` prove, module by module, that it is exactly what `Spec/StateInventory.lean` justifies by hand. -/\n')
    out.append('namespace PedVerif.Gen.StateAudit\n')
    out.append('inductive Kind where\n' + ''.join(f'  | {k}\n' for k in KINDS) + '  deriving DecidableEq, Repr\n')
    out.append('/-- ⟨module, scope (qualified name of the enclosing def / class, or `<module>`), kind, canonical name⟩ -/\n'
               'structure Site where\n  mod : String\n  scope : String\n  kind : Kind\n  name : String\n  deriving DecidableEq, Repr\n')
    out.append('/-- the modules that were walked (everything below `pedantic/` except `tests/` and `examples/`) -/\n'
               'def modules : List String := [\n' + ',\n'.join(f'  {lean_str(f)}' for f in files) + ']\n')
    out.append('/-! per module: its state sites (a multiset, sorted) and the library modules it imports -/\n')
    names = []
    for f in files:
        i = ident(f, files)
        names.append(i)
        mine = [x for x in sites if x[0] == f]
        imps = [b for (a, b) in imports if a == f]
        out.append(f'/-- `{f}` -/\ndef s_{i} : List Site := [' + ''.join(
            ('\n' if n == 0 else ',\n') + f'  ⟨{lean_str(r)}, {lean_str(sc)}, .{k}, {lean_str(nm)}⟩' for n, (r, sc, k, nm) in enumerate(mine)) + ']')
        out.append(f'def i_{i} : List String := [' + ', '.join(lean_str(b) for b in imps) + ']\n')
    out.append('/-- the whole inventory -/\ndef sites : List Site :=\n  ' + ' ++ '.join(f's_{i}' for i in names) + '\n')
    out.append('/-- (module, library modules it imports) -/\ndef imports : List (String × List String) := [\n' + ',\n'.join(
        f'  ({lean_str(f)}, i_{i})' for f, i in zip(files, names)) + ']\n')
    out.append('def sitesOf (m : String) : List Site := sites.filter (fun s => s.mod == m)\n')
    out.append('end PedVerif.Gen.StateAudit\n')
    return '\n'.join(out)


FILES = {'StateAudit.lean': gen_state_audit}

if __name__ == '__main__':
    import sys
    files, imports, sites = audit(sys.argv[1] if len(sys.argv) > 1 else '/repo')
    for s in sites:
        print(s)
    print(len(files), 'modules', len(imports), 'imports', len(sites), 'sites')
