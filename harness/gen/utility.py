"""Translator part for C18: the wrapper table of every decorator module and a shallow translation of the small
wrapper bodies into the effect language interpreted by `PedVerif.Utility` (lean/PedVerif/Model/Utility.lean).

For every function in `pedantic/decorators/**` that takes the decorated callable and returns a nested
`def …(*args, **kwargs)` (a *wrapper*), the table lists: module, decorator, wrapper name, sync/async, whether it carries
`@wraps(<the decorated-function parameter>)`, whether it is returned, and the `iscoroutinefunction` dispatch.
For the small decorators the wrapper BODY is translated statement by statement:

    print(<pure>)                                   -> .print [what is formatted: `{args}` -> .args, `{kwargs}` -> .kwargs, `{x!r}` -> .reprOf x,
                                                        `{x}` / a bare `x` -> .strOf x for a local x bound to a call result or the factory's value
                                                        argument; names of functions, counters, times format nothing of the user's]
    _raise_warning(msg=<pure>, category=C)          -> .warn "C"     (once per forced `warnings.warn` in the helper)
    <wrapper>.num_calls += k                        -> .incr k
    x = <pure>                                      -> .pure "x"
    [x =] [await] F(*args, **kwargs|**renamed)      -> .call x F pos kw awaited       (F: decorated function | other_func)
    [x =] C._get_return_value()                     -> .call x .wrapped .argsUnlessStaticOrClassMethod .kwargs false
    [x =] await C._async_get_return_value()            (C = FunctionCall(func=DecoratedFunction(func), args=args, kwargs=kwargs); the
                                                        text of the helper in models/function_call.py is checked to be
                                                        `func(**kwargs)` for static / class methods and `func(*args, **kwargs)` otherwise)
    x = await y                                     -> .await x "y"
    the rename loop of rename_kwargs                -> .rename {onListed, onOther}
    FunctionCall(...).assert_uses_kwargs()          -> .kwargsGuard
    return <local|factory parameter|None|call>      -> .ret …
    raise X(<pure>)                                 -> .raise "X" [what the message formats]
    if <cond>: … else: …                            -> .ite cond […] […]
        (tests on the class argument of `overrides`, about the decorated function's name:  name [not] in dir(base) -> .baseHasName,
         hasattr(base, name) -> .baseHasAttr,  name in base.__dict__ | vars(base) -> .baseOwnsName,
         getattr(base, name, None) is [not] None -> .baseAttrIsNone,  getattr(base, name, None) as a truth value -> .baseAttrTruthy,
         callable(getattr(base, name, None)) -> .baseAttrCallable;  not / and / or of tests)
    try: … except [Exception|BaseException]: …      -> .tryCatch […] kind […]

The metadata copy is recognised as `@wraps(<decorated function>)` on the wrapper, or as `update_wrapper(<wrapper>, <decorated
function>)` / `wraps(<decorated function>)(<wrapper>)` in a statement or in the return of the decorator; `counterInitAfterCopy`
says whether `<wrapper>.num_calls = k` runs AFTER that copy (the copy brings the `__dict__` of the decorated callable along, a
`num_calls` entry included).

Anything else in a decorator of the REQUIRED list raises `Skip` (the committed snapshot is used and the property rests on the
correspondence check alone); the other decorators (pedantic, validate, in_subprocess, retry, context managers) only
contribute table rows and their dispatch.
"""
import ast, os
from extract import Skip, src, lean_str, lean_bool, HEADER

REQUIRED = ['trace', 'timer', 'count_calls', 'deprecated', 'trace_if_returns', 'does_same_as_function', 'rename_kwargs',
            'mock', 'unimplemented', 'overrides', 'require_kwargs']
PURE_FUNCS = {'repr', 'str', 'len', 'type', 'dict', 'list', 'tuple', 'id', 'isinstance', 'format', 'DecoratedFunction',
              'FunctionCall', 'get_context', 'timedelta', 'int', 'float', 'bool', '_Shown', '_shown_args', '_shown_kwargs'}
SHOWN_HELPERS = ('_Shown', '_shown_args', '_shown_kwargs')
SHOWN_USES = {}      # repo -> how many formatted user values go through the display wrapper (per translation)
PURE_METHODS = {'now', 'items', 'keys', 'values', 'format', 'total_seconds', 'get', 'join', 'utcnow', 'time', 'perf_counter',
                'monotonic'}
COUNTER_ATTR = 'num_calls'


class NotInSubset(Exception):
    pass


def _direct_defs(fn):
    return [n for n in fn.body if isinstance(n, (ast.FunctionDef, ast.AsyncFunctionDef))]


def _all_defs(node):
    return [n for n in ast.walk(node) if isinstance(n, (ast.FunctionDef, ast.AsyncFunctionDef)) and n is not node]


def _is_wrapper_def(fn):
    return fn.args.vararg is not None and fn.args.kwarg is not None and not _all_defs(fn)


def _own_nodes(fn):
    """all nodes of fn's body that do not belong to a nested def"""
    out = []

    def go(n):
        for c in ast.iter_child_nodes(n):
            if isinstance(c, (ast.FunctionDef, ast.AsyncFunctionDef, ast.Lambda, ast.ClassDef)):
                continue
            out.append(c)
            go(c)
    for s in fn.body:
        if isinstance(s, (ast.FunctionDef, ast.AsyncFunctionDef, ast.ClassDef)):
            continue
        out.append(s)
        go(s)
    return out


def _params(fn):
    a = fn.args
    return [x.arg for x in a.posonlyargs + a.args + a.kwonlyargs] + ([a.vararg.arg] if a.vararg else []) + ([a.kwarg.arg] if a.kwarg else [])


def _first_param(fn):
    a = fn.args
    ps = a.posonlyargs + a.args
    return ps[0].arg if ps else None


def _hands_out(fn, names):
    """does `fn` (own statements) return one of `names`, bare or through update_wrapper(...) / wraps(...)(...)"""
    for n in _own_nodes(fn):
        if isinstance(n, ast.Return) and n.value is not None:
            for x in ast.walk(n.value):
                if isinstance(x, ast.Name) and x.id in names:
                    return True
    return False


def decorator_levels(top):
    """[(level function, enclosing factory functions, hoisted wrapper defs)] — a level takes the decorated callable as first parameter
    and either has wrapper defs as direct children or returns its first parameter unchanged.  Hoisted: the wrapper defs are direct
    children of an ENCLOSING factory and the level (which has none of its own) hands them out — one wrapper object per factory call,
    shared by every application of the decorator object"""
    out = []

    def go(fn, enclosing):
        kids = _direct_defs(fn)
        wrappers = [k for k in kids if _is_wrapper_def(k)]
        plain = [k for k in kids if not _is_wrapper_def(k)]
        # wrapper defs next to a nested function that takes one callable and hands those wrappers out: the nested function is the level
        for k in plain:
            if wrappers and _first_param(k) is not None and not any(_is_wrapper_def(x) for x in _direct_defs(k)) \
                    and _hands_out(k, {w.name for w in wrappers}):
                out.append((k, enclosing + [fn], wrappers))
                return
        p = _first_param(fn)
        returns_param = any(isinstance(n, ast.Return) and isinstance(n.value, ast.Name) and n.value.id == p for n in _own_nodes(fn))
        if p is not None and (wrappers or (returns_param and not kids)):
            out.append((fn, enclosing, None))
            return
        for k in kids:
            go(k, enclosing + [fn])
    go(top, [])
    return out


# ---------------------------------------------------------------- coroutine test recognition

def _is_iscoroutinefunction_call(e, of=None):
    if not (isinstance(e, ast.Call) and len(e.args) == 1 and not e.keywords):
        return None
    f = e.func
    name = f.attr if isinstance(f, ast.Attribute) else (f.id if isinstance(f, ast.Name) else None)
    if name != 'iscoroutinefunction':
        return None
    a = e.args[0]
    return a.id if isinstance(a, ast.Name) else None


def _decorated_function_is_coroutine_ok(repo):
    """DecoratedFunction.is_coroutine is `inspect.iscoroutinefunction(self._func)` and __init__ stores `self._func = func`"""
    try:
        tree = ast.parse(src(repo, 'pedantic/models/decorated_function.py'))
    except OSError:
        return False
    for c in tree.body:
        if isinstance(c, ast.ClassDef) and c.name == 'DecoratedFunction':
            ok_prop = ok_init = False
            for m in c.body:
                if isinstance(m, ast.FunctionDef) and m.name == 'is_coroutine':
                    rets = [n for n in ast.walk(m) if isinstance(n, ast.Return)]
                    if len(rets) == 1 and isinstance(rets[0].value, ast.Call):
                        e = rets[0].value
                        f = e.func
                        nm = f.attr if isinstance(f, ast.Attribute) else getattr(f, 'id', None)
                        if nm == 'iscoroutinefunction' and len(e.args) == 1 and ast.unparse(e.args[0]) == 'self._func':
                            ok_prop = True
                if isinstance(m, ast.FunctionDef) and m.name == '__init__':
                    for s in m.body:
                        if isinstance(s, ast.Assign) and ast.unparse(s.targets[0]) == 'self._func' and ast.unparse(s.value) == 'func':
                            ok_init = True
            return ok_prop and ok_init
    return False


_GRV_CACHE = {}


def _norm(node):
    return ast.unparse(node).replace(' ', '')


def _get_return_value_ok(repo, name):
    """FunctionCall.<name> is, literally,
           if self.func.is_static_method or self.func.is_class_method: return [await] self.func.func(**self.kwargs)
           else: return [await] self.func.func(*self.args, **self.kwargs)
       and func / args / kwargs are the constructor arguments, DecoratedFunction.func the wrapped callable"""
    key = (repo, name)
    if key in _GRV_CACHE:
        return _GRV_CACHE[key]
    ok = False
    try:
        tree = ast.parse(src(repo, 'pedantic/models/function_call.py'))
        cls = [c for c in tree.body if isinstance(c, ast.ClassDef) and c.name == 'FunctionCall'][0]
        ms = {m.name: m for m in cls.body if isinstance(m, (ast.FunctionDef, ast.AsyncFunctionDef))}
        m = ms[name]
        aw = 'await' if name.startswith('_async') else ''
        body = [b for b in m.body if not (isinstance(b, ast.Expr) and isinstance(b.value, ast.Constant))]
        if len(body) == 1 and isinstance(body[0], ast.If) and len(body[0].body) == 1 and len(body[0].orelse) == 1:
            t = _norm(body[0].test) in ('self.func.is_static_methodorself.func.is_class_method', 'self.func.is_class_methodorself.func.is_static_method')
            a = _norm(body[0].body[0]) == f'return{aw}self.func.func(**self.kwargs)'
            b = _norm(body[0].orelse[0]) == f'return{aw}self.func.func(*self.args,**self.kwargs)'
            shape = t and a and b
        else:
            shape = False
        props = all(n in ms and len(ms[n].body) == 1 and _norm(ms[n].body[0]) == f'returnself._{n}' for n in ('func', 'args', 'kwargs'))
        init = {_norm(x) for x in ms['__init__'].body}
        inits = {'self._func=func', 'self._args=args', 'self._kwargs=kwargs'} <= init
        dtree = ast.parse(src(repo, 'pedantic/models/decorated_function.py'))
        dcls = [c for c in dtree.body if isinstance(c, ast.ClassDef) and c.name == 'DecoratedFunction'][0]
        dms = {m.name: m for m in dcls.body if isinstance(m, ast.FunctionDef)}
        dfunc = 'func' in dms and len(dms['func'].body) == 1 and _norm(dms['func'].body[0]) == 'returnself._func' \
            and 'self._func=func' in {_norm(x) for x in dms['__init__'].body}
        ok = bool(shape and props and inits and dfunc)
    except (OSError, KeyError, IndexError, SyntaxError):
        ok = False
    _GRV_CACHE[key] = ok
    return ok


class Level:
    """one decorator level: translation context"""

    def __init__(self, repo, module, top, fn, enclosing, hoisted=None):
        self.repo, self.module, self.top, self.fn, self.enclosing = repo, module, top, fn, enclosing
        self.fparam = _first_param(fn)
        self.factory_params = [p for f in enclosing for p in _params(f)] + [p for p in _params(fn) if p != self.fparam]
        self.hoisted = hoisted is not None
        self.wrappers = list(hoisted) if hoisted is not None else [k for k in _direct_defs(fn) if _is_wrapper_def(k)]
        self.wrapper_names = [w.name for w in self.wrappers]
        self.coro_aliases = {}      # local name -> 'wrapped' | 'other'  (x = inspect.iscoroutinefunction(P))
        self.df_aliases = {}        # local name -> P   (x = DecoratedFunction(func=P))
        self.name_aliases = set()   # local names bound to P.__name__
        self.rename_dicts = {}      # factory-level dict name -> (key attr, value attr)
        for f in enclosing + [fn]:
            for s in f.body:
                self._scan_alias(s)

    def _scan_alias(self, s):
        if isinstance(s, (ast.Assign, ast.AnnAssign)):
            tgt = s.targets[0] if isinstance(s, ast.Assign) and len(s.targets) == 1 else (s.target if isinstance(s, ast.AnnAssign) else None)
            if not isinstance(tgt, ast.Name) or s.value is None:
                return
            v = s.value
            who = _is_iscoroutinefunction_call(v)
            if who is not None:
                self.coro_aliases[tgt.id] = who
            if isinstance(v, ast.Call) and getattr(v.func, 'id', None) == 'DecoratedFunction':
                a = [k.value for k in v.keywords if k.arg == 'func'] + list(v.args)
                if a and isinstance(a[0], ast.Name):
                    self.df_aliases[tgt.id] = a[0].id
            if isinstance(v, ast.Attribute) and v.attr == '__name__' and isinstance(v.value, ast.Name) and v.value.id == self.fparam:
                self.name_aliases.add(tgt.id)
            if isinstance(v, ast.DictComp) and len(v.generators) == 1:
                g = v.generators[0]
                if isinstance(g.target, ast.Name) and not g.ifs and isinstance(v.key, ast.Attribute) and isinstance(v.value, ast.Attribute) \
                        and getattr(v.key.value, 'id', None) == g.target.id and getattr(v.value.value, 'id', None) == g.target.id:
                    self.rename_dicts[tgt.id] = (v.key.attr, v.value.attr)

    # ------------------------------------------------------------ classification helpers
    def callee_of(self, name):
        if name == self.fparam:
            return '.wrapped'
        if name in self.factory_params:
            return '.other'
        return None

    def coro_test(self, e):
        """'.wrappedIsCoroutine' / '.otherIsCoroutine' or None"""
        who = _is_iscoroutinefunction_call(e)
        if who is None and isinstance(e, ast.Name) and e.id in self.coro_aliases:
            who = self.coro_aliases[e.id]
        if who is None and isinstance(e, ast.Attribute) and e.attr == 'is_coroutine' and isinstance(e.value, ast.Name) \
                and e.value.id in self.df_aliases and _decorated_function_is_coroutine_ok(self.repo):
            who = self.df_aliases[e.value.id]
        if who is None:
            return None
        c = self.callee_of(who)
        return {'.wrapped': '.wrappedIsCoroutine', '.other': '.otherIsCoroutine'}.get(c)

    def is_pure(self, e, callees):
        for n in ast.walk(e):
            if isinstance(n, (ast.Await, ast.Yield, ast.YieldFrom, ast.NamedExpr, ast.Lambda)):
                return False
            if isinstance(n, ast.Call):
                f = n.func
                if isinstance(f, ast.Name):
                    if f.id in callees or f.id not in PURE_FUNCS:
                        return False
                elif isinstance(f, ast.Attribute):
                    if f.attr not in PURE_METHODS:
                        return False
                else:
                    return False
        return True


class WrapperTranslator:
    def __init__(self, lv: Level, w):
        self.lv, self.w = lv, w
        self.vararg, self.kwarg = w.args.vararg.arg, w.args.kwarg.arg
        self.locals = set()
        self.user_locals = set()     # locals bound to what a call returned / an await produced: objects of the user
        self.renamed_var = None      # local dict filled by the rename loop
        self.empty_dicts = set()
        self.fc_aliases = set()      # locals bound to FunctionCall(func=<DecoratedFunction(P)>, args=vararg, kwargs=kwarg)
        self.df_local = set()
        self.tmp = 0
        self.callees = {self.lv.fparam} | set(self.lv.factory_params)

    def call_form(self, e):
        """(callee, pos, kw, awaited) for `[await] F(*args, **kw)` or None"""
        awaited = False
        if isinstance(e, ast.Await):
            awaited, e = True, e.value
        if isinstance(e, ast.Call) and isinstance(e.func, ast.Attribute) and isinstance(e.func.value, ast.Name) \
                and e.func.value.id in self.fc_aliases and e.func.attr in ('_get_return_value', '_async_get_return_value'):
            if e.args or e.keywords or awaited != e.func.attr.startswith('_async'):
                raise NotInSubset(f'call {ast.unparse(e)}')
            if not _get_return_value_ok(self.lv.repo, e.func.attr):
                raise NotInSubset(f'FunctionCall.{e.func.attr} is not the known two-branch call of the decorated function')
            return '.wrapped', '.argsUnlessStaticOrClassMethod', '.kwargs', awaited
        if not (isinstance(e, ast.Call) and isinstance(e.func, ast.Name)):
            return None
        c = self.lv.callee_of(e.func.id)
        if c is None:
            return None
        if len(e.args) == 0:
            pos = '.empty'
        elif len(e.args) == 1 and isinstance(e.args[0], ast.Starred) and isinstance(e.args[0].value, ast.Name) and e.args[0].value.id == self.vararg:
            pos = '.args'
        else:
            raise NotInSubset(f'positional arguments of the call {ast.unparse(e)}')
        if len(e.keywords) == 0:
            kw = '.empty'
        elif len(e.keywords) == 1 and e.keywords[0].arg is None and isinstance(e.keywords[0].value, ast.Name):
            n = e.keywords[0].value.id
            if n == self.kwarg:
                kw = '.kwargs'
            elif n == self.renamed_var:
                kw = '.renamed'
            else:
                raise NotInSubset(f'keyword source {n}')
        else:
            raise NotInSubset(f'keyword arguments of the call {ast.unparse(e)}')
        return c, pos, kw, awaited

    def atom(self, e):
        if isinstance(e, ast.Constant) and e.value is None:
            return '.none'
        if isinstance(e, ast.Name):
            if e.id in self.locals:
                return f'(.var {lean_str(e.id)})'
            if e.id in self.lv.factory_params:
                return '.param'
            raise NotInSubset(f'name {e.id} in a comparison / return')
        raise NotInSubset(f'expression {ast.unparse(e)}')

    def cond(self, e):
        if isinstance(e, ast.UnaryOp) and isinstance(e.op, ast.Not):
            return f'(.not {self.cond(e.operand)})'
        if isinstance(e, ast.BoolOp) and len(e.values) >= 2:
            c = self.cond(e.values[-1])
            for v in reversed(e.values[:-1]):       # `a and b and c` = `a and (b and c)`
                c = f"({'.and_' if isinstance(e.op, ast.And) else '.or_'} {self.cond(v)} {c})"
            return c
        ct = self.lv.coro_test(e)
        if ct:
            return ct
        if isinstance(e, ast.Compare) and len(e.ops) == 1:
            # getattr(base, name, None) is [not] None   (either operand order)
            if type(e.ops[0]) in (ast.Is, ast.IsNot):
                l, r = e.left, e.comparators[0]
                if (self._is_base_attr(l) and self._is_none(r)) or (self._is_none(l) and self._is_base_attr(r)):
                    return '.baseAttrIsNone' if isinstance(e.ops[0], ast.Is) else '(.not .baseAttrIsNone)'
            op = {ast.Eq: '.eq', ast.NotEq: '.ne', ast.Is: '.is_', ast.IsNot: '.isNot'}.get(type(e.ops[0]))
            if op:
                return f'({op} {self.atom(e.left)} {self.atom(e.comparators[0])})'
            # name [not] in dir(base)  /  name [not] in base.__dict__  /  name [not] in vars(base)
            if type(e.ops[0]) in (ast.In, ast.NotIn) and self._is_func_name(e.left):
                atom = None
                if self._is_dir_of_factory_param(e.comparators[0]):
                    atom = '.baseHasName'
                elif self._is_own_dict_of_factory_param(e.comparators[0]):
                    atom = '.baseOwnsName'
                if atom:
                    return atom if isinstance(e.ops[0], ast.In) else f'(.not {atom})'
        if isinstance(e, ast.Call) and getattr(e.func, 'id', None) == 'hasattr' and len(e.args) == 2 and not e.keywords \
                and isinstance(e.args[0], ast.Name) and e.args[0].id in self.lv.factory_params and self._is_func_name(e.args[1]):
            return '.baseHasAttr'
        if self._is_base_attr(e):
            return '.baseAttrTruthy'
        if isinstance(e, ast.Call) and getattr(e.func, 'id', None) in ('callable', 'bool') and len(e.args) == 1 and not e.keywords \
                and self._is_base_attr(e.args[0]):
            return '.baseAttrCallable' if e.func.id == 'callable' else '.baseAttrTruthy'
        raise NotInSubset(f'condition {ast.unparse(e)}')

    @staticmethod
    def _is_none(e):
        return isinstance(e, ast.Constant) and e.value is None

    def _is_base_attr(self, e):
        """getattr(<factory's class argument>, <the decorated function's name>, None)"""
        return isinstance(e, ast.Call) and getattr(e.func, 'id', None) == 'getattr' and len(e.args) == 3 and not e.keywords \
            and isinstance(e.args[0], ast.Name) and e.args[0].id in self.lv.factory_params and self._is_func_name(e.args[1]) \
            and self._is_none(e.args[2])

    def _is_own_dict_of_factory_param(self, e):
        if isinstance(e, ast.Attribute) and e.attr == '__dict__' and isinstance(e.value, ast.Name) and e.value.id in self.lv.factory_params:
            return True
        return isinstance(e, ast.Call) and getattr(e.func, 'id', None) == 'vars' and len(e.args) == 1 and not e.keywords \
            and isinstance(e.args[0], ast.Name) and e.args[0].id in self.lv.factory_params

    def _is_func_name(self, e):
        if isinstance(e, ast.Name) and e.id in self.lv.name_aliases:
            return True
        return isinstance(e, ast.Attribute) and e.attr == '__name__' and isinstance(e.value, ast.Name) and e.value.id == self.lv.fparam

    def _is_dir_of_factory_param(self, e):
        return isinstance(e, ast.Call) and getattr(e.func, 'id', None) == 'dir' and len(e.args) == 1 \
            and isinstance(e.args[0], ast.Name) and e.args[0].id in self.lv.factory_params

    def _user_names(self):
        return {n for n in (self.vararg, self.kwarg) if n} | self.user_locals | set(self.lv.factory_params)

    def _fmt_one(self, e, conv):
        """what formatting the expression `e` (conversion: -1 / ord('s') -> str, ord('r') / ord('a') -> repr) makes Python call on objects of the user"""
        rep = conv in (ord('r'), ord('a'))
        if isinstance(e, ast.Name):
            if e.id == self.vararg:
                return ['.args']
            if e.id == self.kwarg:
                return ['.kwargs']
            if e.id in self.user_locals:
                return [f"({'.reprOf' if rep else '.strOf'} (.var {lean_str(e.id)}))"]
            if e.id in self.lv.factory_params:
                return [f"({'.reprOf' if rep else '.strOf'} .param)"]
            return []
        if isinstance(e, ast.Call) and isinstance(e.func, ast.Name) and e.func.id in ('repr', 'str') and len(e.args) == 1 and not e.keywords:
            return self._fmt_one(e.args[0], ord('r') if e.func.id == 'repr' else -1)
        if isinstance(e, ast.Call) and isinstance(e.func, ast.Name) and e.func.id in SHOWN_HELPERS and len(e.args) == 1 and not e.keywords:
            # a value wrapped for display: `repr` / `str` of the wrapper catch what the value's own method raises (helper text checked)
            if not _shown_helpers_ok(self.lv.repo):
                # the wrapper is not (any more) the known never-raising one: what it wraps is formatted by its own methods
                return self._fmt_one(e.args[0], conv)
            SHOWN_USES[self.lv.repo] = SHOWN_USES.get(self.lv.repo, 0) + 1
            return []
        if isinstance(e, ast.JoinedStr):
            return self.fmt_uses([e])
        mentioned = {n.id for n in ast.walk(e) if isinstance(n, ast.Name)}
        # `func.__name__`, `wrapper.num_calls`, `datetime.now()`, a local computed from such: nothing of the user's is formatted
        bad = mentioned & ({n for n in (self.vararg, self.kwarg) if n} | self.user_locals)
        if bad:
            raise NotInSubset(f'formatting of an expression over {sorted(bad)}: {ast.unparse(e)[:60]}')
        for n in ast.walk(e):
            if isinstance(n, ast.Name) and n.id in self.lv.factory_params and n.id != self.lv.fparam:
                # `other_func.__name__` is fine; the bare value argument inside a larger expression is not analysed
                par = [a for a in ast.walk(e) if isinstance(a, ast.Attribute) and a.value is n]
                if not par:
                    raise NotInSubset(f'formatting of an expression over {n.id}: {ast.unparse(e)[:60]}')
        return []

    def fmt_uses(self, exprs):
        """`print(e1, e2, …)` / the arguments of an exception constructor: the formatting operations, in evaluation order"""
        out = []
        for e in exprs:
            if isinstance(e, ast.Constant):
                continue
            if isinstance(e, ast.JoinedStr):
                for v in e.values:
                    if isinstance(v, ast.FormattedValue):
                        out += self._fmt_one(v.value, v.conversion)
                        if v.format_spec is not None:
                            out += self.fmt_uses([v.format_spec])
                continue
            out += self._fmt_one(e, -1)
        return out

    def warn_events(self, call):
        """number of forced warnings a `_raise_warning(...)` / `warnings.warn(...)` statement emits, and the category"""
        f = call.func
        cat = None
        for k in call.keywords:
            if k.arg == 'category' and isinstance(k.value, ast.Name):
                cat = k.value.id
        if isinstance(f, ast.Name) and f.id == '_raise_warning':
            if cat is None and len(call.args) >= 2 and isinstance(call.args[1], ast.Name):
                cat = call.args[1].id
            if cat is None:
                raise NotInSubset('category of _raise_warning')
            return _raise_warning_count(self.lv.repo), cat
        return None

    def block(self, stmts):
        out = []
        for s in stmts:
            out += self.stmt(s)
        return out

    def stmt(self, s):
        lv = self.lv
        if isinstance(s, ast.Pass):
            return []
        if isinstance(s, ast.Expr):
            v = s.value
            if isinstance(v, ast.Constant):
                return []
            if isinstance(v, ast.Call) and isinstance(v.func, ast.Name) and v.func.id == 'print':
                if all(lv.is_pure(a, self.callees) for a in v.args) and all(lv.is_pure(k.value, self.callees) for k in v.keywords):
                    return [f'.print [{", ".join(self.fmt_uses(v.args))}]']
                raise NotInSubset('print of an impure expression')
            if isinstance(v, ast.Call):
                we = self.warn_events(v)
                if we is not None:
                    n, cat = we
                    if self.fmt_uses(list(v.args) + [k.value for k in v.keywords]):
                        raise NotInSubset('a warning message that formats arguments / results')
                    return [f'.warn {lean_str(cat)}'] * n
                # call.assert_uses_kwargs()
                if isinstance(v.func, ast.Attribute) and v.func.attr == 'assert_uses_kwargs' and isinstance(v.func.value, ast.Name) \
                        and v.func.value.id in self.fc_aliases and not v.args and not v.keywords:
                    return ['.kwargsGuard']
            cf = self.call_form(v)
            if cf:
                c, pos, kw, aw = cf
                return [f'.call Option.none {c} {pos} {kw} {lean_bool(aw)}']
            if isinstance(v, ast.Await) and isinstance(v.value, ast.Name) and v.value.id in self.locals:
                return [f'.await Option.none {lean_str(v.value.id)}']
            raise NotInSubset(f'expression statement {ast.unparse(s)}')
        if isinstance(s, ast.AugAssign):
            t = s.target
            if isinstance(t, ast.Attribute) and t.attr == COUNTER_ATTR and isinstance(t.value, ast.Name) and t.value.id in lv.wrapper_names \
                    and isinstance(s.op, (ast.Add, ast.Sub)) and isinstance(s.value, ast.Constant) and isinstance(s.value.value, int) \
                    and not isinstance(s.value.value, bool):
                k = s.value.value if isinstance(s.op, ast.Add) else -s.value.value
                return [f'.incr ({k})']
            raise NotInSubset(f'augmented assignment {ast.unparse(s)}')
        if isinstance(s, (ast.Assign, ast.AnnAssign)):
            if isinstance(s, ast.Assign):
                if len(s.targets) != 1:
                    raise NotInSubset('multiple assignment targets')
                tgt = s.targets[0]
            else:
                tgt = s.target
            v = s.value
            if v is None:
                return []
            # wrapper.num_calls = wrapper.num_calls + k
            if isinstance(tgt, ast.Attribute) and tgt.attr == COUNTER_ATTR and isinstance(tgt.value, ast.Name) and tgt.value.id in lv.wrapper_names:
                if isinstance(v, ast.BinOp) and isinstance(v.op, (ast.Add, ast.Sub)) and ast.unparse(v.left) == ast.unparse(tgt) \
                        and isinstance(v.right, ast.Constant) and isinstance(v.right.value, int):
                    k = v.right.value if isinstance(v.op, ast.Add) else -v.right.value
                    return [f'.incr ({k})']
                raise NotInSubset(f'counter assignment {ast.unparse(s)}')
            if not isinstance(tgt, ast.Name):
                raise NotInSubset(f'assignment target {ast.unparse(tgt)}')
            x = tgt.id
            if x in (self.vararg, self.kwarg) or x in self.callees:
                raise NotInSubset(f'assignment to {x}')
            cf = self.call_form(v)
            if cf:
                c, pos, kw, aw = cf
                self.locals.add(x)
                self.user_locals.add(x)
                return [f'.call (some {lean_str(x)}) {c} {pos} {kw} {lean_bool(aw)}']
            if isinstance(v, ast.Await) and isinstance(v.value, ast.Name) and v.value.id in self.locals:
                self.locals.add(x)
                self.user_locals.add(x)
                return [f'.await (some {lean_str(x)}) {lean_str(v.value.id)}']
            if isinstance(v, ast.Dict) and not v.keys:
                self.empty_dicts.add(x)
                return []
            rn = self.rename_comprehension(x, v)
            if rn is not None:
                return rn
            if isinstance(v, ast.Call) and getattr(v.func, 'id', None) == 'DecoratedFunction':
                a = [k.value for k in v.keywords if k.arg == 'func'] + list(v.args)
                if len(a) == 1 and isinstance(a[0], ast.Name) and a[0].id == lv.fparam:
                    self.df_local.add(x)
                    self.locals.add(x)
                    return [f'.pure {lean_str(x)}']
                raise NotInSubset('DecoratedFunction of something else than the decorated function')
            if isinstance(v, ast.Call) and getattr(v.func, 'id', None) == 'FunctionCall':
                kws = {k.arg: k.value for k in v.keywords}
                if not v.args and isinstance(kws.get('func'), ast.Name) and kws['func'].id in (self.df_local | set(lv.df_aliases)) \
                        and isinstance(kws.get('args'), ast.Name) and kws['args'].id == self.vararg \
                        and isinstance(kws.get('kwargs'), ast.Name) and kws['kwargs'].id == self.kwarg and lv.is_pure(v, self.callees):
                    self.fc_aliases.add(x)
                    self.locals.add(x)
                    return [f'.pure {lean_str(x)}']
                raise NotInSubset('FunctionCall over other arguments than (*args, **kwargs)')
            if lv.is_pure(v, self.callees):
                if {n.id for n in ast.walk(v) if isinstance(n, ast.Name)} & ({n for n in (self.vararg, self.kwarg) if n} | self.user_locals) \
                        and not isinstance(v, ast.Call):
                    raise NotInSubset(f'a local computed from arguments / results: {ast.unparse(s)[:60]}')
                self.locals.add(x)
                return [f'.pure {lean_str(x)}']
            raise NotInSubset(f'assignment of {ast.unparse(v)}')
        if isinstance(s, ast.Return):
            v = s.value
            if v is None or (isinstance(v, ast.Constant) and v.value is None):
                return ['.ret .none']
            cf = self.call_form(v)
            if cf:
                c, pos, kw, aw = cf
                self.tmp += 1
                x = f'$ret{self.tmp}'
                return [f'.call (some {lean_str(x)}) {c} {pos} {kw} {lean_bool(aw)}', f'.ret (.var {lean_str(x)})']
            if isinstance(v, ast.Await) and isinstance(v.value, ast.Name) and v.value.id in self.locals:
                self.tmp += 1
                x = f'$ret{self.tmp}'
                return [f'.await (some {lean_str(x)}) {lean_str(v.value.id)}', f'.ret (.var {lean_str(x)})']
            if isinstance(v, ast.Name):
                if v.id in self.locals:
                    return [f'.ret (.var {lean_str(v.id)})']
                if v.id in lv.factory_params:
                    return ['.ret .param']
                raise NotInSubset(f'return of {v.id}')
            if lv.is_pure(v, self.callees):
                return ['.ret .opaque']
            raise NotInSubset(f'return of {ast.unparse(v)}')
        if isinstance(s, ast.Raise):
            e = s.exc
            if e is None or s.cause is not None:
                raise NotInSubset('re-raise / raise from')
            name, uses = None, []
            if isinstance(e, ast.Call) and isinstance(e.func, ast.Name) and all(lv.is_pure(a, self.callees) for a in e.args) \
                    and all(lv.is_pure(k.value, self.callees) for k in e.keywords):
                name = e.func.id
                uses = self.fmt_uses(list(e.args) + [k.value for k in e.keywords])
            elif isinstance(e, ast.Name) and e.id not in self.locals:
                name = e.id
            if name is None:
                raise NotInSubset(f'raise {ast.unparse(e)}')
            return [f'.raise {lean_str(name)} [{", ".join(uses)}]']
        if isinstance(s, ast.If):
            c = self.cond(s.test)
            t = self.block(s.body)
            e = self.block(s.orelse)
            return [f'.ite {c} [{", ".join(t)}] [{", ".join(e)}]']
        if isinstance(s, ast.For):
            return self.rename_loop(s)
        if isinstance(s, ast.Try):
            if s.finalbody or s.orelse or len(s.handlers) != 1 or getattr(s, 'is_star', False):
                raise NotInSubset('try with finally / else / several handlers')
            h = s.handlers[0]
            if h.type is None or (isinstance(h.type, ast.Name) and h.type.id == 'BaseException'):
                kind = '.all'
            elif isinstance(h.type, ast.Name) and h.type.id == 'Exception':
                kind = '.exception'
            else:
                raise NotInSubset('except clause of a specific class')
            if h.name is not None:
                raise NotInSubset('except … as name')
            b = self.block(s.body)
            hb = self.block(h.body)
            return [f'.tryCatch [{", ".join(b)}] {kind} [{", ".join(hb)}]']
        raise NotInSubset(f'statement {type(s).__name__}: {ast.unparse(s)[:60]}')

    # ------------------------------------------------------------ rename_kwargs
    def _key_expr(self, e, k, d):
        if isinstance(e, ast.Name) and e.id == k:
            return '.same'
        if isinstance(e, ast.Subscript) and isinstance(e.value, ast.Name) and e.value.id == d and isinstance(e.slice, ast.Name) and e.slice.id == k:
            return '.mapped'
        raise NotInSubset(f'key expression {ast.unparse(e)}')

    def _is_value_of_key(self, e, k, v, src_dict):
        if v is not None and isinstance(e, ast.Name) and e.id == v:
            return True
        return isinstance(e, ast.Subscript) and isinstance(e.value, ast.Name) and e.value.id == src_dict \
            and isinstance(e.slice, ast.Name) and e.slice.id == k

    def _items_loop_header(self, target, it):
        """`for k, v in kwargs.items()` / `for k in kwargs` -> (k, v|None)"""
        if isinstance(it, ast.Call) and isinstance(it.func, ast.Attribute) and it.func.attr == 'items' and not it.args \
                and isinstance(it.func.value, ast.Name) and it.func.value.id == self.kwarg \
                and isinstance(target, ast.Tuple) and len(target.elts) == 2 and all(isinstance(t, ast.Name) for t in target.elts):
            return target.elts[0].id, target.elts[1].id
        if isinstance(it, ast.Name) and it.id == self.kwarg and isinstance(target, ast.Name):
            return target.id, None
        raise NotInSubset('loop that does not iterate over the keyword arguments')

    def _store(self, s, k, v, d):
        """`R[<key>] = <value of k>` -> key expression"""
        if not (isinstance(s, ast.Assign) and len(s.targets) == 1 and isinstance(s.targets[0], ast.Subscript)
                and isinstance(s.targets[0].value, ast.Name) and s.targets[0].value.id in self.empty_dicts):
            raise NotInSubset(f'loop body statement {ast.unparse(s)}')
        r = s.targets[0].value.id
        if self.renamed_var not in (None, r):
            raise NotInSubset('two result dictionaries')
        self.renamed_var = r
        if not self._is_value_of_key(s.value, k, v, self.kwarg):
            raise NotInSubset(f'stored value {ast.unparse(s.value)} is not the value of the key')
        return self._key_expr(s.targets[0].slice, k, d)

    def rename_loop(self, s):
        if s.orelse:
            raise NotInSubset('for/else')
        k, v = self._items_loop_header(s.target, s.iter)
        body = [b for b in s.body if not isinstance(b, ast.Pass)]
        if len(body) != 1 or not isinstance(body[0], ast.If):
            raise NotInSubset('rename loop body is not a single if')
        i = body[0]
        t = i.test
        neg = False
        if isinstance(t, ast.UnaryOp) and isinstance(t.op, ast.Not):
            neg, t = True, t.operand
        if not (isinstance(t, ast.Compare) and len(t.ops) == 1 and type(t.ops[0]) in (ast.In, ast.NotIn) and isinstance(t.left, ast.Name)
                and t.left.id == k and isinstance(t.comparators[0], ast.Name) and t.comparators[0].id in self.lv.rename_dicts):
            raise NotInSubset(f'rename loop test {ast.unparse(i.test)}')
        if isinstance(t.ops[0], ast.NotIn):
            neg = not neg
        d = t.comparators[0].id
        self.lv.used_rename_dict = d

        def branch(stmts):
            stmts = [b for b in stmts if not isinstance(b, ast.Pass)]
            if not stmts:
                return 'Option.none'
            if len(stmts) != 1:
                raise NotInSubset('rename loop branch with several statements')
            return f'(some {self._store(stmts[0], k, v, d)})'
        a, b = branch(i.body), branch(i.orelse)
        listed, other = (b, a) if neg else (a, b)
        return [f'.rename {{ onListed := {listed}, onOther := {other} }}']

    def rename_comprehension(self, x, v):
        """x = {param_dict.get(k, k): v for k, v in kwargs.items()}"""
        if not (isinstance(v, ast.DictComp) and len(v.generators) == 1 and not v.generators[0].ifs):
            return None
        g = v.generators[0]
        try:
            k, vv = self._items_loop_header(g.target, g.iter)
        except NotInSubset:
            return None
        key = v.key
        if not (isinstance(key, ast.Call) and isinstance(key.func, ast.Attribute) and key.func.attr == 'get' and isinstance(key.func.value, ast.Name)
                and key.func.value.id in self.lv.rename_dicts and len(key.args) == 2 and all(isinstance(a, ast.Name) and a.id == k for a in key.args)):
            return None
        if not self._is_value_of_key(v.value, k, vv, self.kwarg):
            return None
        self.lv.used_rename_dict = key.func.value.id
        self.renamed_var = x
        return ['.rename { onListed := (some .mapped), onOther := (some .same) }']


_RW_CACHE = {}
_SHOWN_CACHE = {}


def _shown_helpers_ok(repo):
    """helper_methods._Shown is, literally, a wrapper whose __repr__ / __str__ are `try: return repr|str(self._value)` /
    `except Exception: return object.__repr__(self._value)` around the constructor argument, and _shown_args / _shown_kwargs wrap every
    element / value in it"""
    if repo in _SHOWN_CACHE:
        return _SHOWN_CACHE[repo]
    ok = False
    try:
        tree = ast.parse(src(repo, 'pedantic/helper_methods.py'))
        cls = [c for c in tree.body if isinstance(c, ast.ClassDef) and c.name == '_Shown'][0]
        ms = {m.name: m for m in cls.body if isinstance(m, ast.FunctionDef)}

        def body(fn):
            return [b for b in fn.body if not (isinstance(b, ast.Expr) and isinstance(b.value, ast.Constant))]

        def safe(fn, conv):
            b = body(fn)
            if len(b) != 1 or not isinstance(b[0], ast.Try) or b[0].finalbody or b[0].orelse or len(b[0].handlers) != 1:
                return False
            h = b[0].handlers[0]
            return [_norm(x) for x in b[0].body] == [f'return{conv}(self._value)'] and isinstance(h.type, ast.Name) and h.type.id in ('Exception', 'BaseException') \
                and [_norm(x) for x in h.body] == ['returnobject.__repr__(self._value)']
        init = [_norm(x) for x in body(ms['__init__'])] == ['self._value=value'] and _params(ms['__init__']) == ['self', 'value']
        fns = {f.name: f for f in tree.body if isinstance(f, ast.FunctionDef)}
        a = [_norm(x) for x in body(fns['_shown_args'])] == ['returntuple((_Shown(a)forainargs))'] and _params(fns['_shown_args']) == ['args']
        k = [_norm(x) for x in body(fns['_shown_kwargs'])] == ['return{k:_Shown(v)fork,vinkwargs.items()}'] and _params(fns['_shown_kwargs']) == ['kwargs']
        ok = bool(init and safe(ms['__repr__'], 'repr') and safe(ms['__str__'], 'str') and a and k)
    except (OSError, KeyError, IndexError, SyntaxError):
        ok = False
    _SHOWN_CACHE[repo] = ok
    return ok


def _raise_warning_count(repo):
    """how many warnings one `_raise_warning(msg, category)` emits: every `warnings.warn(.., category=category ..)` that is
    preceded by `warnings.simplefilter('always', category)` (so that it is shown whatever the ambient filter says)"""
    if repo in _RW_CACHE:
        return _RW_CACHE[repo]
    tree = ast.parse(src(repo, 'pedantic/helper_methods.py'))
    fn = [n for n in tree.body if isinstance(n, ast.FunctionDef) and n.name == '_raise_warning']
    if not fn:
        raise Skip('helper_methods._raise_warning not found')
    fn = fn[0]
    ps = _params(fn)
    if len(ps) < 2:
        raise Skip('_raise_warning: parameters')
    cat_param = 'category' if 'category' in ps else ps[1]
    forced, n = False, 0
    for s in fn.body:
        if isinstance(s, ast.Expr) and isinstance(s.value, ast.Constant):
            continue
        if not (isinstance(s, ast.Expr) and isinstance(s.value, ast.Call) and isinstance(s.value.func, ast.Attribute)
                and isinstance(s.value.func.value, ast.Name) and s.value.func.value.id == 'warnings'):
            raise Skip(f'_raise_warning: statement {ast.unparse(s)[:60]}')
        c = s.value
        kws = {k.arg: k.value for k in c.keywords}
        if c.func.attr == 'simplefilter':
            action = kws.get('action', c.args[0] if c.args else None)
            cat = kws.get('category', c.args[1] if len(c.args) > 1 else None)
            if isinstance(action, ast.Constant) and action.value == 'always' and isinstance(cat, ast.Name) and cat.id == cat_param:
                forced = True
            elif isinstance(action, ast.Constant) and action.value in ('ignore', 'error', 'once', 'module') :
                forced = False
            elif isinstance(action, ast.Constant) and action.value == 'default':
                forced = False
            else:
                raise Skip('_raise_warning: simplefilter with a computed action')
        elif c.func.attr == 'warn':
            cat = kws.get('category', c.args[1] if len(c.args) > 1 else None)
            if not (isinstance(cat, ast.Name) and cat.id == cat_param):
                raise Skip('_raise_warning: warn() does not pass the category on')
            if not forced:
                raise Skip('_raise_warning: warn() without a preceding simplefilter("always", category): emission depends on the ambient filters')
            n += 1
        else:
            raise Skip(f'_raise_warning: warnings.{c.func.attr}')
    _RW_CACHE[repo] = n
    return n


# ---------------------------------------------------------------- one decorator level -> Lean record

def dispatch_of(lv: Level):
    """the Return structure of the level's own body"""
    own = [s for s in lv.fn.body if not isinstance(s, (ast.FunctionDef, ast.AsyncFunctionDef))]
    own = [s for s in own if not (isinstance(s, ast.Expr) and isinstance(s.value, ast.Constant))]

    def ret_name(stmts):
        if len(stmts) == 1 and isinstance(stmts[0], ast.Return) and isinstance(stmts[0].value, ast.Name):
            return stmts[0].value.id
        if len(stmts) == 1 and isinstance(stmts[0], ast.Return) and copy_call(stmts[0].value, lv) is not None:
            return copy_call(stmts[0].value, lv)          # `return update_wrapper(wrapper, func)`: the wrapper itself comes back
        return None
    if not own:
        return '.unknown', None
    last = own[-1]
    wt = None
    # if T: return A else: return B      |      if T: return A ; return B
    cand = None
    if isinstance(last, ast.If) and ret_name(last.body) and ret_name(last.orelse):
        cand = (last.test, ret_name(last.body), ret_name(last.orelse), own[:-1])
    elif len(own) >= 2 and isinstance(own[-2], ast.If) and not own[-2].orelse and ret_name(own[-2].body) and ret_name([last]):
        cand = (own[-2].test, ret_name(own[-2].body), ret_name([last]), own[:-2])
    elif isinstance(last, ast.Return) and isinstance(last.value, ast.IfExp) and isinstance(last.value.body, ast.Name) and isinstance(last.value.orelse, ast.Name):
        cand = (last.value.test, last.value.body.id, last.value.orelse.id, own[:-1])
    if cand:
        test, a, b, rest = cand
        neg = False
        while isinstance(test, ast.UnaryOp) and isinstance(test.op, ast.Not):
            neg, test = not neg, test.operand
        ct = lv.coro_test(test)
        if ct == '.wrappedIsCoroutine' and a in lv.wrapper_names and b in lv.wrapper_names:
            if neg:
                a, b = b, a
            return f'.byCoroutine {lean_str(a)} {lean_str(b)}', rest
        return '.unknown', rest
    n = ret_name([last])
    if n is not None:
        if n in lv.wrapper_names:
            return f'.always {lean_str(n)}', own[:-1]
        if n == lv.fparam:
            return '.identity', own[:-1]
    # return update_wrapper(wrapper, func) / return wraps(func)(wrapper): the wrapper itself comes back
    if isinstance(last, ast.Return) and copy_call(last.value, lv) is not None:
        return f'.always {lean_str(copy_call(last.value, lv))}', own[:-1]
    # return contextmanager(wrapper)
    if isinstance(last, ast.Return) and isinstance(last.value, ast.Call) and len(last.value.args) == 1 and isinstance(last.value.args[0], ast.Name) \
            and last.value.args[0].id in lv.wrapper_names:
        return f'.always {lean_str(last.value.args[0].id)}', own[:-1]
    return '.unknown', own[:-1]


def returned_names(lv: Level):
    out = set()
    for n in _own_nodes(lv.fn):
        if isinstance(n, ast.Return) and n.value is not None:
            for x in ast.walk(n.value):
                if isinstance(x, ast.Name):
                    out.add(x.id)
    return out


def copy_call(e, lv):
    """`update_wrapper(<wrapper>, <decorated function>)` (positional or wrapper= / wrapped=) or `wraps(<decorated function>)(<wrapper>)`
    -> name of the wrapper"""
    if not isinstance(e, ast.Call):
        return None
    f = e.func
    nm = f.attr if isinstance(f, ast.Attribute) else getattr(f, 'id', None)
    if nm == 'update_wrapper':
        kws = {k.arg: k.value for k in e.keywords}
        if set(kws) - {'wrapper', 'wrapped'}:
            return None       # assigned= / updated= given: not the plain copy
        a = list(e.args)
        w = kws.get('wrapper', a[0] if a else None)
        wd = kws.get('wrapped', a[1] if len(a) > 1 else (a[0] if a and 'wrapper' in kws else None))
        if isinstance(w, ast.Name) and w.id in lv.wrapper_names and isinstance(wd, ast.Name) and wd.id == lv.fparam:
            return w.id
        return None
    if isinstance(f, ast.Call) and len(e.args) == 1 and not e.keywords and isinstance(e.args[0], ast.Name) and e.args[0].id in lv.wrapper_names:
        g = f.func
        gn = g.attr if isinstance(g, ast.Attribute) else getattr(g, 'id', None)
        if gn == 'wraps' and len(f.args) == 1 and not f.keywords and isinstance(f.args[0], ast.Name) and f.args[0].id == lv.fparam:
            return e.args[0].id
    return None


def level_copies(lv):
    """{wrapper name: index of the own statement of the decorator level that copies the metadata onto it}"""
    out = {}
    for i, s in enumerate(lv.fn.body):
        if isinstance(s, ast.If):            # `if …: return update_wrapper(a, func) else: return update_wrapper(b, func)`
            for r in s.body + s.orelse:
                w = copy_call(r.value, lv) if isinstance(r, ast.Return) and r.value is not None else None
                if w is not None and w not in out:
                    out[w] = i
            continue
        e = None
        if isinstance(s, ast.Expr):
            e = s.value
        elif isinstance(s, ast.Return):
            e = s.value
        elif isinstance(s, ast.Assign) and len(s.targets) == 1 and isinstance(s.targets[0], ast.Name) and s.targets[0].id in lv.wrapper_names:
            e = s.value
            if copy_call(e, lv) not in (None, s.targets[0].id):
                continue
        w = copy_call(e, lv) if e is not None else None
        if w is not None and w not in out:
            out[w] = i
    return out


def has_wraps(w, fparam):
    for d in w.decorator_list:
        if isinstance(d, ast.Call) and len(d.args) == 1 and not d.keywords and isinstance(d.args[0], ast.Name) and d.args[0].id == fparam:
            f = d.func
            nm = f.attr if isinstance(f, ast.Attribute) else getattr(f, 'id', None)
            if nm == 'wraps':
                return True
    return False


def deco_time(lv: Level, rest, required):
    """decoration-time statements: counter initialisation and the overrides test"""
    counter_init = 'Option.none'
    stmts = []
    ok = True
    tr = WrapperTranslatorForLevel(lv)
    lv.counter_init_at = None
    for s in rest:
        if (isinstance(s, ast.Expr) and copy_call(s.value, lv) is not None) or \
                (isinstance(s, ast.Assign) and len(s.targets) == 1 and isinstance(s.targets[0], ast.Name) and copy_call(s.value, lv) == s.targets[0].id):
            continue          # the metadata copy as a statement: see level_copies
        if isinstance(s, ast.Assign) and len(s.targets) == 1 and isinstance(s.targets[0], ast.Attribute) and s.targets[0].attr == COUNTER_ATTR \
                and isinstance(s.targets[0].value, ast.Name) and s.targets[0].value.id in lv.wrapper_names \
                and isinstance(s.value, ast.Constant) and isinstance(s.value.value, int) and not isinstance(s.value.value, bool):
            counter_init = f'(some ({s.value.value}))'
            lv.counter_init_at = (s.targets[0].value.id, lv.fn.body.index(s))
            continue
        if isinstance(s, ast.Assign) and len(s.targets) == 1 and isinstance(s.targets[0], ast.Name) and \
                (s.targets[0].id in lv.name_aliases or s.targets[0].id in lv.coro_aliases or s.targets[0].id in lv.df_aliases):
            continue
        try:
            if isinstance(s, ast.If):
                c = tr.cond(s.test)
                t = tr.block(s.body)
                e = tr.block(s.orelse)
                if any(x.startswith(('.call', '.await', '.ret')) for x in t + e):
                    raise NotInSubset('decoration-time call / return inside a branch')
                stmts.append(f'.ite {c} [{", ".join(t)}] [{", ".join(e)}]')
                continue
            raise NotInSubset(f'decoration-time statement {ast.unparse(s)[:60]}')
        except NotInSubset as ex:
            if required:
                raise Skip(f'{lv.top.name}: {ex}')
            ok = False
    return counter_init, (f'(some [{", ".join(stmts)}])' if ok else 'Option.none')


class WrapperTranslatorForLevel(WrapperTranslator):
    """conditions / raises of the decorator level itself (no *args/**kwargs in scope)"""

    def __init__(self, lv):
        self.lv = lv
        self.vararg = self.kwarg = None
        self.locals = set()
        self.user_locals = set()
        self.renamed_var = None
        self.empty_dicts = set()
        self.fc_aliases = set()
        self.df_local = set()
        self.tmp = 0
        self.callees = {lv.fparam} | set(lv.factory_params)


def translate_level(repo, module, top, fn, enclosing, hoisted=None):
    lv = Level(repo, module, top, fn, enclosing, hoisted)
    required = top.name in REQUIRED
    disp, rest = dispatch_of(lv)
    if required and disp == '.unknown':
        raise Skip(f'{top.name}: the return statement(s) of the decorator are outside the subset')
    ret = returned_names(lv)
    copies = level_copies(lv)
    wrappers, rows = [], []
    for w in lv.wrappers:
        is_async = isinstance(w, ast.AsyncFunctionDef)
        is_gen = any(isinstance(n, (ast.Yield, ast.YieldFrom)) for n in ast.walk(w))
        wraps = (has_wraps(w, lv.fparam) and not lv.hoisted) or w.name in copies
        returned = w.name in ret
        body = 'Option.none'
        try:
            tr = WrapperTranslator(lv, w)
            b = tr.block(w.body)
            body = '(some [\n          ' + ',\n          '.join(b) + '])' if b else '(some [])'
        except NotInSubset as ex:
            if required and returned:
                raise Skip(f'{top.name}.{w.name}: {ex}')
        wrappers.append(f'      {{ name := {lean_str(w.name)}, isAsync := {lean_bool(is_async)}, isGenerator := {lean_bool(is_gen)}, wraps := {lean_bool(wraps)},\n        body := {body} }}')
        rows.append(f'  {{ module := {lean_str(module)}, deco := {lean_str(top.name)}, wrapper := {lean_str(w.name)}, isAsync := {lean_bool(is_async)}, isGenerator := {lean_bool(is_gen)}, '
                    f'wraps := {lean_bool(wraps)}, returned := {lean_bool(returned)} }}')
    counter_init, dt = deco_time(lv, rest or [], required)
    # does `<wrapper>.num_calls = k` run after the metadata copy onto that wrapper?  `@wraps` on the def copies when the def is executed
    init_after_copy = True
    if lv.counter_init_at is not None:
        wn, at = lv.counter_init_at
        wdef = [w for w in lv.wrappers if w.name == wn][0]
        if lv.hoisted:
            raise Skip(f'{top.name}: counter on a wrapper that is shared by all applications of the decorator')
        copy_at = lv.fn.body.index(wdef) if has_wraps(wdef, lv.fparam) else copies.get(wn)
        if wn in copies and has_wraps(wdef, lv.fparam):
            copy_at = max(copy_at, copies[wn])        # copied twice: the later one decides
        init_after_copy = copy_at is None or at > copy_at
    rd = getattr(lv, 'used_rename_dict', None)
    rename_dict = 'Option.none'
    if rd is not None:
        a, b = lv.rename_dicts[rd]
        rename_dict = f'(some ({lean_str(a)}, {lean_str(b)}))'
    ident = _lean_ident(top.name)
    text = (f'/-- `{top.name}` in {module}.py (decorated-function parameter `{lv.fparam}`) -/\n'
            f'def {ident} : Deco :=\n  {{ module := {lean_str(module)}, name := {lean_str(top.name)},\n    wrappers := [\n' + ',\n'.join(wrappers) + '],\n'
            f'    dispatch := {disp},\n    decoTime := {dt},\n    counterInit := {counter_init},\n    counterInitAfterCopy := {lean_bool(init_after_copy)},\n'
            f'    renameDict := {rename_dict},\n    freshWrappers := {lean_bool(not lv.hoisted)} }}\n')
    return ident, text, rows


def _lean_ident(name):
    parts = name.split('_')
    return 'd' + ''.join(p[:1].upper() + p[1:] for p in parts if p)


PRELUDE = '''namespace PedVerif.Gen.Wrappers

/-! ## The effect language the wrapper bodies are translated into (fixed part of the generated file) -/

/-- who is called: the decorated function (`func`) or the factory's function argument (`other_func`) -/
inductive Callee where
  | wrapped | other
deriving DecidableEq, Repr

/-- positional arguments of a call site: `*args`, nothing, or — through `FunctionCall._get_return_value` — `*args` unless the
    decorated callable is classified as a static or class method (then nothing) -/
inductive PosSrc where
  | args | empty | argsUnlessStaticOrClassMethod
deriving DecidableEq, Repr

/-- keyword arguments of a call site: `**kwargs`, `**<dict built by the rename loop>` or nothing -/
inductive KwSrc where
  | kwargs | renamed | empty
deriving DecidableEq, Repr

inductive Expr where
  | var (x : String)      -- a local of the wrapper
  | param                 -- the decorator factory's value argument (`return_value`)
  | none                  -- `None`
  | opaque                -- any other pure expression
deriving DecidableEq, Repr

inductive Cond where
  | eq (a b : Expr) | ne (a b : Expr) | is_ (a b : Expr) | isNot (a b : Expr)
  | wrappedIsCoroutine | otherIsCoroutine    -- `inspect.iscoroutinefunction(func | other_func)`
  -- the tests a decorator can make on its class argument `base_class` about the decorated function's name:
  | baseHasName                              -- `func.__name__ in dir(base_class)`
  | baseHasAttr                              -- `hasattr(base_class, func.__name__)`
  | baseOwnsName                             -- `func.__name__ in base_class.__dict__` / `in vars(base_class)`
  | baseAttrIsNone                           -- `getattr(base_class, func.__name__, None) is None`
  | baseAttrTruthy                           -- `getattr(base_class, func.__name__, None)` as a truth value
  | baseAttrCallable                         -- `callable(getattr(base_class, func.__name__, None))`
  | not (c : Cond)
  | and_ (a b : Cond) | or_ (a b : Cond)     -- Python's short-circuit `and` / `or` of two tests
deriving DecidableEq, Repr

/-- `except Exception` | bare `except` / `except BaseException` -/
inductive Catch where
  | exception | all
deriving DecidableEq, Repr

/-- the key under which the rename loop stores the value of key `k`: `param_dict[k]` | `k` -/
inductive KeyExpr where
  | mapped | same
deriving DecidableEq, Repr

/-- what the loop over `kwargs.items()` does with a listed / an un-listed key (`none`: stores nothing) -/
structure RenameRule where
  onListed : Option KeyExpr
  onOther : Option KeyExpr
deriving DecidableEq, Repr

/-- what a `print(…)` / an exception message makes Python format — the places where `__repr__` / `__str__` of objects of the USER run
    inside a wrapper: `{args}` (the tuple: `repr` of every positional argument), `{kwargs}` (`repr` of every value), `{x!r}`, `{x}` -/
inductive Fmt where
  | args | kwargs
  | reprOf (e : Expr)
  | strOf (e : Expr)
deriving DecidableEq, Repr

inductive Stmt where
  | print (uses : List Fmt)
  | warn (cat : String)
  | incr (k : Int)
  | pure (x : String)
  | call (x : Option String) (c : Callee) (pos : PosSrc) (kw : KwSrc) (awaited : Bool)
  | await (x : Option String) (y : String)
  | rename (r : RenameRule)
  | kwargsGuard
  | ret (e : Expr)
  | raise (cls : String) (uses : List Fmt)
  | ite (c : Cond) (t e : List Stmt)
  | tryCatch (b : List Stmt) (k : Catch) (h : List Stmt)
deriving Repr

structure Wrapper where
  name : String
  isAsync : Bool
  /-- the body contains `yield` (generator / async generator: not a coroutine function) -/
  isGenerator : Bool
  /-- carries `@wraps(<the decorated-function parameter>)` -/
  wraps : Bool
  /-- `none`: the body is outside the translated subset (only metadata / dispatch are used) -/
  body : Option (List Stmt)
deriving Repr

inductive Dispatch where
  | always (w : String)
  | byCoroutine (ifCoro otherwise : String)     -- `if inspect.iscoroutinefunction(func): return a  else: return b`
  | identity                                    -- returns the decorated function itself
  | unknown
deriving DecidableEq, Repr

structure Deco where
  module : String
  name : String
  wrappers : List Wrapper
  dispatch : Dispatch
  /-- statements the decorator runs when it is applied (`none`: not translated) -/
  decoTime : Option (List Stmt)
  counterInit : Option Int
  /-- `<wrapper>.num_calls = k` runs after the metadata copy (`@wraps` / `update_wrapper`) onto that wrapper, which brings the
      `__dict__` of the decorated callable — a `num_calls` entry included — along; vacuously true without a counter -/
  counterInitAfterCopy : Bool
  /-- `param_dict = {p.<key>: p.<value> for p in params}` -/
  renameDict : Option (String × String)
  /-- every wrapper `def` is nested in the function that receives the decorated callable: each APPLICATION of the decorator builds its
      own wrapper objects.  false: the wrapper defs sit in the enclosing factory and the decorator only dresses and hands them out — all
      applications of one decorator object share one wrapper object per wrapper name -/
  freshWrappers : Bool
deriving Repr

structure Row where
  module : String
  deco : String
  wrapper : String
  isAsync : Bool
  isGenerator : Bool
  wraps : Bool
  returned : Bool
deriving DecidableEq, Repr

/-! ## Generated from the source -/

'''


def instance_method_fact(repo):
    """DecoratedFunction.is_instance_method: does it answer False for a bound method object before it looks at the name of the first
    parameter?  Recognised texts (anything else -> Skip):
        [if inspect.ismethod(self._func) | self.is_class_method: return False]
        return self._full_arg_spec.args != [] and self._full_arg_spec.args[0] == 'self'
      or
        return not inspect.ismethod(self._func) and <the same test>
    (`is_class_method` must then be `inspect.ismethod(self._func)`, `_full_arg_spec` `inspect.getfullargspec(func)`)"""
    tree = ast.parse(src(repo, 'pedantic/models/decorated_function.py'))
    cls = [c for c in tree.body if isinstance(c, ast.ClassDef) and c.name == 'DecoratedFunction']
    if not cls:
        raise Skip('DecoratedFunction not found')
    ms = {m.name: m for m in cls[0].body if isinstance(m, ast.FunctionDef)}
    if 'is_instance_method' not in ms or '__init__' not in ms:
        raise Skip('DecoratedFunction.is_instance_method not found')
    if 'self._full_arg_spec=inspect.getfullargspec(func)' not in {_norm(x) for x in ms['__init__'].body} \
            or 'self._func=func' not in {_norm(x) for x in ms['__init__'].body}:
        raise Skip('DecoratedFunction.__init__: _full_arg_spec / _func are not what they used to be')
    base = ("self._full_arg_spec.args!=[]andself._full_arg_spec.args[0]=='self'", "bool(self._full_arg_spec.args)andself._full_arg_spec.args[0]=='self'")

    def is_bound_test(e):
        t = _norm(e)
        if t in ('inspect.ismethod(self._func)', 'ismethod(self._func)'):
            return True
        if t == 'self.is_class_method':
            icm = ms.get('is_class_method')
            body = [b for b in icm.body if not (isinstance(b, ast.Expr) and isinstance(b.value, ast.Constant))] if icm else []
            return len(body) == 1 and _norm(body[0]) in ('returninspect.ismethod(self._func)', 'returnismethod(self._func)')
        return False
    body = [b for b in ms['is_instance_method'].body if not (isinstance(b, ast.Expr) and isinstance(b.value, ast.Constant))]
    if len(body) == 1 and isinstance(body[0], ast.Return):
        v = body[0].value
        if _norm(v) in base:
            return False
        if isinstance(v, ast.BoolOp) and isinstance(v.op, ast.And) and isinstance(v.values[0], ast.UnaryOp) and isinstance(v.values[0].op, ast.Not) \
                and is_bound_test(v.values[0].operand):
            rest = v.values[1] if len(v.values) == 2 else ast.BoolOp(op=ast.And(), values=v.values[1:])
            if _norm(rest) in base or _norm(rest) in tuple('(' + b + ')' for b in base):
                return True
    if len(body) == 2 and isinstance(body[0], ast.If) and not body[0].orelse and is_bound_test(body[0].test) \
            and len(body[0].body) == 1 and _norm(body[0].body[0]) == 'returnFalse' and isinstance(body[1], ast.Return) and _norm(body[1].value) in base:
        return True
    raise Skip('DecoratedFunction.is_instance_method is outside the recognised texts')


def class_decorators(repo):
    """trace_class -> trace …: `return for_all_methods(decorator=X)(cls=cls)`; plus the facts about the member loop"""
    tree = ast.parse(src(repo, 'pedantic/decorators/class_decorators.py'))
    pairs = []
    for n in tree.body:
        if isinstance(n, ast.FunctionDef):
            rets = [s for s in n.body if isinstance(s, ast.Return)]
            if len(rets) == 1 and isinstance(rets[0].value, ast.Call) and isinstance(rets[0].value.func, ast.Call) \
                    and getattr(rets[0].value.func.func, 'id', None) == 'for_all_methods':
                inner = rets[0].value.func
                a = [k.value for k in inner.keywords if k.arg == 'decorator'] + list(inner.args)
                if len(a) == 1 and isinstance(a[0], ast.Name):
                    pairs.append((n.name, a[0].id))
    # the member loop of for_all_methods
    fam = [n for n in tree.body if isinstance(n, ast.FunctionDef) and n.name == 'for_all_methods']
    uses_getattr = replaces_with_plain = handles_property = False
    member_types = []
    if fam:
        for n in ast.walk(fam[0]):
            if isinstance(n, ast.Assign) and isinstance(n.value, ast.Call) and getattr(n.value.func, 'id', None) == 'getattr':
                uses_getattr = True
            if isinstance(n, ast.Call) and getattr(n.func, 'id', None) == 'isinstance' and len(n.args) == 2:
                t = n.args[1]
                names = [ast.unparse(x).split('.')[-1] for x in (t.elts if isinstance(t, ast.Tuple) else [t])]
                if 'property' in names:
                    handles_property = True
                else:
                    member_types += names
            if isinstance(n, ast.Call) and getattr(n.func, 'id', None) == 'setattr' and len(n.args) == 3 and isinstance(n.args[2], ast.Call) \
                    and getattr(n.args[2].func, 'id', None) == 'decorator':
                replaces_with_plain = True
    slots, keeps_missing = property_rebuild(tree, fam[0]) if (fam and handles_property) else ([], False)
    return pairs, uses_getattr, replaces_with_plain, handles_property, sorted(set(member_types)), slots, keeps_missing


PROPERTY_SLOTS = ('fget', 'fset', 'fdel')


def _wrap_helper_ok(tree, name):
    """`def <name>(prop, decorator)`: `return decorator(prop) if prop is not None else None` (or the mirrored conditional, or
    `if prop is None: return None` + `return decorator(prop)`) -> (name of the accessor parameter, name of the decorator parameter)"""
    fn = [n for n in tree.body if isinstance(n, ast.FunctionDef) and n.name == name]
    if len(fn) != 1:
        raise Skip(f'for_all_methods: helper {name} not found')
    fn = fn[0]
    ps = _params(fn)
    if len(ps) != 2 or fn.args.vararg or fn.args.kwarg:
        raise Skip(f'{name}: parameters')
    body = [b for b in fn.body if not (isinstance(b, ast.Expr) and isinstance(b.value, ast.Constant))]

    def applied(e, a, d):
        return isinstance(e, ast.Call) and isinstance(e.func, ast.Name) and e.func.id == d and not e.keywords and len(e.args) == 1 \
            and isinstance(e.args[0], ast.Name) and e.args[0].id == a

    def none(e):
        return isinstance(e, ast.Constant) and e.value is None
    for a, d in ((ps[0], ps[1]), (ps[1], ps[0])):
        if len(body) == 1 and isinstance(body[0], ast.Return) and isinstance(body[0].value, ast.IfExp):
            ie = body[0].value
            t = _norm(ie.test)
            # an accessor is a function or None: `is not None`, its truth value and `callable(…)` say the same
            if t in (f'{a}isnotNone', a, f'callable({a})', f'None!={a}', f'{a}!=None', f'Noneisnot{a}') and applied(ie.body, a, d) and none(ie.orelse):
                return a, d
            if t in (f'{a}isNone', f'not{a}', f'{a}==None', f'Noneis{a}') and none(ie.body) and applied(ie.orelse, a, d):
                return a, d
        if len(body) == 2 and isinstance(body[0], ast.If) and not body[0].orelse and _norm(body[0].test) in (f'{a}isNone', f'not{a}') \
                and len(body[0].body) == 1 and _norm(body[0].body[0]) == 'returnNone' and isinstance(body[1], ast.Return) and applied(body[1].value, a, d):
            return a, d
    raise Skip(f'{name}: not `decorator(accessor) if accessor is not None else None`')


def property_rebuild(tree, fam):
    """how for_all_methods rebuilds a property member: [(slot of the NEW property, accessor of the OLD one it is built from)] and whether
    a missing accessor stays missing (an existing one is passed through the decorator exactly once).  Recognised: in the branch guarded by
    `isinstance(<member>, property)`, `property(fget=E1, fset=E2, fdel=E3)` / `property(E1, E2, E3)` (directly inside setattr or through one
    local), every Ei — directly or through one local — `<helper>(prop=<member>.<acc>, decorator=<the decorator parameter>)` with the helper
    text checked by `_wrap_helper_ok`.  Anything else (a list of the existing accessors splatted into property(), a slot left out, a
    computed slot) -> Skip."""
    deco_param = None
    for a in ast.walk(tree):
        if isinstance(a, ast.FunctionDef) and a.name == 'for_all_methods':
            deco_param = _first_param(a)
    branch = None
    for n in ast.walk(fam):
        if isinstance(n, ast.If) and isinstance(n.test, ast.Call) and getattr(n.test.func, 'id', None) == 'isinstance' and len(n.test.args) == 2 \
                and 'property' in [ast.unparse(x).split('.')[-1] for x in (n.test.args[1].elts if isinstance(n.test.args[1], ast.Tuple) else [n.test.args[1]])] \
                and isinstance(n.test.args[0], ast.Name):
            if branch is not None:
                raise Skip('for_all_methods: two property branches')
            branch = n
    if branch is None:
        raise Skip('for_all_methods: property branch not found')
    member = {branch.test.args[0].id}
    local = {}
    built = None
    for st in branch.body:
        if isinstance(st, (ast.Assign, ast.AnnAssign)):
            tgt = st.targets[0] if isinstance(st, ast.Assign) and len(st.targets) == 1 else getattr(st, 'target', None)
            if not isinstance(tgt, ast.Name) or st.value is None:
                raise Skip('for_all_methods: assignment in the property branch')
            if isinstance(st.value, ast.Name) and st.value.id in member:
                member.add(tgt.id)
            else:
                if tgt.id in local:
                    raise Skip('for_all_methods: a local of the property branch is assigned twice')
                local[tgt.id] = st.value
        elif isinstance(st, ast.Expr) and isinstance(st.value, ast.Call) and getattr(st.value.func, 'id', None) == 'setattr' and len(st.value.args) == 3:
            if built is not None:
                raise Skip('for_all_methods: two setattr in the property branch')
            built = st.value.args[2]
        elif isinstance(st, ast.Expr) and isinstance(st.value, ast.Constant):
            continue
        else:
            raise Skip(f'for_all_methods: statement in the property branch: {ast.unparse(st)[:60]}')

    def resolve(e):
        return local[e.id] if isinstance(e, ast.Name) and e.id in local else e
    built = resolve(built) if built is not None else None
    if not (isinstance(built, ast.Call) and getattr(built.func, 'id', None) == 'property'):
        raise Skip('for_all_methods: the property member is not replaced by property(...)')
    if any(isinstance(a, ast.Starred) for a in built.args) or any(k.arg is None for k in built.keywords) or len(built.args) > 3:
        raise Skip('for_all_methods: property(...) is built from a computed argument list')
    given = dict(zip(PROPERTY_SLOTS, built.args))
    for k in built.keywords:
        if k.arg in PROPERTY_SLOTS:
            if k.arg in given:
                raise Skip('for_all_methods: property slot given twice')
            given[k.arg] = k.value
        elif k.arg != 'doc':
            raise Skip(f'for_all_methods: property({k.arg}=…)')
    helpers = {}
    slots = []
    for slot in PROPERTY_SLOTS:
        if slot not in given:
            continue
        e = resolve(given[slot])
        if isinstance(e, ast.Constant) and e.value is None:
            continue
        if not (isinstance(e, ast.Call) and isinstance(e.func, ast.Name) and len(e.args) + len(e.keywords) == 2):
            raise Skip(f'for_all_methods: slot {slot} of the rebuilt property: {ast.unparse(e)[:60]}')
        h = e.func.id
        if h not in helpers:
            helpers[h] = _wrap_helper_ok(tree, h)
        a_name, d_name = helpers[h]
        hp = _params([n for n in tree.body if isinstance(n, ast.FunctionDef) and n.name == h][0])
        args = dict(zip(hp, e.args))
        args.update({k.arg: k.value for k in e.keywords})
        acc, dec = args.get(a_name), args.get(d_name)
        if not (isinstance(dec, ast.Name) and dec.id == deco_param):
            raise Skip(f'for_all_methods: slot {slot} is not wrapped with the decorator parameter')
        if not (isinstance(acc, ast.Attribute) and acc.attr in PROPERTY_SLOTS and isinstance(acc.value, ast.Name) and acc.value.id in member):
            raise Skip(f'for_all_methods: slot {slot} is not built from an accessor of the member')
        slots.append((slot, acc.attr))
    return slots, True


def _describe_helper_ok(repo):
    """`check_types._describe(value)` is `try: return str(value)` / `except Exception|BaseException: return object.__repr__(value)`:
    formatting a tuple of arguments through it can never raise (the repr of an element that raises ends in the fallback)"""
    try:
        tree = ast.parse(src(repo, 'pedantic/type_checking_logic/check_types.py'))
    except (OSError, SyntaxError):
        return False
    fns = [n for n in tree.body if isinstance(n, ast.FunctionDef) and n.name == '_describe']
    if len(fns) != 1 or len(fns[0].args.args) != 1:
        return False
    arg = fns[0].args.args[0].arg
    body = [b for b in fns[0].body if not (isinstance(b, ast.Expr) and isinstance(b.value, ast.Constant))]
    if len(body) != 1 or not isinstance(body[0], ast.Try):
        return False
    t = body[0]
    if t.finalbody or t.orelse or len(t.handlers) != 1 or len(t.body) != 1 or len(t.handlers[0].body) != 1:
        return False
    h = t.handlers[0]
    caught = ast.unparse(h.type) if h.type is not None else 'BaseException'
    ok_try = isinstance(t.body[0], ast.Return) and ast.unparse(t.body[0].value) in (f'str({arg})', f'repr({arg})')
    ok_exc = isinstance(h.body[0], ast.Return) and ast.unparse(h.body[0].value) == f'object.__repr__({arg})'
    return ok_try and ok_exc and caught in ('Exception', 'BaseException')


def refusal_message_fact(repo):
    """FunctionCall.assert_uses_kwargs: does the message of the PedanticCallWithArgsException format the refused arguments themselves
    (`{self.args_without_self}`: `repr` of every argument runs) — True — or through the never-raising display wrapper
    (`{_shown_args(self.args_without_self)}`, `{_describe(self.args_without_self)}`) / not at all — False.  Anything else: Skip."""
    tree = ast.parse(src(repo, 'pedantic/models/function_call.py'))
    cls = [c for c in tree.body if isinstance(c, ast.ClassDef) and c.name == 'FunctionCall']
    fn = [m for m in (cls[0].body if cls else []) if isinstance(m, ast.FunctionDef) and m.name == 'assert_uses_kwargs']
    if not fn:
        raise Skip('FunctionCall.assert_uses_kwargs not found')
    raises = [n for n in ast.walk(fn[0]) if isinstance(n, ast.Raise)]
    if len(raises) != 1 or not isinstance(raises[0].exc, ast.Call):
        raise Skip('FunctionCall.assert_uses_kwargs: not exactly one `raise X(...)`')
    raw = False
    for a in list(raises[0].exc.args) + [k.value for k in raises[0].exc.keywords]:
        vals = [v for v in ast.walk(a) if isinstance(v, ast.FormattedValue)]
        if not isinstance(a, (ast.JoinedStr, ast.Constant)):
            raise Skip('FunctionCall.assert_uses_kwargs: the message is not a (formatted) string literal')
        for v in vals:
            t = _norm(v.value)
            if t in ('self.func.err', 'self.func.name'):
                continue
            if t in ('self.args_without_self', 'self.args', 'self._args'):
                raw = True
            elif t in ('_shown_args(self.args_without_self)', '_shown_args(self.args)') :
                if not _shown_helpers_ok(repo):
                    raw = True
            elif t in ('_describe(self.args_without_self)', '_describe(self.args)'):
                if not _describe_helper_ok(repo):       # check_types._describe: str(value), falling back to object.__repr__(value)
                    raw = True
            else:
                raise Skip(f'FunctionCall.assert_uses_kwargs: the message formats {ast.unparse(v.value)[:40]}')
    return raw


def gen_wrappers(repo):
    SHOWN_USES[repo] = 0
    root = os.path.join(repo, 'pedantic', 'decorators')
    files = []
    for dp, dn, fn in os.walk(root):
        dn.sort()
        for f in sorted(fn):
            if f.endswith('.py') and f.startswith('fn_deco_'):
                files.append(os.path.relpath(os.path.join(dp, f), repo))
    files.sort()
    defs, rows, idents, names = [], [], [], []
    for rel in files:
        tree = ast.parse(src(repo, rel))
        module = os.path.basename(rel)[:-3]
        for top in [n for n in tree.body if isinstance(n, (ast.FunctionDef, ast.AsyncFunctionDef))]:
            for fn, enclosing, hoisted in decorator_levels(top):
                ident, text, r = translate_level(repo, module, top, fn, enclosing, hoisted)
                if ident in idents:
                    raise Skip(f'two decorator levels in {top.name}')
                idents.append(ident)
                names.append(top.name)
                defs.append(text)
                rows += r
    missing = [d for d in REQUIRED if d not in names]
    if missing:
        raise Skip(f'decorators not found: {missing}')
    pairs, uses_getattr, plain, handles_property, member_types, prop_slots, keeps_missing = class_decorators(repo)
    excludes_bound = instance_method_fact(repo)
    refusal_raw = refusal_message_fact(repo)
    out = HEADER.format(rel='pedantic/decorators/**/fn_deco_*.py, class_decorators.py, helper_methods.py, models/decorated_function.py') + PRELUDE
    out += '\n'.join(defs)
    out += '\n/-- every decorator level found, in file order -/\ndef decos : List Deco := [' + ', '.join(idents) + ']\n'
    out += '\n/-- one row per nested `def …(*args, **kwargs)` -/\ndef wrapperTable : List Row := [\n' + ',\n'.join(rows) + ']\n'
    out += '\n/-- `<x>_class` = `for_all_methods(decorator=<x>)` -/\ndef classDecorators : List (String × String) := [' + \
           ', '.join(f'({lean_str(a)}, {lean_str(b)})' for a, b in pairs) + ']\n'
    out += f'''
/-- `for_all_methods` reads members with `getattr(cls, attr)` (descriptors are unwrapped / bound) -/
def membersReadWithGetattr : Bool := {lean_bool(uses_getattr)}
/-- … and stores `decorator(attr_value)` itself (a plain function) back with `setattr` -/
def membersStoredAsPlainFunction : Bool := {lean_bool(plain)}
/-- the `isinstance(attr_value, (…))` test that selects the members to decorate -/
def memberTypes : List String := [{", ".join(lean_str(t) for t in member_types)}]
/-- property objects are rebuilt from decorated fget/fset/fdel -/
def propertiesHandled : Bool := {lean_bool(handles_property)}
/-- `property(fget=…, fset=…, fdel=…)` of the rebuilt property: (slot of the NEW property, accessor of the OLD property it is built from);
    a slot that is not listed stays empty -/
def rebuiltPropertySlots : List (String × String) := [{", ".join(f"({lean_str(a)}, {lean_str(b)})" for a, b in prop_slots)}]
/-- every listed slot is `decorator(accessor) if accessor is not None else None`: a missing accessor stays missing, an existing one is
    passed through the decorator exactly once -/
def missingAccessorStaysMissing : Bool := {lean_bool(keeps_missing)}

/-- `DecoratedFunction.is_instance_method` (what `FunctionCall` uses to take `args[0]` as the instance and to strip it from the
    arguments it complains about) answers False for a BOUND method object (`inspect.ismethod(func)`: `require_kwargs(obj.method)`)
    before it looks whether the first parameter `getfullargspec` lists is spelled `self`; false: it only looks at that name -/
def instanceMethodExcludesBound : Bool := {lean_bool(excludes_bound)}

/-- `helper_methods._Shown` is, literally, the display wrapper whose `__repr__` / `__str__` are `try: return repr|str(self._value)` /
    `except Exception: return object.__repr__(self._value)`, and `_shown_args` / `_shown_kwargs` wrap every element / value in it -/
def displayWrapperNeverRaises : Bool := {lean_bool(_shown_helpers_ok(repo))}
/-- how many values of the user (arguments, results) the wrapper bodies above format THROUGH that wrapper; a value formatted without
    it appears as `.args` / `.kwargs` / `.reprOf` / `.strOf` in the `print` / `raise` statement that formats it -/
def formattedThroughDisplayWrapper : Nat := {SHOWN_USES.get(repo, 0)}
/-- the message of the `PedanticCallWithArgsException` raised by `FunctionCall.assert_uses_kwargs` formats the refused arguments
    themselves (`repr` of every one runs), not through the display wrapper -/
def refusalMessageFormatsRawArguments : Bool := {lean_bool(refusal_raw)}

end PedVerif.Gen.Wrappers
'''
    return out


FILES = {'Wrappers.lean': gen_wrappers}
