"""Translator part for the type checker (C01 C02 C06 C08 C10): tables and straight-line facts of
pedantic/type_checking_logic/check_types.py, read with `ast` only."""
import ast
from extract import Skip, src, find_func, lean_bool, lean_str, HEADER, CMP

REL = 'pedantic/type_checking_logic/check_types.py'


def module_assign(tree, name):
    for n in tree.body:
        if isinstance(n, ast.Assign) and len(n.targets) == 1 and isinstance(n.targets[0], ast.Name) and n.targets[0].id == name:
            return n.value
    raise Skip(f'module-level assignment {name} not found')


def dict_str_int(node, what):
    if not isinstance(node, ast.Dict):
        raise Skip(f'{what} is not a dict literal')
    out = []
    for k, v in zip(node.keys, node.values):
        if not (isinstance(k, ast.Constant) and isinstance(k.value, str) and isinstance(v, ast.Constant) and isinstance(v.value, int)):
            raise Skip(f'{what}: entry is not str -> int')
        out.append((k.value, v.value))
    return out


def names_of_set(node, what):
    if not isinstance(node, (ast.Set, ast.List, ast.Tuple)):
        raise Skip(f'{what} is not a set/list literal')
    out = []
    for e in node.elts:
        if not isinstance(e, ast.Name):
            raise Skip(f'{what}: element is not a name')
        out.append(e.id)
    return out


def lean_list(items):
    return '[' + ', '.join(items) + ']'


def quantifier_of_return(fn, what):
    """the last `return all(...)` / `return any(...)` of a checker: (name, short_circuit?)"""
    rets = [n for n in ast.walk(fn) if isinstance(n, ast.Return) and isinstance(n.value, ast.Call)
            and isinstance(n.value.func, ast.Name) and n.value.func.id in ('all', 'any')]
    if not rets:
        raise Skip(f'{what}: no `return all(...)`/`return any(...)`')
    r = rets[-1].value
    arg = r.args[0]
    lazy = isinstance(arg, ast.GeneratorExp)
    return r.func.id, lazy, arg


def gen_typetables(repo):
    tree = ast.parse(src(repo, REL))
    exact = dict_str_int(module_assign(tree, 'NUM_OF_REQUIRED_TYPE_ARGS_EXACT'), 'NUM_OF_REQUIRED_TYPE_ARGS_EXACT')
    minimum = dict_str_int(module_assign(tree, 'NUM_OF_REQUIRED_TYPE_ARGS_MIN'), 'NUM_OF_REQUIRED_TYPE_ARGS_MIN')

    # _has_required_type_arguments: the two comparisons
    fn = find_func(tree, '_has_required_type_arguments')
    ifs = [s for s in fn.body if isinstance(s, ast.If)]
    if len(ifs) != 1:
        raise Skip('_has_required_type_arguments: expected one if/elif chain')
    top = ifs[0]

    def table_cmp(ifnode, table):
        t = ifnode.test
        if not (isinstance(t, ast.Compare) and isinstance(t.ops[0], ast.In) and isinstance(t.comparators[0], ast.Name)
                and t.comparators[0].id == table):
            raise Skip(f'_has_required_type_arguments: test is not `base in {table}`')
        if len(ifnode.body) != 1 or not isinstance(ifnode.body[0], ast.Return):
            raise Skip('_has_required_type_arguments: branch is not a single return')
        c = ifnode.body[0].value
        if not (isinstance(c, ast.Compare) and len(c.ops) == 1 and type(c.ops[0]) in CMP):
            raise Skip('_has_required_type_arguments: return is not a comparison')
        left_is_table = isinstance(c.left, ast.Subscript)
        op = CMP[type(c.ops[0])]
        # normalise to  <required> op <given>
        if not left_is_table:
            op = {'<': '>', '≤': '≥', '>': '<', '≥': '≤', '=': '=', '≠': '≠'}[op]
        return op
    op_exact = table_cmp(top, 'NUM_OF_REQUIRED_TYPE_ARGS_EXACT')
    if len(top.orelse) != 1 or not isinstance(top.orelse[0], ast.If):
        raise Skip('_has_required_type_arguments: no elif')
    op_min = table_cmp(top.orelse[0], 'NUM_OF_REQUIRED_TYPE_ARGS_MIN')
    tail = fn.body[fn.body.index(top) + 1:]
    default_true = (len(tail) == 1 and isinstance(tail[0], ast.Return) and isinstance(tail[0].value, ast.Constant)
                    and tail[0].value.value is True and not top.orelse[0].orelse)
    if not default_true:
        raise Skip('_has_required_type_arguments: default is not `return True`')

    # origin -> checker registry
    origin_rows = None
    for n in tree.body:
        if isinstance(n, ast.For) and isinstance(n.iter, ast.Call) and isinstance(n.iter.func, ast.Attribute) \
                and n.iter.func.attr == 'items' and isinstance(n.iter.func.value, ast.Dict):
            d = n.iter.func.value
            rows = []
            for k, v in zip(d.keys, d.values):
                if not (isinstance(k, ast.Constant) and isinstance(k.value, str) and isinstance(v, ast.Name)):
                    raise Skip('_ORIGIN_TYPE_CHECKERS: row is not str -> name')
                rows.append((k.value, v.id))
            origin_rows = rows
    if origin_rows is None:
        raise Skip('_ORIGIN_TYPE_CHECKERS loop not found')

    special = module_assign(tree, '_SPECIAL_INSTANCE_CHECKERS')
    if not isinstance(special, ast.Dict):
        raise Skip('_SPECIAL_INSTANCE_CHECKERS is not a dict literal')
    special_rows = []
    for k, v in zip(special.keys, special.values):
        if not (isinstance(k, ast.Constant) and isinstance(k.value, str)):
            raise Skip('_SPECIAL_INSTANCE_CHECKERS: key is not a string')
        if isinstance(v, ast.Name):
            special_rows.append((k.value, v.id))
        elif isinstance(v, ast.Lambda) and isinstance(v.body, ast.Constant) and v.body.value is True:
            special_rows.append((k.value, 'const_true'))
        elif isinstance(v, ast.Lambda) and isinstance(v.body, ast.Constant) and v.body.value is False:
            special_rows.append((k.value, 'const_false'))
        else:
            raise Skip('_SPECIAL_INSTANCE_CHECKERS: value is neither a name nor a constant lambda')

    # bare builtin set in _is_instance
    isin = find_func(tree, '_is_instance')
    bare = None
    for n in ast.walk(isin):
        if isinstance(n, ast.If) and isinstance(n.test, ast.Compare) and isinstance(n.test.ops[0], ast.In) \
                and isinstance(n.test.comparators[0], (ast.Set, ast.List, ast.Tuple)) and n.body and isinstance(n.body[0], ast.Raise):
            exc = n.body[0].exc
            exc_name = exc.func.id if isinstance(exc, ast.Call) and isinstance(exc.func, ast.Name) else '?'
            bare = (names_of_set(n.test.comparators[0], 'bare builtin set'), exc_name)
    if bare is None:
        raise Skip('_is_instance: `if type_ in {...}: raise` not found')

    # is the required-type-args test the first statement of _is_instance?
    stmts = [s for s in isin.body if not (isinstance(s, ast.Expr) and isinstance(s.value, ast.Constant))]
    first_is_required = False
    for s in stmts[:3]:
        if isinstance(s, ast.If) and isinstance(s.test, ast.UnaryOp) and isinstance(s.test.op, ast.Not) \
                and isinstance(s.test.operand, ast.Call) and isinstance(s.test.operand.func, ast.Name) \
                and s.test.operand.func.id == '_has_required_type_arguments' and isinstance(s.body[0], ast.Raise):
            first_is_required = all(isinstance(x, ast.Assign) for x in stmts[:stmts.index(s)])
    # does the generic branch test isinstance(obj, origin) before dispatching?
    generic_isinstance = False
    for n in ast.walk(isin):
        if isinstance(n, ast.If) and isinstance(n.test, ast.Call) and isinstance(n.test.func, ast.Name) and n.test.func.id == '_is_generic':
            for s in n.body:
                if isinstance(s, ast.If) and isinstance(s.test, ast.UnaryOp) and isinstance(s.test.op, ast.Not) \
                        and isinstance(s.test.operand, ast.Call) and isinstance(s.test.operand.func, ast.Name) \
                        and s.test.operand.func.id == 'isinstance' and isinstance(s.body[0], ast.Return) \
                        and isinstance(s.body[0].value, ast.Constant) and s.body[0].value.value is False:
                    generic_isinstance = True

    # _is_subtype, Union super type: exact membership (`sub_type in type_args`) or some member is a super type (any(_is_subtype(..)));
    # _get_class_of_type_annotation: `__origin__` read with getattr (a ForwardRef has none)
    ist = find_func(tree, '_is_subtype')
    union_by_subtype = False
    union_exact = False
    for n in ast.walk(ist):
        if isinstance(n, ast.Return) and n.value is not None:
            txt = ast.unparse(n.value)
            if txt.startswith('any(') and '_is_subtype(' in txt and 'sub_type=sub_type' in txt.replace(' ', '') and 'type_args' in txt:
                union_by_subtype = True
            if txt.replace(' ', '') == 'sub_typeintype_args':
                union_exact = True
    gc = find_func(tree, '_get_class_of_type_annotation')
    class_of_guards_origin = "getattr(annotation, '__origin__', None)" in ast.unparse(gc) and 'annotation.__origin__ is not None' not in ast.unparse(gc)
    if union_by_subtype == union_exact:
        raise Skip('_is_subtype: the last statement of the Union branch is neither the membership test nor any(_is_subtype(..))')
    # _check_type: guard of the None base in the string branch; the last except arm
    ct = find_func(tree, '_check_type')
    guards_none_base = False
    catch_all = []
    none_branch_eq = False
    # the string branch of _check_type: does it look the name up in the context (and use isinstance on a class found there);
    # does it compare the name with the names of the whole MRO (or only of the class and its first base)
    str_ctx = False
    str_mro = False
    for n in ast.walk(ct):
        if isinstance(n, ast.If) and isinstance(n.test, ast.Call) and isinstance(n.test.func, ast.Name) and n.test.func.id == 'isinstance' \
                and len(n.test.args) == 2 and isinstance(n.test.args[1], ast.Name) and n.test.args[1].id == 'str':
            body = ast.Module(body=n.body, type_ignores=[])
            looked_up = set()
            for m in ast.walk(body):
                if isinstance(m, ast.Assign) and isinstance(m.value, ast.Call) and isinstance(m.value.func, ast.Attribute) \
                        and m.value.func.attr == 'get' and 'context' in ast.unparse(m.value.func.value) \
                        and len(m.value.args) == 1 and ast.unparse(m.value.args[0]) == 'type_':
                    looked_up |= {t.id for t in m.targets if isinstance(t, ast.Name)}
            for m in ast.walk(body):
                if isinstance(m, ast.If) and isinstance(m.test, ast.Call) and ast.unparse(m.test.func) == 'isinstance' \
                        and len(m.test.args) == 2 and ast.unparse(m.test.args[0]) in looked_up and ast.unparse(m.test.args[1]) == 'type' \
                        and len(m.body) == 1 and isinstance(m.body[0], ast.Return) \
                        and ast.unparse(m.body[0].value) in {f'isinstance(value, {v})' for v in looked_up}:
                    str_ctx = True
                if isinstance(m, ast.Return) and isinstance(m.value, ast.Call) and ast.unparse(m.value.func) == 'any' and len(m.value.args) == 1 \
                        and isinstance(m.value.args[0], (ast.GeneratorExp, ast.ListComp)):
                    g = m.value.args[0]
                    it = ast.unparse(g.generators[0].iter)
                    el = ast.unparse(g.elt)
                    var = ast.unparse(g.generators[0].target)
                    if it in ('type(value).__mro__', 'value.__class__.__mro__') and not g.generators[0].ifs \
                            and el in (f'{var}.__name__ == type_', f'type_ == {var}.__name__'):
                        str_mro = True
    for n in ast.walk(ct):
        if isinstance(n, ast.IfExp) and isinstance(n.test, ast.Compare) and isinstance(n.test.ops[0], ast.IsNot) \
                and isinstance(n.test.comparators[0], ast.Constant) and n.test.comparators[0].value is None:
            guards_none_base = True
        if isinstance(n, ast.Try):
            h = n.handlers[-1]
            if isinstance(h.type, ast.Tuple):
                catch_all = [e.id for e in h.type.elts if isinstance(e, ast.Name)]
            elif isinstance(h.type, ast.Name):
                catch_all = [h.type.id]
            elif h.type is None:
                catch_all = ['BaseException']
            handler_names = []
            for hh in n.handlers:
                handler_names.append(hh.type.id if isinstance(hh.type, ast.Name) else '|'.join(catch_all))
        if isinstance(n, ast.If) and isinstance(n.test, ast.Compare) and isinstance(n.test.ops[0], ast.Is) \
                and isinstance(n.test.comparators[0], ast.Constant) and n.test.comparators[0].value is None \
                and isinstance(n.body[0], ast.Return) and isinstance(n.body[0].value, ast.Compare) \
                and isinstance(n.body[0].value.ops[0], ast.Eq):
            none_branch_eq = True
    if not catch_all:
        raise Skip('_check_type: try/except not found')

    # element loops
    it = find_func(tree, '_instancecheck_iterable')
    q_it, lazy_it, _ = quantifier_of_return(it, '_instancecheck_iterable')
    iterator_skip = any(isinstance(n, ast.If) and isinstance(n.test, ast.Call) and isinstance(n.test.func, ast.Name)
                        and n.test.func.id == 'isinstance' and 'Iterator' in ast.unparse(n.test)
                        and isinstance(n.body[0], ast.Return) and isinstance(n.body[0].value, ast.Constant)
                        and n.body[0].value.value is True for n in it.body)
    iv = find_func(tree, '_instancecheck_items_view')
    q_iv, lazy_iv, arg_iv = quantifier_of_return(iv, '_instancecheck_items_view')
    elt = arg_iv.elt if isinstance(arg_iv, (ast.GeneratorExp, ast.ListComp)) else None
    if isinstance(elt, ast.BoolOp) and len(elt.values) == 2:
        conj = 'and' if isinstance(elt.op, ast.And) else 'or'
        parts = [ast.unparse(v) for v in elt.values]
        checks_key = 'key' in parts[0]
        checks_val = 'val' in parts[1]
    else:
        conj = 'single'
        txt = ast.unparse(elt) if elt is not None else ''
        checks_key = 'obj=key' in txt or '(key' in txt
        checks_val = 'obj=val' in txt or '(val' in txt
    tp = find_func(tree, '_instancecheck_tuple')
    q_tp, lazy_tp, _ = quantifier_of_return(tp, '_instancecheck_tuple')
    length_test = any(isinstance(n, ast.If) and isinstance(n.test, ast.Compare) and isinstance(n.test.ops[0], ast.NotEq)
                      and 'len(tup)' in ast.unparse(n.test) and 'len(type_args)' in ast.unparse(n.test)
                      and isinstance(n.body[0], ast.Return) and isinstance(n.body[0].value, ast.Constant)
                      and n.body[0].value.value is False for n in tp.body)
    cu = find_func(tree, '_check_union')
    union_q = None
    for n in ast.walk(cu):
        if isinstance(n, ast.Assign) and isinstance(n.targets[0], ast.Name) and n.targets[0].id == 'matches_non_type_var' \
                and isinstance(n.value, ast.Call) and isinstance(n.value.func, ast.Name):
            union_q = (n.value.func.id, isinstance(n.value.args[0], ast.GeneratorExp),
                       isinstance(n.value.args[0], (ast.GeneratorExp, ast.ListComp)) and not n.value.args[0].generators[0].ifs
                       and ast.unparse(n.value.args[0].generators[0].iter) == 'args_non_type_vars')
    if union_q is None:
        raise Skip('_check_union: matches_non_type_var not found')
    lit = find_func(tree, '_instancecheck_literal')
    lit_ret = [n for n in lit.body if isinstance(n, ast.Return)]
    literal_is_membership = bool(lit_ret) and isinstance(lit_ret[-1].value, ast.Compare) and isinstance(lit_ret[-1].value.ops[0], ast.In) \
        and ast.unparse(lit_ret[-1].value.left) == 'value'

    # convert_to_typing_types
    cv = find_func(tree, 'convert_to_typing_types')
    conv_bare = None
    conv_guard = 'other'
    conv_origins = []
    alias_fallback = False
    for n in cv.body:
        if isinstance(n, ast.If) and isinstance(n.test, ast.Compare) and isinstance(n.test.ops[0], ast.In) \
                and isinstance(n.test.comparators[0], (ast.Set, ast.List, ast.Tuple)) and isinstance(n.body[0], ast.Raise):
            conv_bare = names_of_set(n.test.comparators[0], 'convert bare set')
        if isinstance(n, ast.If) and isinstance(n.test, ast.UnaryOp) and isinstance(n.test.op, ast.Not) and isinstance(n.body[0], ast.Return) \
                and ast.unparse(n.body[0].value) == 'x':
            t = ast.unparse(n.test.operand)
            conv_guard = 'isGenericAlias' if t == 'isinstance(x, types.GenericAlias)' else ('hasOrigin' if t == "hasattr(x, '__origin__')" else 'other')
        if isinstance(n, ast.If) and isinstance(n.test, ast.Compare) and isinstance(n.test.ops[0], ast.Is) and ast.unparse(n.test.left) == 'origin':
            node = n
            while True:
                conv_origins.append((ast.unparse(node.test.comparators[0]), ast.unparse(node.body[0].value).split('[')[0] if isinstance(node.body[0], ast.Return) else '?'))
                if len(node.orelse) == 1 and isinstance(node.orelse[0], ast.If):
                    node = node.orelse[0]
                else:
                    break
        if isinstance(n, ast.For) and 'typing.__all__' in ast.unparse(n.iter):
            alias_fallback = any(isinstance(x, ast.Return) for x in ast.walk(n))
    if conv_bare is None:
        raise Skip('convert_to_typing_types: bare set not found')

    L = []
    L.append(HEADER.format(rel=REL))
    L.append('namespace PedVerif.Gen.TypeTables\n')
    L.append('/-- NUM_OF_REQUIRED_TYPE_ARGS_EXACT -/')
    L.append('def requiredExact : List (String × Nat) := ' + lean_list(f'({lean_str(k)}, {v})' for k, v in exact))
    L.append('/-- NUM_OF_REQUIRED_TYPE_ARGS_MIN -/')
    L.append('def requiredMin : List (String × Nat) := ' + lean_list(f'({lean_str(k)}, {v})' for k, v in minimum))
    L.append('''
def lookup (t : List (String × Nat)) (k : String) : Option Nat :=
  match t with
  | [] => none
  | (k', v) :: rest => if k' == k then some v else lookup rest k
''')
    L.append('/-- `_has_required_type_arguments`, translated: `base` = `_get_name(cls)`, `n` = number of type arguments -/')
    L.append('def requiredArgsOk (base : String) (n : Nat) : Bool :=')
    L.append('  match lookup requiredExact base with')
    L.append(f'  | some req => decide (req {op_exact} n)')
    L.append('  | none => match lookup requiredMin base with')
    L.append(f'    | some req => decide (req {op_min} n)')
    L.append('    | none => true\n')
    L.append('/-- rows of `_ORIGIN_TYPE_CHECKERS`: typing alias ↦ name of the checker function -/')
    L.append('def originCheckers : List (String × String) := ' + lean_list(f'({lean_str(k)}, {lean_str(v)})' for k, v in origin_rows))
    L.append('/-- rows of `_SPECIAL_INSTANCE_CHECKERS` -/')
    L.append('def specialCheckers : List (String × String) := ' + lean_list(f'({lean_str(k)}, {lean_str(v)})' for k, v in special_rows))
    L.append('/-- the set on the `Missing type arguments` line of `_is_instance`, and the exception it raises -/')
    L.append('def bareBuiltins : List String := ' + lean_list(lean_str(x) for x in bare[0]))
    L.append(f'def bareBuiltinsRaise : String := {lean_str(bare[1])}')
    L.append('/-- the required-type-arguments test is the first statement of `_is_instance` -/')
    L.append(f'def requiredTestFirst : Bool := {lean_bool(first_is_required)}')
    L.append('/-- the generic branch returns False when `not isinstance(obj, origin)` before it dispatches -/')
    L.append(f'def genericChecksOrigin : Bool := {lean_bool(generic_isinstance)}')
    L.append('/-- `_check_type`: the string branch guards `__base__ is None`; the `None` branch is `value == type_` -/')
    L.append(f'def strBranchGuardsNoneBase : Bool := {lean_bool(guards_none_base)}')
    L.append(f'def noneBranchIsEq : Bool := {lean_bool(none_branch_eq)}')
    L.append('/-- `_check_type`, string branch: a name that is a class of the context is checked with isinstance against that class; the')
    L.append('    name comparison runs over the names of the whole MRO -/')
    L.append(f'def strBranchResolvesInContext : Bool := {lean_bool(str_ctx)}')
    L.append('/-- `_is_subtype` with a Union super type: some member is a super type (else: exact membership); -/')
    L.append(f'def unionSuperBySubtype : Bool := {lean_bool(union_by_subtype)}')
    L.append('/-- `_get_class_of_type_annotation` reads `__origin__` with getattr (a ForwardRef inside Type[..] is answered, not an AttributeError) -/')
    L.append(f'def classOfGuardsOrigin : Bool := {lean_bool(class_of_guards_origin)}')
    L.append(f'def strBranchComparesMro : Bool := {lean_bool(str_mro)}')
    L.append('/-- classes named by the last `except` arm around `_is_instance` -/')
    L.append('def catchAll : List String := ' + lean_list(lean_str(x) for x in catch_all))
    L.append('/-- element loops: quantifier, lazily evaluated (generator expression) or not -/')
    L.append(f'def iterableQuantifier : String := {lean_str(q_it)}')
    L.append(f'def iterableLazy : Bool := {lean_bool(lazy_it)}')
    L.append(f'def iteratorSkip : Bool := {lean_bool(iterator_skip)}')
    L.append(f'def itemsQuantifier : String := {lean_str(q_iv)}')
    L.append(f'def itemsConnective : String := {lean_str(conj)}')
    L.append(f'def itemsChecksKey : Bool := {lean_bool(checks_key)}')
    L.append(f'def itemsChecksValue : Bool := {lean_bool(checks_val)}')
    L.append(f'def tupleQuantifier : String := {lean_str(q_tp)}')
    L.append(f'def tupleLengthTest : Bool := {lean_bool(length_test)}')
    L.append(f'def unionQuantifier : String := {lean_str(union_q[0])}')
    L.append(f'def unionLazy : Bool := {lean_bool(union_q[1])}')
    L.append(f'def unionOverAllNonTypeVarMembers : Bool := {lean_bool(union_q[2])}')
    L.append(f'def literalIsMembership : Bool := {lean_bool(literal_is_membership)}')
    L.append('/-- `convert_to_typing_types` -/')
    L.append('def convertBare : List String := ' + lean_list(lean_str(x) for x in conv_bare))
    L.append(f'def convertGuard : String := {lean_str(conv_guard)}')
    L.append('def convertOrigins : List (String × String) := ' + lean_list(f'({lean_str(k)}, {lean_str(v)})' for k, v in conv_origins))
    L.append(f'def convertAliasFallback : Bool := {lean_bool(alias_fallback)}')
    L.append('\nend PedVerif.Gen.TypeTables')
    return '\n'.join(L) + '\n'


FILES = {'TypeTables.lean': gen_typetables}
