"""Translator part for the "simple Callable signatures" fragment of C01 / C02: the statement skeletons of
`_instancecheck_callable`, `_is_lambda`, `_is_subtype`, `_get_class_of_type_annotation` and the way in
(`assert_value_matches_type`, `_check_type`, `convert_to_typing_types`) in pedantic/type_checking_logic/check_types.py.

Each function is matched statement by statement, in source order, against the shape the model mirrors; the holes of the shape
(constants, comparison operators, operand order, exception class lists, argument directions, indices, quantifiers) become
definitions of `PedVerif.Gen.Callable`.  A function that no longer has the shape raises `Skip` (the committed snapshot is used,
the skip is recorded in the evidence, and the property is left to the correspondence check).  Only `ast` is used."""
import ast
from extract import Skip, src, find_func, lean_bool, lean_str, HEADER, CMP

REL = 'pedantic/type_checking_logic/check_types.py'
FLIP = {'<': '>', '≤': '≥', '>': '<', '≥': '≤', '=': '=', '≠': '≠'}


# ------------------------------------------------------------------ small AST helpers

def body_of(fn):
    b = list(fn.body)
    if b and isinstance(b[0], ast.Expr) and isinstance(b[0].value, ast.Constant) and isinstance(b[0].value.value, str):
        b = b[1:]
    return b


def is_name(n, ident=None):
    return isinstance(n, ast.Name) and (ident is None or n.id == ident)


def dotted(n):
    if isinstance(n, ast.Name):
        return n.id
    if isinstance(n, ast.Attribute):
        d = dotted(n.value)
        return None if d is None else d + '.' + n.attr
    return None


def is_none(n):
    return isinstance(n, ast.Constant) and n.value is None


def is_ellipsis(n):
    return is_name(n, 'Ellipsis') or (isinstance(n, ast.Constant) and n.value is Ellipsis)


def const_bool(n, what):
    if isinstance(n, ast.Constant) and isinstance(n.value, bool):
        return n.value
    raise Skip(f'{what}: not a boolean constant')


def single_return(stmts, what):
    if len(stmts) != 1 or not isinstance(stmts[0], ast.Return) or stmts[0].value is None:
        raise Skip(f'{what}: branch is not a single `return <expr>`')
    return stmts[0].value


def call_of(n, name):
    """n is a call of the function with the dotted name `name`"""
    return isinstance(n, ast.Call) and dotted(n.func) == name


def call_args(n):
    """positional and keyword arguments of a call as one dict (positional ones keyed by index)"""
    d = {i: a for i, a in enumerate(n.args)}
    for k in n.keywords:
        if k.arg is None:
            raise Skip('call with **kwargs')
        d[k.arg] = k.value
    return d


def the_arg(n, key, pos=0):
    d = call_args(n)
    if key in d: return d[key]
    if pos in d: return d[pos]
    raise Skip(f'call of {dotted(n.func)}: argument {key} not found')


def is_not(n):
    return isinstance(n, ast.UnaryOp) and isinstance(n.op, ast.Not)


def simple_compare(n):
    return isinstance(n, ast.Compare) and len(n.ops) == 1 and len(n.comparators) == 1


def len_compare(n, names, what):
    """`len(a) <op> len(b)` (optionally under `not`) with a, b in `names` (source name -> Lean variable): Lean Bool expression"""
    neg = False
    while is_not(n):
        neg = not neg
        n = n.operand
    if not (simple_compare(n) and type(n.ops[0]) in CMP):
        raise Skip(f'{what}: not a simple comparison')
    sides = []
    for s in (n.left, n.comparators[0]):
        if not (call_of(s, 'len') and len(s.args) == 1 and is_name(s.args[0]) and s.args[0].id in names):
            raise Skip(f'{what}: operand is not len(<{"|".join(names)}>)')
        sides.append(names[s.args[0].id])
    if sides[0] == sides[1]:
        raise Skip(f'{what}: compares a length with itself')
    e = f'decide ({sides[0]} {CMP[type(n.ops[0])]} {sides[1]})'
    return f'!({e})' if neg else e


def subtype_direction(call, sub_ok, super_ok, what):
    """`_is_subtype(sub_type=A, super_type=B)`: True if (A, B) = (declared, expected), False if swapped"""
    if not call_of(call, '_is_subtype'):
        raise Skip(f'{what}: not a call of _is_subtype')
    a, b = the_arg(call, 'sub_type', 0), the_arg(call, 'super_type', 1)
    if sub_ok(a) and super_ok(b): return True
    if sub_ok(b) and super_ok(a): return False
    raise Skip(f'{what}: unexpected arguments of _is_subtype')


def handler_names(h, what):
    if h.type is None: return ['BaseException']
    if isinstance(h.type, ast.Tuple): elts = h.type.elts
    else: elts = [h.type]
    out = []
    for e in elts:
        d = dotted(e)
        if d is None: raise Skip(f'{what}: handler type is not a name')
        out.append(d.split('.')[-1])
    return out


def lean_strs(xs):
    return '[' + ', '.join(lean_str(x) for x in xs) + ']'


# ------------------------------------------------------------------ _instancecheck_callable

def tr_instancecheck_callable(tree, F):
    fn = find_func(tree, '_instancecheck_callable')
    W = '_instancecheck_callable'
    params = [a.arg for a in fn.args.args]
    if len(params) < 2: raise Skip(f'{W}: fewer than two parameters')
    VALUE, TYPE = params[0], params[1]
    st = body_of(fn)
    i = 0

    def if_return_const(s, test):
        return isinstance(s, ast.If) and not s.orelse and test(s.test) and len(s.body) == 1 and isinstance(s.body[0], ast.Return) \
            and isinstance(s.body[0].value, ast.Constant) and isinstance(s.body[0].value.value, bool)

    # S1: if value is None: return <b>
    F['noneGuard'], F['noneResult'] = False, False
    if i < len(st) and if_return_const(st[i], lambda t: simple_compare(t) and is_name(t.left, VALUE) and isinstance(t.ops[0], (ast.Is, ast.Eq))
                                       and is_none(t.comparators[0])):
        F['noneGuard'], F['noneResult'] = True, st[i].body[0].value.value
        i += 1
    # S2: if _is_lambda(obj=value): return <b>
    F['lambdaShortcut'], F['lambdaResult'] = False, True
    if i < len(st) and if_return_const(st[i], lambda t: call_of(t, '_is_lambda') and is_name(the_arg(t, 'obj', 0), VALUE)):
        F['lambdaShortcut'], F['lambdaResult'] = True, st[i].body[0].value.value
        i += 1
    # S3: param_types, ret_type = get_type_arguments(cls=type_)
    s = st[i] if i < len(st) else None
    if not (isinstance(s, ast.Assign) and len(s.targets) == 1 and isinstance(s.targets[0], ast.Tuple) and len(s.targets[0].elts) == 2
            and all(is_name(e) for e in s.targets[0].elts) and call_of(s.value, 'get_type_arguments')
            and is_name(the_arg(s.value, 'cls', 0), TYPE)):
        raise Skip(f'{W}: expected `param_types, ret_type = get_type_arguments(cls={TYPE})`')
    PT, RT = (e.id for e in s.targets[0].elts)
    i += 1
    # S4: try: sig = inspect.signature(obj=value) except <names>: return <b>
    s = st[i] if i < len(st) else None
    if not (isinstance(s, ast.Try) and not s.orelse and not s.finalbody and len(s.handlers) == 1 and len(s.body) == 1
            and isinstance(s.body[0], ast.Assign) and len(s.body[0].targets) == 1 and is_name(s.body[0].targets[0])
            and call_of(s.body[0].value, 'inspect.signature') and is_name(the_arg(s.body[0].value, 'obj', 0), VALUE)):
        raise Skip(f'{W}: expected `try: sig = inspect.signature(obj={VALUE}) except …: return …`')
    SIG = s.body[0].targets[0].id
    F['sigCaught'] = handler_names(s.handlers[0], W)
    F['sigHandlerResult'] = const_bool(single_return(s.handlers[0].body, W + ' signature handler'), W + ' signature handler')
    i += 1
    # S5: non_optional_params = {k: v for k, v in sig.parameters.items() if v.default == sig.empty}
    s = st[i] if i < len(st) else None
    ok = isinstance(s, ast.Assign) and len(s.targets) == 1 and is_name(s.targets[0]) and isinstance(s.value, ast.DictComp) \
        and len(s.value.generators) == 1
    if ok:
        g = s.value.generators[0]
        ok = call_of(g.iter, f'{SIG}.parameters.items') and isinstance(g.target, ast.Tuple) and len(g.target.elts) == 2 \
            and all(is_name(e) for e in g.target.elts) and len(g.ifs) == 1 and not g.is_async
    if ok:
        k, v = (e.id for e in g.target.elts)
        c = g.ifs[0]
        ok = is_name(s.value.key, k) and is_name(s.value.value, v) and simple_compare(c) and isinstance(c.ops[0], (ast.Eq, ast.Is)) \
            and {dotted(c.left), dotted(c.comparators[0])} == {f'{v}.default', f'{SIG}.empty'}
    if not ok:
        raise Skip(f'{W}: expected `non_optional_params = {{k: v for k, v in {SIG}.parameters.items() if v.default == {SIG}.empty}}`')
    NOP = s.targets[0].id
    F['requiredIsNoDefault'] = True
    i += 1
    # S6: if param_types is not Ellipsis: <arity test> <loop>
    s = st[i] if i < len(st) else None
    if not (isinstance(s, ast.If) and not s.orelse and simple_compare(s.test) and is_name(s.test.left, PT)
            and isinstance(s.test.ops[0], (ast.IsNot, ast.NotEq)) and is_ellipsis(s.test.comparators[0]) and len(s.body) == 2):
        raise Skip(f'{W}: expected `if {PT} is not Ellipsis:` with an arity test and a loop')
    F['ellipsisSkipsParams'] = True
    a, loop = s.body
    if not (isinstance(a, ast.If) and not a.orelse):
        raise Skip(f'{W}: arity test is not an if without else')
    F['arityMismatch'] = len_compare(a.test, {PT: 'nExpected', NOP: 'nRequired'}, W + ' arity test')
    F['arityMismatchResult'] = const_bool(single_return(a.body, W + ' arity test'), W + ' arity test')
    if not (isinstance(loop, ast.For) and not loop.orelse and isinstance(loop.target, ast.Tuple) and len(loop.target.elts) == 2
            and all(is_name(e) for e in loop.target.elts) and call_of(loop.iter, 'zip') and len(loop.iter.args) == 2
            and is_name(loop.iter.args[1], PT) and len(loop.body) == 1):
        raise Skip(f'{W}: expected `for param, expected_type in zip(…, {PT}):` with one statement')
    PARAM, EXPECTED = (e.id for e in loop.target.elts)
    z = loop.iter.args[0]
    if call_of(z, f'{SIG}.parameters.values'): F['zipAllParams'] = True
    elif call_of(z, f'{NOP}.values'): F['zipAllParams'] = False
    else: raise Skip(f'{W}: the loop does not run over {SIG}.parameters.values() / {NOP}.values()')
    t = loop.body[0]
    if not (isinstance(t, ast.If) and not t.orelse and is_not(t.test)):
        raise Skip(f'{W}: loop body is not `if not _is_subtype(…): return …`')
    F['paramSubIsDeclared'] = subtype_direction(t.test.operand, lambda n: dotted(n) == f'{PARAM}.annotation', lambda n: is_name(n, EXPECTED), W + ' loop')
    F['paramFailResult'] = const_bool(single_return(t.body, W + ' loop'), W + ' loop')
    i += 1

    def ret_test(value, super_name, what):
        """(checked, direction, const) of a `return _is_subtype(sub_type=sig.return_annotation, super_type=<super_name>)` / `return <b>`"""
        if isinstance(value, ast.Constant) and isinstance(value.value, bool):
            return False, True, value.value
        d = subtype_direction(value, lambda n: dotted(n) == f'{SIG}.return_annotation', lambda n: is_name(n, super_name), what)
        return True, d, True

    # S7: if not inspect.iscoroutinefunction(value): return _is_subtype(sub_type=sig.return_annotation, super_type=ret_type)
    s = st[i] if i < len(st) else None
    if isinstance(s, ast.Return) and i == len(st) - 1:
        # no distinction between plain and coroutine functions
        F['coroTest'] = False
        F['syncReturnChecked'], F['syncRetSubIsDeclared'], F['syncReturnConst'] = ret_test(s.value, RT, W + ' return')
        F.update(awaitableArgIndex=0, coroutineArgIndex=2, coroOtherResult=False, coroOtherTopTest=False, coroReturnChecked=True, coroRetSubIsDeclared=True)
        return
    if not (isinstance(s, ast.If) and not s.orelse and is_not(s.test) and call_of(s.test.operand, 'inspect.iscoroutinefunction')
            and is_name(the_arg(s.test.operand, 'func', 0), VALUE)):
        raise Skip(f'{W}: expected `if not inspect.iscoroutinefunction({VALUE}):`')
    F['coroTest'] = True
    F['syncReturnChecked'], F['syncRetSubIsDeclared'], F['syncReturnConst'] = ret_test(single_return(s.body, W + ' plain function'), RT, W + ' plain function')
    i += 1
    # S8: base = get_base_generic(ret_type)
    s = st[i] if i < len(st) else None
    if not (isinstance(s, ast.Assign) and len(s.targets) == 1 and is_name(s.targets[0]) and call_of(s.value, 'get_base_generic')
            and is_name(the_arg(s.value, 'cls', 0), RT)):
        raise Skip(f'{W}: expected `base = get_base_generic({RT})`')
    BASE = s.targets[0].id
    i += 1
    # S9: if base == typing.Awaitable: arg = get_type_arguments(ret_type)[i] elif base == typing.Coroutine: arg = …[j] else: return <b>
    s = st[i] if i < len(st) else None

    def branch(node, alias):
        if not (isinstance(node, ast.If) and simple_compare(node.test) and isinstance(node.test.ops[0], (ast.Eq, ast.Is))
                and {dotted(node.test.left), dotted(node.test.comparators[0])} == {BASE, alias} and len(node.body) == 1):
            raise Skip(f'{W}: expected `if {BASE} == {alias}:`')
        b = node.body[0]
        if not (isinstance(b, ast.Assign) and len(b.targets) == 1 and is_name(b.targets[0]) and isinstance(b.value, ast.Subscript)
                and call_of(b.value.value, 'get_type_arguments') and is_name(the_arg(b.value.value, 'cls', 0), RT)
                and isinstance(b.value.slice, ast.Constant) and isinstance(b.value.slice.value, int) and b.value.slice.value >= 0):
            raise Skip(f'{W}: expected `arg = get_type_arguments({RT})[<index>]`')
        return b.targets[0].id, b.value.slice.value
    arg1, F['awaitableArgIndex'] = branch(s, 'typing.Awaitable')
    if len(s.orelse) != 1: raise Skip(f'{W}: no elif after the Awaitable branch')
    arg2, F['coroutineArgIndex'] = branch(s.orelse[0], 'typing.Coroutine')
    if arg1 != arg2: raise Skip(f'{W}: the two branches assign different names')
    other = single_return(s.orelse[0].orelse, W + ' other return types')
    # either a constant, or the top-type test `_get_class_of_type_annotation(ret_type) is object` (`object is …`, `==`)
    if (simple_compare(other) and isinstance(other.ops[0], (ast.Is, ast.Eq))
            and any(is_name(x, 'object') for x in (other.left, other.comparators[0]))
            and any(call_of(x, '_get_class_of_type_annotation') and is_name(the_arg(x, 'annotation', 0), RT)
                    for x in (other.left, other.comparators[0]))):
        F['coroOtherTopTest'], F['coroOtherResult'] = True, False
    else:
        F['coroOtherTopTest'], F['coroOtherResult'] = False, const_bool(other, W + ' other return types')
    i += 1
    # S10: return _is_subtype(sub_type=sig.return_annotation, super_type=arg)
    s = st[i] if i < len(st) else None
    if not (isinstance(s, ast.Return) and i == len(st) - 1):
        raise Skip(f'{W}: expected a final return')
    F['coroReturnChecked'], F['coroRetSubIsDeclared'], c = ret_test(s.value, arg1, W + ' coroutine function')
    if not F['coroReturnChecked'] and c is not True:
        raise Skip(f'{W}: coroutine functions return a constant False')


# ------------------------------------------------------------------ _is_lambda

def tr_is_lambda(tree, F):
    fn = find_func(tree, '_is_lambda')
    W = '_is_lambda'
    OBJ = fn.args.args[0].arg
    v = single_return(body_of(fn), W)
    parts = v.values if isinstance(v, ast.BoolOp) and isinstance(v.op, ast.And) else [v]
    if len(parts) == 2 and call_of(parts[0], 'callable') and is_name(the_arg(parts[0], 'obj', 0), OBJ):
        F['lambdaTestsCallableFirst'] = True
        c = parts[1]
    elif len(parts) == 1:
        F['lambdaTestsCallableFirst'] = False
        c = parts[0]
    else:
        raise Skip(f'{W}: not `callable(obj) and <name test>`')
    if not (simple_compare(c) and isinstance(c.ops[0], ast.Eq)):
        raise Skip(f'{W}: name test is not an equality')
    sides = [c.left, c.comparators[0]]
    consts = [s for s in sides if isinstance(s, ast.Constant) and isinstance(s.value, str)]
    others = [s for s in sides if s not in consts]
    if len(consts) != 1 or len(others) != 1:
        raise Skip(f'{W}: name test does not compare with a string constant')
    o = others[0]
    if dotted(o) == f'{OBJ}.__name__':
        F['lambdaNameGuarded'] = False
    elif call_of(o, 'getattr') and len(o.args) == 3 and is_name(o.args[0], OBJ) and isinstance(o.args[1], ast.Constant) \
            and o.args[1].value == '__name__' and not (isinstance(o.args[2], ast.Constant) and o.args[2].value == consts[0].value):
        F['lambdaNameGuarded'] = True
    else:
        raise Skip(f'{W}: the name is read neither as obj.__name__ nor with getattr(obj, "__name__", default)')
    F['lambdaName'] = consts[0].value


# ------------------------------------------------------------------ _is_subtype

def tr_is_subtype(tree, F):
    fn = find_func(tree, '_is_subtype')
    W = '_is_subtype'
    SUB, SUP = fn.args.args[0].arg, fn.args.args[1].arg
    st = body_of(fn)
    i = 0
    # T1: if sub_type is None: sub_type = type(None)
    F['subNoneNormalised'] = False
    s = st[i]
    if isinstance(s, ast.If) and not s.orelse and simple_compare(s.test) and is_name(s.test.left, SUB) and isinstance(s.test.ops[0], (ast.Is, ast.Eq)) \
            and is_none(s.test.comparators[0]) and len(s.body) == 1 and isinstance(s.body[0], ast.Assign) and is_name(s.body[0].targets[0], SUB) \
            and call_of(s.body[0].value, 'type') and len(s.body[0].value.args) == 1 and is_none(s.body[0].value.args[0]):
        F['subNoneNormalised'] = True
        i += 1
    # T2/T3: python_sub = _get_class_of_type_annotation(sub_type); python_super = …(super_type)
    names = {}
    for _ in range(2):
        s = st[i]
        if not (isinstance(s, ast.Assign) and len(s.targets) == 1 and is_name(s.targets[0]) and call_of(s.value, '_get_class_of_type_annotation')
                and is_name(the_arg(s.value, 'annotation', 0)) and the_arg(s.value, 'annotation', 0).id in (SUB, SUP)):
            raise Skip(f'{W}: expected python_sub / python_super = _get_class_of_type_annotation(…)')
        names[the_arg(s.value, 'annotation', 0).id] = s.targets[0].id
        i += 1
    if set(names) != {SUB, SUP}: raise Skip(f'{W}: python_sub / python_super are not both computed')
    PSUB, PSUP = names[SUB], names[SUP]
    # T4: if python_super is object: return <b>
    F['objectShortcut'], F['objectShortcutResult'] = False, True
    s = st[i]
    if isinstance(s, ast.If) and not s.orelse and simple_compare(s.test) and isinstance(s.test.ops[0], (ast.Is, ast.Eq)) \
            and {dotted(s.test.left), dotted(s.test.comparators[0])} == {PSUP, 'object'}:
        F['objectShortcut'] = True
        F['objectShortcutResult'] = const_bool(single_return(s.body, W + ' object shortcut'), W + ' object shortcut')
        i += 1

    def union_test(t, var):
        """`var == typing.Union or isinstance(var, types.UnionType)`: (typing?, pep604?)"""
        parts = t.values if isinstance(t, ast.BoolOp) and isinstance(t.op, ast.Or) else [t]
        ty = pep = False
        for p in parts:
            if simple_compare(p) and isinstance(p.ops[0], (ast.Eq, ast.Is)) and {dotted(p.left), dotted(p.comparators[0])} == {var, 'typing.Union'}:
                ty = True
            elif call_of(p, 'isinstance') and len(p.args) == 2 and is_name(p.args[0], var) and dotted(p.args[1]) == 'types.UnionType':
                pep = True
            else:
                raise Skip(f'{W}: unexpected part of the Union test on {var}')
        return ty, pep

    def membership(n, elem, coll, what):
        if not (simple_compare(n) and isinstance(n.ops[0], ast.In) and is_name(n.left, elem) and is_name(n.comparators[0], coll)):
            raise Skip(f'{W}: {what} is not `{elem} in {coll}`')
        return True

    def sub_union_stmt(u, type_args_name):
        """`if <python_sub is a Union>: sub_type_args = get_type_arguments(cls=sub_type); return all(<elt> for x in sub_type_args)`:
        (typing?, pep604?, quantifier is all?, element is `_is_subtype(sub_type=x, super_type=super_type)` instead of `x in type_args`)"""
        if not (isinstance(u, ast.If) and not u.orelse and len(u.body) == 2):
            raise Skip(f'{W}: expected the Union-sub-type test')
        ty, pep = union_test(u.test, PSUB)
        a0, r0 = u.body
        if not (isinstance(a0, ast.Assign) and is_name(a0.targets[0]) and call_of(a0.value, 'get_type_arguments') and is_name(the_arg(a0.value, 'cls', 0), SUB)
                and isinstance(r0, ast.Return) and isinstance(r0.value, ast.Call) and is_name(r0.value.func) and r0.value.func.id in ('all', 'any')
                and len(r0.value.args) == 1 and isinstance(r0.value.args[0], (ast.ListComp, ast.GeneratorExp)) and len(r0.value.args[0].generators) == 1):
            raise Skip(f'{W}: Union sub type is not `return all(… for x in sub_type_args)`')
        comp = r0.value.args[0]
        g = comp.generators[0]
        if not (is_name(g.target) and is_name(g.iter, a0.targets[0].id) and not g.ifs):
            raise Skip(f'{W}: the Union-sub-type comprehension does not run over the sub type arguments')
        x = g.target.id
        if call_of(comp.elt, '_is_subtype'):
            if subtype_direction(comp.elt, lambda n: is_name(n, x), lambda n: is_name(n, SUP), W + ' Union sub type') is not True:
                raise Skip(f'{W}: Union sub type: members are not tested as sub types of {SUP}')
            by_members = True
        else:
            if type_args_name is None:
                raise Skip(f'{W}: Union sub type outside the Union branch tests membership')
            membership(comp.elt, x, type_args_name, 'Union-vs-Union element')
            by_members = False
        return ty, pep, r0.value.func.id == 'all', by_members

    # T5a (new shape): the Union-sub-type test as a statement of its own, before the Union-super-type branch
    F['subUnionHoisted'] = False
    s = st[i]
    if isinstance(s, ast.If) and not s.orelse and PSUB in ast.dump(s.test) and PSUP not in ast.dump(s.test):
        F['subUnionTyping'], F['subUnionPep604'], F['unionSubQuantAll'], F['subUnionByMembers'] = sub_union_stmt(s, None)
        F['subUnionHoisted'] = True
        i += 1
    # T5: the Union-super-type branch
    s = st[i]
    if not (isinstance(s, ast.If) and not s.orelse):
        raise Skip(f'{W}: expected the Union branch')
    F['superUnionTyping'], F['superUnionPep604'] = union_test(s.test, PSUP)
    b = list(s.body)
    if not (b and isinstance(b[0], ast.Assign) and is_name(b[0].targets[0]) and call_of(b[0].value, 'get_type_arguments')
            and is_name(the_arg(b[0].value, 'cls', 0), SUP)):
        raise Skip(f'{W}: Union branch does not start with type_args = get_type_arguments(cls={SUP})')
    TA = b[0].targets[0].id
    rest = b[1:]
    if not F['subUnionHoisted']:
        if not rest:
            raise Skip(f'{W}: expected the Union-vs-Union test')
        F['subUnionTyping'], F['subUnionPep604'], F['unionSubQuantAll'], F['subUnionByMembers'] = sub_union_stmt(rest[0], TA)
        rest = rest[1:]
    if len(rest) == 2:          # the Protocol shortcut: `if any([type(ta) == _ProtocolMeta for ta in type_args]): return True`
        p = rest[0]
        if not (isinstance(p, ast.If) and not p.orelse and '_ProtocolMeta' in ast.dump(p.test)
                and const_bool(single_return(p.body, W + ' protocol shortcut'), W + ' protocol shortcut') is True):
            raise Skip(f'{W}: unexpected statement in the Union branch')
        rest = rest[1:]
    if len(rest) != 1 or not isinstance(rest[0], ast.Return):
        raise Skip(f'{W}: Union branch does not end with a return')
    last = rest[0].value
    if isinstance(last, ast.Call) and is_name(last.func, 'any') and len(last.args) == 1 and isinstance(last.args[0], (ast.GeneratorExp, ast.ListComp)) \
            and len(last.args[0].generators) == 1:
        # new shape: `return any(_is_subtype(sub_type=sub_type, super_type=ta, …) for ta in type_args)`
        g = last.args[0].generators[0]
        if not (is_name(g.target) and is_name(g.iter, TA) and not g.ifs
                and subtype_direction(last.args[0].elt, lambda n: is_name(n, SUB), lambda n: is_name(n, g.target.id), W + ' Union super type') is True):
            raise Skip(f'{W}: Union branch does not end with `return any(_is_subtype(sub_type={SUB}, super_type=ta) for ta in {TA})`')
        F['unionSuperBySubtype'] = True
    else:
        membership(last, SUB, TA, 'last statement of the Union branch')
        F['unionSuperBySubtype'] = False
    F['unionMemberExact'] = not F['unionSuperBySubtype'] and not F['subUnionByMembers']
    i += 1

    def issubclass_order(n, what):
        if not (call_of(n, 'issubclass') and len(n.args) == 2 and all(is_name(a) for a in n.args) and {n.args[0].id, n.args[1].id} == {PSUB, PSUP}):
            raise Skip(f'{W}: {what} is not issubclass({PSUB}, {PSUP})')
        return n.args[0].id == PSUB

    # T6: if not _is_generic(sub_type): try: return issubclass(python_sub, python_super) except TypeError: … return False
    s = st[i]
    if not (isinstance(s, ast.If) and not s.orelse and is_not(s.test) and call_of(s.test.operand, '_is_generic')
            and is_name(the_arg(s.test.operand, 'cls', 0), SUB) and len(s.body) == 1):
        raise Skip(f'{W}: expected `if not _is_generic({SUB}):`')
    t = s.body[0]
    if isinstance(t, ast.Try):
        if t.orelse or t.finalbody or len(t.handlers) != 1:
            raise Skip(f'{W}: non-generic branch: unexpected try shape')
        F['nonGenericSubFirst'] = issubclass_order(single_return(t.body, W + ' non-generic branch'), 'non-generic test')
        hn = handler_names(t.handlers[0], W)
        F['nonGenericCatchesTypeError'] = bool({'TypeError', 'Exception', 'BaseException'} & set(hn))
        hb = list(t.handlers[0].body)
        if len(hb) == 2:
            p = hb[0]
            if not (isinstance(p, ast.If) and not p.orelse and '_ProtocolMeta' in ast.dump(p.test)):
                raise Skip(f'{W}: unexpected statement in the TypeError handler')
            hb = hb[1:]
        F['nonGenericCatchResult'] = const_bool(single_return(hb, W + ' TypeError handler'), W + ' TypeError handler')
    else:
        F['nonGenericSubFirst'] = issubclass_order(single_return([t], W + ' non-generic branch'), 'non-generic test')
        F['nonGenericCatchesTypeError'], F['nonGenericCatchResult'] = False, False
    i += 1
    # T7: if not issubclass(python_sub, python_super): return <b>
    s = st[i]
    if not (isinstance(s, ast.If) and not s.orelse and is_not(s.test)):
        raise Skip(f'{W}: expected `if not issubclass({PSUB}, {PSUP}):` (outside any try)')
    F['genericSubFirst'] = issubclass_order(s.test.operand, 'generic origin test')
    F['genericOriginGuarded'] = False
    F['genericOriginFailResult'] = const_bool(single_return(s.body, W + ' generic origin test'), W + ' generic origin test')
    i += 1
    # T8/T9: sub_args = get_type_arguments(cls=sub_type); super_args = get_type_arguments(cls=super_type)
    an = {}
    for _ in range(2):
        s = st[i]
        if not (isinstance(s, ast.Assign) and len(s.targets) == 1 and is_name(s.targets[0]) and call_of(s.value, 'get_type_arguments')
                and is_name(the_arg(s.value, 'cls', 0)) and the_arg(s.value, 'cls', 0).id in (SUB, SUP)):
            raise Skip(f'{W}: expected sub_args / super_args = get_type_arguments(…)')
        an[the_arg(s.value, 'cls', 0).id] = s.targets[0].id
        i += 1
    if set(an) != {SUB, SUP}: raise Skip(f'{W}: sub_args / super_args are not both computed')
    SA, PA = an[SUB], an[SUP]
    # T9a (new shape): if not super_args: return <b>
    F['rawSuperShortcut'], F['rawSuperResult'] = False, True
    s = st[i]
    if isinstance(s, ast.If) and not s.orelse and is_not(s.test) and is_name(s.test.operand, PA):
        F['rawSuperShortcut'] = True
        F['rawSuperResult'] = const_bool(single_return(s.body, W + ' raw super type'), W + ' raw super type')
        i += 1
    # T10: if len(sub_args) != len(super_args) and Ellipsis not in sub_args + super_args: return <b>
    s = st[i]
    if not (isinstance(s, ast.If) and not s.orelse and isinstance(s.test, ast.BoolOp) and isinstance(s.test.op, ast.And) and len(s.test.values) == 2):
        raise Skip(f'{W}: expected the argument-count test')
    c1, c2 = s.test.values
    F['argLenMismatch'] = len_compare(c1, {SA: 'nSub', PA: 'nSuper'}, W + ' argument-count test')
    if not (simple_compare(c2) and isinstance(c2.ops[0], ast.NotIn) and is_ellipsis(c2.left) and isinstance(c2.comparators[0], ast.BinOp)
            and isinstance(c2.comparators[0].op, ast.Add) and {dotted(c2.comparators[0].left), dotted(c2.comparators[0].right)} == {SA, PA}):
        raise Skip(f'{W}: expected `Ellipsis not in {SA} + {PA}`')
    F['argLenMismatchResult'] = const_bool(single_return(s.body, W + ' argument-count test'), W + ' argument-count test')
    i += 1
    # T11: return all(_is_subtype(sub_type=sub_arg, super_type=super_arg, …) for sub_arg, super_arg in zip(sub_args, super_args))
    s = st[i]
    if not (isinstance(s, ast.Return) and i == len(st) - 1 and isinstance(s.value, ast.Call) and is_name(s.value.func) and s.value.func.id in ('all', 'any')
            and len(s.value.args) == 1 and isinstance(s.value.args[0], (ast.GeneratorExp, ast.ListComp)) and len(s.value.args[0].generators) == 1):
        raise Skip(f'{W}: expected a final `return all(… for … in zip(…))`')
    comp = s.value.args[0]
    g = comp.generators[0]
    if not (isinstance(g.target, ast.Tuple) and len(g.target.elts) == 2 and all(is_name(e) for e in g.target.elts) and not g.ifs
            and call_of(g.iter, 'zip') and len(g.iter.args) == 2 and is_name(g.iter.args[0], SA) and is_name(g.iter.args[1], PA)):
        raise Skip(f'{W}: the final comprehension does not run over zip({SA}, {PA})')
    x, y = (e.id for e in g.target.elts)
    F['argsQuantAll'] = s.value.func.id == 'all'
    F['argsLazy'] = isinstance(comp, ast.GeneratorExp)
    F['argSubIsSub'] = subtype_direction(comp.elt, lambda n: is_name(n, x), lambda n: is_name(n, y), W + ' recursive call')


# ------------------------------------------------------------------ _get_class_of_type_annotation

def tr_get_class(tree, F):
    fn = find_func(tree, '_get_class_of_type_annotation')
    W = '_get_class_of_type_annotation'
    A = fn.args.args[0].arg
    st = body_of(fn)
    if len(st) != 2 or not isinstance(st[0], ast.If) or not (isinstance(st[1], ast.Return) and is_name(st[1].value, A)):
        raise Skip(f'{W}: expected an if/elif chain followed by `return {A}`')
    s = st[0]
    t = s.test
    if not (simple_compare(t) and isinstance(t.ops[0], ast.In) and is_name(t.left, A) and isinstance(t.comparators[0], (ast.List, ast.Tuple, ast.Set))
            and is_name(single_return(s.body, W), 'object')):
        raise Skip(f'{W}: expected `if {A} in [Any, Ellipsis]: return object`')
    elts = [dotted(e) or ('Ellipsis' if is_ellipsis(e) else '?') for e in t.comparators[0].elts]
    if set(elts) - {'Any', 'typing.Any', 'Ellipsis'}:
        raise Skip(f'{W}: more members than Any and Ellipsis map to object')
    F['anyMapsToObject'] = bool({'Any', 'typing.Any'} & set(elts))
    F['ellipsisMapsToObject'] = 'Ellipsis' in elts
    F['typingOriginUsed'] = False
    if s.orelse:
        e = s.orelse[0]
        if not (len(s.orelse) == 1 and isinstance(e, ast.If) and not e.orelse and isinstance(e.test, ast.BoolOp) and isinstance(e.test.op, ast.And)
                and len(e.test.values) == 2):
            raise Skip(f'{W}: unexpected elif')
        m, o = e.test.values
        def origin_read(n):
            """`annotation.__origin__` or `getattr(annotation, '__origin__', None)` (the same for every annotation that has the attribute)"""
            return dotted(n) == f'{A}.__origin__' or (call_of(n, 'getattr') and len(n.args) == 3 and is_name(n.args[0], A)
                                                      and isinstance(n.args[1], ast.Constant) and n.args[1].value == '__origin__' and is_none(n.args[2]))
        if not (simple_compare(m) and isinstance(m.ops[0], ast.Eq) and dotted(m.left) == f'{A}.__module__' and isinstance(m.comparators[0], ast.Constant)
                and m.comparators[0].value == 'typing' and simple_compare(o) and isinstance(o.ops[0], ast.IsNot) and origin_read(o.left)
                and is_none(o.comparators[0]) and dotted(single_return(e.body, W)) == f'{A}.__origin__'):
            raise Skip(f'{W}: elif is not the typing-origin test')
        F['typingOriginUsed'] = True


# ------------------------------------------------------------------ the way in

def tr_way_in(tree, F):
    fn = find_func(tree, 'assert_value_matches_type')
    st = body_of(fn)
    ok = len(st) == 1 and isinstance(st[0], ast.If) and not st[0].orelse and is_not(st[0].test) and call_of(st[0].test.operand, '_check_type')
    raises = [n for n in ast.walk(st[0]) if isinstance(n, ast.Raise)] if ok else []
    F['falseRaisesTypeCheck'] = bool(ok and len(raises) == 1 and isinstance(st[0].body[-1], ast.Raise) and isinstance(raises[0].exc, ast.Call)
                                     and dotted(raises[0].exc.func) == 'PedanticTypeCheckException')
    if not ok:
        raise Skip('assert_value_matches_type: not a single `if not _check_type(...): … raise …`')
    fn = find_func(tree, '_check_type')
    tries = [s for s in body_of(fn) if isinstance(s, ast.Try)]
    if len(tries) != 1 or tries[0].orelse or tries[0].finalbody:
        raise Skip('_check_type: expected exactly one try statement')
    t = tries[0]
    if not (len(t.body) == 1 and isinstance(t.body[0], ast.Return) and call_of(t.body[0].value, '_is_instance')):
        raise Skip('_check_type: the try body is not `return _is_instance(...)`')
    hs = []
    for h in t.handlers:
        if len(h.body) != 1 or not isinstance(h.body[0], ast.Raise) or not isinstance(h.body[0].exc, ast.Call) or dotted(h.body[0].exc.func) is None:
            raise Skip('_check_type: a handler is not a single `raise X(...)`')
        hs.append((handler_names(h, '_check_type'), dotted(h.body[0].exc.func).split('.')[-1]))
    F['checkTypeHandlers'] = hs
    fn = find_func(tree, 'convert_to_typing_types')
    X = fn.args.args[0].arg
    flat = any(isinstance(n, ast.Assign) and is_name(n.targets[0]) and isinstance(n.value, ast.ListComp)
               and call_of(n.value.elt, 'convert_to_typing_types') and dotted(n.value.generators[0].iter) == f'{X}.__args__'
               for n in ast.walk(fn))
    resub = False
    for n in ast.walk(fn):
        if isinstance(n, ast.For) and dotted(n.iter) == 'typing.__all__':
            for r in ast.walk(n):
                if isinstance(r, ast.Return) and isinstance(r.value, ast.Subscript) and call_of(r.value.slice, 'tuple') and is_name(r.value.value):
                    resub = True
    F['convertResubscriptsFlatArgs'] = bool(flat and resub)
    # new shape: `if origin is collections.abc.Callable:` before the generic conversion of the arguments
    F['convertAbcCallable'], F['convertAbcBareTolerated'] = False, False
    body = body_of(fn)
    generic_at = next((k for k, n in enumerate(body) if isinstance(n, ast.Assign) and isinstance(n.value, ast.ListComp)
                       and call_of(n.value.elt, 'convert_to_typing_types')), None)
    for k, n in enumerate(body):
        if isinstance(n, ast.If) and simple_compare(n.test) and isinstance(n.test.ops[0], ast.Is) \
                and dotted(n.test.comparators[0]) == 'collections.abc.Callable' and (generic_at is None or k < generic_at):
            rets = [r for r in ast.walk(n) if isinstance(r, ast.Return)]
            comps = [c for c in ast.walk(n) if isinstance(c, ast.ListComp) and dotted(c.generators[0].iter) == f'{X}.__args__']
            # every path returns typing.Callable[…]; the last return rebuilds the parameter list from all but the last flat argument
            ok = bool(rets) and all(isinstance(r.value, ast.Subscript) and dotted(r.value.value) == 'typing.Callable' for r in rets) and len(comps) == 1
            if ok:
                ok = isinstance(n.body[-1], ast.Return)
            if ok:
                sl = n.body[-1].value.slice
                ok = isinstance(sl, ast.Tuple) and len(sl.elts) == 2 and isinstance(sl.elts[0], ast.Subscript) and isinstance(sl.elts[0].slice, ast.Slice) \
                    and sl.elts[0].slice.lower is None and isinstance(sl.elts[0].slice.upper, ast.UnaryOp) and isinstance(sl.elts[1], ast.Subscript)
            if not ok:
                raise Skip('convert_to_typing_types: unexpected collections.abc.Callable branch')
            F['convertAbcCallable'] = True
            e = comps[0].elt
            F['convertAbcBareTolerated'] = isinstance(e, ast.IfExp) and simple_compare(e.test) and isinstance(e.test.ops[0], ast.In) \
                and isinstance(e.test.comparators[0], ast.Set) and {dotted(z) for z in e.test.comparators[0].elts} >= {'list', 'set', 'dict', 'frozenset', 'tuple', 'type'} \
                and is_name(e.body, comps[0].generators[0].target.id) and call_of(e.orelse, 'convert_to_typing_types')


# ------------------------------------------------------------------ output

def gen_callable(repo):
    tree = ast.parse(src(repo, REL))
    F = {}
    tr_instancecheck_callable(tree, F)
    tr_is_lambda(tree, F)
    tr_is_subtype(tree, F)
    tr_get_class(tree, F)
    tr_way_in(tree, F)
    b = lambda k: lean_bool(F[k])
    handlers = '[' + ', '.join(f'({lean_strs(ns)}, {lean_str(r)})' for ns, r in F['checkTypeHandlers']) + ']'
    return HEADER.format(rel=REL) + f'''namespace PedVerif.Gen.Callable

/-! ### `_instancecheck_callable` (statement skeleton matched in source order) -/

/-- the first statement is `if value is None: return <noneResult>` -/
def noneGuard : Bool := {b('noneGuard')}
def noneResult : Bool := {b('noneResult')}
/-- `if _is_lambda(obj=value): return <lambdaResult>` stands before the `inspect.signature` call -/
def lambdaShortcut : Bool := {b('lambdaShortcut')}
def lambdaResult : Bool := {b('lambdaResult')}
/-- exception classes named by the handler around `sig = inspect.signature(obj=value)`, and what the handler returns -/
def sigCaught : List String := {lean_strs(F['sigCaught'])}
def sigHandlerResult : Bool := {b('sigHandlerResult')}
/-- required parameters are those kept by `if v.default == sig.empty` -/
def requiredIsNoDefault : Bool := {b('requiredIsNoDefault')}
/-- the parameter block is guarded by `if param_types is not Ellipsis:` -/
def ellipsisSkipsParams : Bool := {b('ellipsisSkipsParams')}
/-- the arity test `len(param_types) != len(non_optional_params)`, translated; when it holds the function returns `arityMismatchResult` -/
def arityMismatch (nExpected nRequired : Nat) : Bool := {F['arityMismatch']}
def arityMismatchResult : Bool := {b('arityMismatchResult')}
/-- the loop runs over `zip(sig.parameters.values(), param_types)` (true) or over the required parameters only (false) -/
def zipAllParams : Bool := {b('zipAllParams')}
/-- the loop test is `_is_subtype(sub_type=param.annotation, super_type=expected_type)`; a failing test returns `paramFailResult` -/
def paramSubIsDeclared : Bool := {b('paramSubIsDeclared')}
def paramFailResult : Bool := {b('paramFailResult')}
/-- `if not inspect.iscoroutinefunction(value):` separates plain functions from coroutine functions -/
def coroTest : Bool := {b('coroTest')}
/-- plain functions: `return _is_subtype(sub_type=sig.return_annotation, super_type=ret_type)` (checked) or a constant -/
def syncReturnChecked : Bool := {b('syncReturnChecked')}
def syncReturnConst : Bool := {b('syncReturnConst')}
def syncRetSubIsDeclared : Bool := {b('syncRetSubIsDeclared')}
/-- coroutine functions: `base == typing.Awaitable` uses type argument `awaitableArgIndex`, `base == typing.Coroutine` uses
    `coroutineArgIndex`, every other expected return type returns the top-type test `_get_class_of_type_annotation(ret_type) is object`
    (`coroOtherTopTest`: calling a coroutine function yields a coroutine object, which only Any / object describe besides Awaitable /
    Coroutine) or the constant `coroOtherResult` -/
def awaitableArgIndex : Nat := {F['awaitableArgIndex']}
def coroutineArgIndex : Nat := {F['coroutineArgIndex']}
def coroOtherTopTest : Bool := {b('coroOtherTopTest')}
def coroOtherResult : Bool := {b('coroOtherResult')}
def coroReturnChecked : Bool := {b('coroReturnChecked')}
def coroRetSubIsDeclared : Bool := {b('coroRetSubIsDeclared')}

/-! ### `_is_lambda` -/

/-- `callable(obj) and …`: the name is only read for callables -/
def lambdaTestsCallableFirst : Bool := {b('lambdaTestsCallableFirst')}
/-- the name is read with a default (`getattr(obj, '__name__', …)`) instead of the plain attribute access `obj.__name__` -/
def lambdaNameGuarded : Bool := {b('lambdaNameGuarded')}
def lambdaName : String := {lean_str(F['lambdaName'])}

/-! ### `_is_subtype` -/

/-- `if sub_type is None: sub_type = type(None)` -/
def subNoneNormalised : Bool := {b('subNoneNormalised')}
/-- `if python_super is object: return <objectShortcutResult>` stands before every other test -/
def objectShortcut : Bool := {b('objectShortcut')}
def objectShortcutResult : Bool := {b('objectShortcutResult')}
/-- the Union branch tests the super type / the sub type for `typing.Union` and for `types.UnionType` -/
def superUnionTyping : Bool := {b('superUnionTyping')}
def superUnionPep604 : Bool := {b('superUnionPep604')}
def subUnionTyping : Bool := {b('subUnionTyping')}
def subUnionPep604 : Bool := {b('subUnionPep604')}
/-- Union sub type vs Union super type: `all([x in type_args for x in sub_type_args])` (true) or `any([...])` (false) -/
def unionSubQuantAll : Bool := {b('unionSubQuantAll')}
/-- membership is the `in` operator on the tuple of type arguments (both in the Union/Union case and in `sub_type in type_args`) -/
def unionMemberExact : Bool := {b('unionMemberExact')}
/-- Union super type: the branch ends with `return any(_is_subtype(sub_type=sub_type, super_type=ta, …) for ta in type_args)` (true)
    or with `return sub_type in type_args` (false) -/
def unionSuperBySubtype : Bool := {b('unionSuperBySubtype')}
/-- Union sub type: `all(_is_subtype(sub_type=x, super_type=super_type, …) for x in sub_type_args)` (true) or `all([x in type_args …])` (false) -/
def subUnionByMembers : Bool := {b('subUnionByMembers')}
/-- the Union-sub-type test is a statement of its own before the Union-super-type branch (true) or nested inside it (false) -/
def subUnionHoisted : Bool := {b('subUnionHoisted')}
/-- non-generic sub type: `issubclass(python_sub, python_super)` inside `try … except TypeError: … return <nonGenericCatchResult>` -/
def nonGenericSubFirst : Bool := {b('nonGenericSubFirst')}
def nonGenericCatchesTypeError : Bool := {b('nonGenericCatchesTypeError')}
def nonGenericCatchResult : Bool := {b('nonGenericCatchResult')}
/-- generic sub type: `if not issubclass(python_sub, python_super): return <genericOriginFailResult>`, not inside a `try` -/
def genericSubFirst : Bool := {b('genericSubFirst')}
def genericOriginGuarded : Bool := {b('genericOriginGuarded')}
def genericOriginFailResult : Bool := {b('genericOriginFailResult')}
/-- `len(sub_args) != len(super_args) and Ellipsis not in sub_args + super_args` → `return <argLenMismatchResult>` -/
def argLenMismatch (nSub nSuper : Nat) : Bool := {F['argLenMismatch']}
def argLenMismatchResult : Bool := {b('argLenMismatchResult')}
/-- `if not super_args: return <rawSuperResult>` stands before the argument-count test (plain class / unparametrised generic as super type) -/
def rawSuperShortcut : Bool := {b('rawSuperShortcut')}
def rawSuperResult : Bool := {b('rawSuperResult')}
/-- `return all(_is_subtype(sub_type=sub_arg, super_type=super_arg, …) for sub_arg, super_arg in zip(sub_args, super_args))` -/
def argsQuantAll : Bool := {b('argsQuantAll')}
def argsLazy : Bool := {b('argsLazy')}
def argSubIsSub : Bool := {b('argSubIsSub')}

/-! ### `_get_class_of_type_annotation` -/

/-- `if annotation in [Any, Ellipsis]: return object` -/
def anyMapsToObject : Bool := {b('anyMapsToObject')}
def ellipsisMapsToObject : Bool := {b('ellipsisMapsToObject')}
/-- `elif annotation.__module__ == 'typing' and annotation.__origin__ is not None: return annotation.__origin__` -/
def typingOriginUsed : Bool := {b('typingOriginUsed')}

/-! ### the way in: `assert_value_matches_type`, `_check_type`, `convert_to_typing_types` -/

/-- `if not _check_type(...)`: … `raise PedanticTypeCheckException(msg)` -/
def falseRaisesTypeCheck : Bool := {b('falseRaisesTypeCheck')}
/-- classes named by the `except` arms around `_is_instance` in `_check_type`, and the exception each arm raises -/
def checkTypeHandlers : List (List String × String) := {handlers}
/-- `convert_to_typing_types`: a `types.GenericAlias` whose origin is not a builtin container is re-subscripted as
    `alias[tuple(args)]` with `args` taken from the flat `x.__args__` -/
def convertResubscriptsFlatArgs : Bool := {b('convertResubscriptsFlatArgs')}
/-- `if origin is collections.abc.Callable:` stands before the generic conversion of the arguments and rebuilds
    `typing.Callable[flat[:-1], flat[-1]]` (every arity); its argument conversion leaves bare `list` / `dict` / … alone -/
def convertAbcCallable : Bool := {b('convertAbcCallable')}
def convertAbcBareTolerated : Bool := {b('convertAbcBareTolerated')}

end PedVerif.Gen.Callable
'''


FILES = {'Callable.lean': gen_callable}
