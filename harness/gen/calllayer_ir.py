"""Translator: the bodies of the @pedantic call layer, statement by statement, as a small closed IR.

Sources: `FunctionCall` (pedantic/models/function_call.py: __init__, type_vars, clazz, args_without_self, assert_uses_kwargs,
check_types, async_check_types, _check_types_of_arguments, _check_type_param, _check_types_args, _check_types_kwargs,
_check_types_return, _assert_param_has_type_annotation, _assert_annotation_is_complete, _get_return_value,
_async_get_return_value), the predicates of `DecoratedFunction` (pedantic/models/decorated_function.py) and the wrapper
bodies of `pedantic` / `require_kwargs`.

Every statement becomes one IR statement with an id (`<function number> * 100 + <position in the function>`; the function
entry is `<function number> * 100`); the order of the statements, the nesting of `if` / `elif` / `else`, every guard, every
comparison operator and every `not` are kept as they are written.  Local variables are numbered per type in the order of
their first assignment (renaming a local does not change the output), message strings of `raise` are not looked at.
`Model/CallLayerIR.lean` interprets the IR; `Lemmas/CallLayerIR.lean` proves that the interpretation equals the hand-written
model `Model/CallLayer.lean` for all inputs.  A statement outside the subset -> `Skip(reason)`.

`translate(repo)` returns (functions, lines): `lines` maps every statement id to the source lines of the statement itself
(for `if` / `for`: of the header) - computed from the current source, used by harness/props/_calltrace_common.py to map the
lines the interpreter of CPython executes to IR statements, and emitted as `Gen/CallLayerIRLines.lean`.
"""
import ast
from extract import Skip, src, find_func, lean_str, lean_bool, HEADER

FC = 'pedantic/models/function_call.py'
DF = 'pedantic/models/decorated_function.py'
PD = 'pedantic/decorators/fn_deco_pedantic.py'
RK = 'pedantic/decorators/fn_deco_require_kwargs.py'

CMP = {ast.Lt: '.lt', ast.LtE: '.le', ast.Gt: '.gt', ast.GtE: '.ge', ast.Eq: '.eq', ast.NotEq: '.ne'}
EMPTY = ('inspect.Signature.empty', 'inspect.Parameter.empty', 'inspect._empty')
# (number, Lean name, file, class (None: nested function of `outer`), python name, outer)
FUNCS = [
    (1, 'init', FC, 'FunctionCall', '__init__', None), (2, 'typeVars', FC, 'FunctionCall', 'type_vars', None),
    (3, 'clazz', FC, 'FunctionCall', 'clazz', None), (4, 'argsWithoutSelf', FC, 'FunctionCall', 'args_without_self', None),
    (5, 'assertUsesKwargs', FC, 'FunctionCall', 'assert_uses_kwargs', None), (6, 'checkTypes', FC, 'FunctionCall', 'check_types', None),
    (7, 'asyncCheckTypes', FC, 'FunctionCall', 'async_check_types', None),
    (8, 'checkArguments', FC, 'FunctionCall', '_check_types_of_arguments', None),
    (9, 'checkTypeParam', FC, 'FunctionCall', '_check_type_param', None), (10, 'checkTypesArgs', FC, 'FunctionCall', '_check_types_args', None),
    (11, 'checkTypesKwargs', FC, 'FunctionCall', '_check_types_kwargs', None), (12, 'checkTypesReturn', FC, 'FunctionCall', '_check_types_return', None),
    (13, 'assertHasAnnotation', FC, 'FunctionCall', '_assert_param_has_type_annotation', None),
    (14, 'assertComplete', FC, 'FunctionCall', '_assert_annotation_is_complete', None),
    (15, 'getReturnValue', FC, 'FunctionCall', '_get_return_value', None), (16, 'asyncGetReturnValue', FC, 'FunctionCall', '_async_get_return_value', None),
    (17, 'shouldHaveKwargs', DF, 'DecoratedFunction', 'should_have_kwargs', None), (18, 'isInstanceMethod', DF, 'DecoratedFunction', 'is_instance_method', None),
    (19, 'isClassMethod', DF, 'DecoratedFunction', 'is_class_method', None), (20, 'isStaticMethod', DF, 'DecoratedFunction', 'is_static_method', None),
    (21, 'wantsArgs', DF, 'DecoratedFunction', 'wants_args', None), (22, 'isPropertySetter', DF, 'DecoratedFunction', 'is_property_setter', None),
    (23, 'isPedantic', DF, 'DecoratedFunction', 'is_pedantic', None), (24, 'isCoroutine', DF, 'DecoratedFunction', 'is_coroutine', None),
    (25, 'isGenerator', DF, 'DecoratedFunction', 'is_generator', None), (26, 'numOfDecorators', DF, 'DecoratedFunction', 'num_of_decorators', None),
    (27, 'pedWrapper', PD, None, 'wrapper', 'decorator'), (28, 'pedAsyncWrapper', PD, None, 'async_wrapper', 'decorator'),
    (29, 'rkWrapper', RK, None, 'wrapper', 'require_kwargs'), (30, 'pedSelect', PD, None, 'decorator', 'pedantic'),
    (31, 'notYetChecked', FC, 'FunctionCall', 'not_yet_check_kwargs', None),
]
FUNC_PROPS = {'should_have_kwargs': '.shouldHaveKwargs', 'is_instance_method': '.isInstanceMethod', 'is_static_method': '.isStaticMethod',
              'is_class_method': '.isClassMethod', 'is_pedantic': '.isPedantic', 'is_generator': '.isGenerator', 'is_coroutine': '.isCoroutine',
              'is_property_setter': '.isPropertySetter', 'wants_args': '.wantsArgs'}


def u(e):
    return ast.unparse(e)


def strip_doc(body):
    return [s for s in body if not (isinstance(s, ast.Expr) and isinstance(s.value, ast.Constant) and isinstance(s.value.value, str))]


def kwargs_of(call, what, allowed):
    if call.args:
        raise Skip(f'{what}: positional arguments')
    out = {}
    for k in call.keywords:
        if k.arg is None or k.arg not in allowed:
            raise Skip(f'{what}: unexpected argument {k.arg}')
        out[k.arg] = k.value
    return out


class FnTr:
    """translates one function body"""

    def __init__(self, num, lname, fn, tree_consts, in_df):
        self.num, self.lname, self.fn, self.consts, self.in_df = num, lname, fn, tree_consts, in_df
        self.next = 1
        self.lines = {num * 100: (fn.name, fn.lineno, fn.lineno)}
        self.labels = {num * 100: 'entry'}
        self.roles = {}                 # local name -> (role, index)
        self.count = {'nat': 0, 'bool': 0, 'val': 0, 'ann': 0}
        self.me = 'self'
        names = [a.arg for a in fn.args.args]
        self.params = names[1:] if names[:1] == ['self'] else names
        role_of_param = {'_check_type_param': ['params'], '_check_types_args': ['params'], '_check_types_kwargs': ['params'],
                         '_check_types_return': ['result'], '_assert_param_has_type_annotation': ['param'],
                         '_assert_annotation_is_complete': ['annarg']}.get(fn.name, [])
        for n, r in zip(self.params, role_of_param):
            self.roles[n] = (r, 0)

    def skip(self, why, node=None):
        raise Skip(f'{self.fn.name}: {why}' + (f': {u(node)[:70]}' if node is not None else ''))

    def new_id(self, first, last):
        i = self.num * 100 + self.next
        self.next += 1
        if self.next > 99:
            self.skip('more than 98 statements')
        self.lines[i] = (self.fn.name, first, last)
        return i

    def label(self, i, text):
        self.labels[i] = text

    def role(self, e):
        return self.roles.get(e.id, (None, 0)) if isinstance(e, ast.Name) else (None, 0)

    def is_role(self, e, r):
        return self.role(e)[0] == r

    def fobj(self, e):
        """is `e` the DecoratedFunction: `self.func` inside FunctionCall, `self` inside DecoratedFunction, `decorated_func` in a wrapper"""
        if self.in_df:
            return isinstance(e, ast.Name) and e.id == 'self'
        return u(e) in ('self.func', 'self._func') or self.is_role(e, 'dfunc') or (isinstance(e, ast.Name) and e.id == 'decorated_func')

    # ---------------------------------------------------------------- expressions
    def nat(self, e):
        if isinstance(e, ast.Constant) and type(e.value) is int and e.value >= 0:
            return f'(.lit {e.value})'
        if self.is_role(e, 'nat'):
            return f'(.loc {self.role(e)[1]})'
        t = u(e)
        if t in ('len(self.args)', 'len(self._args)'):
            return '.lenArgs'
        if isinstance(e, ast.Attribute) and e.attr == 'num_of_decorators' and self.fobj(e.value):
            return '.numDecorators'
        if isinstance(e, ast.IfExp):
            return f'(.cond {self.guard(e.test)} {self.nat(e.body)} {self.nat(e.orelse)})'
        if isinstance(e, ast.BinOp) and isinstance(e.op, ast.Add):
            return f'(.add {self.nat(e.left)} {self.nat(e.right)})'
        if isinstance(e, ast.Call) and u(e.func) == 'len' and len(e.args) == 1 and isinstance(e.args[0], ast.Call) \
                and u(e.args[0].func) == 're.findall' and len(e.args[0].args) == 2 and isinstance(e.args[0].args[0], ast.Constant) \
                and isinstance(e.args[0].args[0].value, str) and len(e.args[0].args[0].value) == 1 and not e.args[0].args[0].value.isalnum() \
                and u(e.args[0].args[1]) in ('self._decorator_lines', "self.source.split('def')[0]"):
            return f"(.countOcc {lean_str(e.args[0].args[0].value)} {lean_bool(u(e.args[0].args[1]) == 'self._decorator_lines')})"
        self.skip('numeric expression outside the subset', e)

    def is_nat(self, e):
        try:
            self.nat(e)
            return True
        except Skip:
            return False

    def guard(self, e):
        if isinstance(e, ast.BoolOp):
            c = '.and' if isinstance(e.op, ast.And) else '.or'
            parts = [self.guard(v) for v in e.values]
            out = parts[-1]
            for p in reversed(parts[:-1]):
                out = f'({c} {p} {out})'
            return out
        if isinstance(e, ast.UnaryOp) and isinstance(e.op, ast.Not):
            return f'(.not {self.guard(e.operand)})'
        if isinstance(e, ast.Constant) and isinstance(e.value, bool):
            return '.tt' if e.value else '.ff'
        if isinstance(e, ast.Compare) and len(e.ops) == 1:
            return self.compare(e, e.left, e.ops[0], e.comparators[0])
        if isinstance(e, ast.Call):
            f, t = e.func, u(e)
            if isinstance(f, ast.Attribute) and f.attr in ('startswith', 'endswith') and len(e.args) == 1 and not e.keywords \
                    and isinstance(e.args[0], ast.Constant) and isinstance(e.args[0].value, str):
                s = lean_str(e.args[0].value)
                if isinstance(f.value, ast.Call) and u(f.value.func) == 'str' and len(f.value.args) == 1 and self.is_role(f.value.args[0], 'param') \
                        and f.attr == 'startswith':
                    return f'(.atom (.paramStrStartsWith {s}))'
                if isinstance(f.value, ast.Attribute) and f.value.attr == 'name' and self.fobj(f.value.value):
                    return f"(.atom (.{'nameStartsWith' if f.attr == 'startswith' else 'nameEndsWith'} {s}))"
            if t == 'hasattr(self._instance, TYPE_VAR_METHOD_NAME)':
                return '(.atom .instanceHasTypeVarMethod)'
            if u(f) == '_has_required_type_arguments' and len(e.args) == 1 and not e.keywords and self.is_role(e.args[0], 'annarg'):
                return '(.atom .hasRequiredTypeArguments)'
            if t in ('inspect.ismethod(self._func)', 'inspect.iscoroutinefunction(self._func)', 'inspect.isgeneratorfunction(self._func)') and self.in_df:
                return {'ismethod': '(.atom .funcIsBoundMethod)', 'iscoroutinefunction': '(.atom .funcIsCoroutineFunction)',
                        'isgeneratorfunction': '(.atom .funcIsGeneratorFunction)'}[f.attr]
        if isinstance(e, ast.Attribute):
            if e.attr in FUNC_PROPS and self.fobj(e.value):
                return f'(.atom {FUNC_PROPS[e.attr]})'
            if u(e) == 'self.args_without_self':
                return '(.atom .argsWithoutSelfNonEmpty)'
            if u(e) in ('self.args', 'self._args'):
                return '(.atom .argsNonEmpty)'
        if self.is_role(e, 'params'):
            return '(.not (.atom .paramsEmpty))'
        if self.is_role(e, 'bool'):
            return f'(.atom (.locB {self.role(e)[1]}))'
        self.skip('condition outside the subset', e)

    def compare(self, e, l, op, r):
        lt, rt = u(l), u(r)
        pos = isinstance(op, (ast.In, ast.Is, ast.Eq))
        neg = isinstance(op, (ast.NotIn, ast.IsNot, ast.NotEq))

        def signed(atom):
            return f'(.atom {atom})' if pos else f'(.not (.atom {atom}))'
        if isinstance(op, (ast.In, ast.NotIn)):
            if self.is_role(l, 'key') and rt in ('self.kwargs', 'self._kwargs'):
                return signed('.keyInKwargs')
            if self.is_role(l, 'kwkey') and rt == 'self._already_checked_kwargs':
                return signed('.kwKeyChecked')
            if lt == 'TYPE_VAR_SELF' and self.is_role(r, 'res'):
                return f'(.atom .selfTypeVarUnbound)' if neg else '(.not (.atom .selfTypeVarUnbound))'
            if self.is_role(l, 'annarg') and isinstance(r, (ast.List, ast.Tuple, ast.Set)) and all(isinstance(x, ast.Name) for x in r.elts):
                return signed('(.annotationInBareList [' + ', '.join(lean_str(x.id) for x in r.elts) + '])')
            if isinstance(l, ast.Constant) and isinstance(l.value, str) and rt in ('self.source', 'self._decorator_lines') and self.in_df:
                return signed(f"(.needleIn {lean_str(l.value)} {lean_bool(rt == 'self._decorator_lines')})")
            if isinstance(l, ast.JoinedStr) and rt in ('self.source', 'self._decorator_lines') and self.in_df:
                p = l.values
                if len(p) == 3 and isinstance(p[0], ast.Constant) and isinstance(p[1], ast.FormattedValue) and u(p[1].value) == 'self.name' \
                        and p[1].conversion == -1 and p[1].format_spec is None and isinstance(p[2], ast.Constant):
                    return signed(f"(.setterNeedleIn {lean_str(p[0].value)} {lean_str(p[2].value)} {lean_bool(rt == 'self._decorator_lines')})")
            if lt == 'self.name' and isinstance(r, ast.Name) and r.id in self.consts and self.in_df:
                return signed('(.nameInList [' + ', '.join(lean_str(x) for x in self.consts[r.id]) + '])')
        if isinstance(op, (ast.Is, ast.IsNot, ast.Eq, ast.NotEq)):
            if rt in EMPTY and isinstance(l, ast.Attribute) and self.is_role(l.value, 'param') and l.attr in ('default', 'annotation'):
                return signed('.defaultIsEmpty' if l.attr == 'default' else '.annotationIsEmpty')
            if rt in EMPTY and lt == 'self.func.signature.return_annotation':
                return signed('.returnAnnotationEmpty')
            if rt == 'None' and lt == 'self._instance' and isinstance(op, (ast.Is, ast.IsNot)):
                return '(.atom .instanceIsNotNone)' if neg else '(.not (.atom .instanceIsNotNone))'
            if rt == 'None' and lt == 'self._resolved_type_vars' and isinstance(op, (ast.Is, ast.IsNot)):
                return signed('.resolvedTypeVarsIsNone')
            if isinstance(op, (ast.Eq, ast.NotEq)):
                if self.is_role(l, 'kwkey') and self.is_role(r, 'optname'):
                    return signed('.kwKeyIsLocalName')
                if self.is_role(l, 'kwkey') and isinstance(r, ast.Constant) and isinstance(r.value, str):
                    return signed(f'(.kwKeyIs {lean_str(r.value)})')
                if lt == 'self._full_arg_spec.args' and rt == '[]' and self.in_df:
                    return '(.atom .argSpecArgsNonEmpty)' if neg else '(.not (.atom .argSpecArgsNonEmpty))'
                if lt == 'self._full_arg_spec.args[0]' and isinstance(r, ast.Constant) and isinstance(r.value, str) and self.in_df:
                    return signed(f'(.firstArgSpecArgIs {lean_str(r.value)})')
                if isinstance(l, ast.Attribute) and l.attr == 'name' and self.is_role(l.value, 'param') and isinstance(r, ast.Constant) and isinstance(r.value, str):
                    return signed(f'(.paramNameIs {lean_str(r.value)})')
        if type(op) in CMP and self.is_nat(l) and self.is_nat(r):
            return f'(.cmp {CMP[type(op)]} {self.nat(l)} {self.nat(r)})'
        self.skip('comparison outside the subset', e)

    def val(self, e):
        if isinstance(e, ast.Subscript) and not isinstance(e.slice, ast.Slice):
            if u(e.value) in ('self.kwargs', 'self._kwargs') and self.is_role(e.slice, 'key'):
                return '.kwargsAtKey'
            if u(e.value) in ('self.args', 'self._args') and self.is_nat(e.slice):
                return f'(.argsAt {self.nat(e.slice)})'
        if isinstance(e, ast.Attribute) and e.attr == 'default' and self.is_role(e.value, 'param'):
            return '.paramDefault'
        r = self.role(e)[0]
        if r in ('val', 'item', 'result'):
            return {'val': '.local', 'item': '.loopItem', 'result': '.result'}[r]
        self.skip('value expression outside the subset', e)

    def ann(self, e):
        if isinstance(e, ast.Attribute) and e.attr == 'annotation' and self.is_role(e.value, 'param'):
            return '.paramAnnotation'
        if u(e) == "self.func.annotations['return']":
            return '.returnAnnotationEntry'
        r = self.role(e)[0]
        if r in ('ann', 'annarg'):
            return '.local' if r == 'ann' else '.argument'
        self.skip('annotation expression outside the subset', e)

    def fmt_args(self, e):
        """the user values a message interpolates: [(source, goes through _describe?)] - literal text, names, types and annotations are not looked at"""
        out = []
        if isinstance(e, ast.JoinedStr):
            for part in e.values:
                if isinstance(part, ast.FormattedValue):
                    v, safe = part.value, False
                    if isinstance(v, ast.Call) and u(v.func) in ('_describe', 'check_types._describe') and len(v.args) == 1 and not v.keywords:
                        v, safe = v.args[0], True
                    r = self.role(v)[0]
                    t = u(v)
                    srcs = {'result': '.result', 'val': '.local', 'item': '.loopItem'}
                    if r in srcs:
                        out.append(f'({srcs[r]}, {lean_bool(safe)})')
                    elif t == 'self.args_without_self':
                        out.append(f'(.argsWithoutSelf, {lean_bool(safe)})')
                    elif t in ('self.args', 'self._args', 'args'):
                        out.append(f'(.args, {lean_bool(safe)})')
                    elif t in ('self.kwargs', 'self._kwargs', 'kwargs'):
                        out.append(f'(.kwargs, {lean_bool(safe)})')
        elif isinstance(e, ast.BinOp) and isinstance(e.op, ast.Add):
            return self.fmt_args(e.left) + self.fmt_args(e.right)
        return out

    def fmt_list(self, e):
        return '[' + ', '.join(self.fmt_args(e)) + ']'

    def inst_expr(self, e):
        """the value `_instance` gets"""
        t = u(e)
        if t == 'None':
            return '.none'
        if t in ('self.args[0]', 'self._args[0]', 'args[0]'):
            return '.firstArg'
        if isinstance(e, ast.Call) and u(e.func) in ('self.kwargs.get', 'self._kwargs.get', 'kwargs.get') and len(e.args) == 1 and not e.keywords \
                and isinstance(e.args[0], ast.Constant) and isinstance(e.args[0].value, str):
            return f'(.kwargsGet {lean_str(e.args[0].value)})'
        if isinstance(e, ast.IfExp):
            return f'(.cond {self.guard(e.test)} {self.inst_expr(e.body)} {self.inst_expr(e.orelse)})'
        self.skip('receiver expression outside the subset', e)

    def tries(self, f, e):
        try:
            return f(e)
        except Skip:
            return None

    def param_filter(self, comp, what):
        """{k: v for k, v in <items> if <cond on v>} -> the condition as a guard over the parameter"""
        if not (isinstance(comp, ast.DictComp) and len(comp.generators) == 1 and not comp.generators[0].is_async
                and isinstance(comp.generators[0].target, ast.Tuple) and len(comp.generators[0].target.elts) == 2
                and all(isinstance(x, ast.Name) for x in comp.generators[0].target.elts)):
            self.skip(f'{what}: not a dict comprehension over (name, parameter) pairs', comp)
        g = comp.generators[0]
        k, v = (x.id for x in g.target.elts)
        if not (isinstance(comp.key, ast.Name) and comp.key.id == k and isinstance(comp.value, ast.Name) and comp.value.id == v):
            self.skip(f'{what}: the comprehension does not keep the pairs', comp)
        if not (self.is_role(g.iter, 'pitems') or u(g.iter) in ('self.func.signature.parameters.items()', 'self.params_without_self.items()')):
            self.skip(f'{what}: the comprehension does not range over the parameters', comp)
        saved = dict(self.roles)
        self.roles[v] = ('param', 0)
        try:
            cond = '.tt'
            for c in reversed(g.ifs):
                cond = self.guard(c) if cond == '.tt' else f'(.and {self.guard(c)} {cond})'
        finally:
            self.roles = saved
        return cond, (u(g.iter) == 'self.func.signature.parameters.items()')

    # ---------------------------------------------------------------- statements
    def bind(self, name, kind):
        cur = self.roles.get(name)
        if cur is not None and cur[0] == kind:
            return cur[1]
        if cur is not None:
            self.skip(f'local {name} changes its type')
        if kind in self.count:
            i = self.count[kind]
            self.count[kind] += 1
            limit = {'nat': 2, 'bool': 1, 'val': 1, 'ann': 1}[kind]
            if i >= limit:
                self.skip(f'more than {limit} local(s) of type {kind}')
        else:
            i = 0
        self.roles[name] = (kind, i)
        return i

    def block(self, stmts):
        out = []
        for s in strip_doc(stmts):
            t = self.stmt(s)
            if t is not None:
                out.append(t)
        return 'Stmt.ofList [' + ', '.join(out) + ']' if out else '.skip'

    def act(self, s, a, last=None):
        i = self.new_id(s.lineno, last or s.end_lineno)
        self.label(i, a.strip('()'))
        return f'.act {i} {a}'

    def check_value(self, call):
        k = kwargs_of(call, 'assert_value_matches_type', {'value', 'type_', 'err', 'type_vars', 'key', 'context', 'msg'})
        if 'value' not in k or 'type_' not in k:
            self.skip('assert_value_matches_type without value / type_', call)
        if 'key' in k and not self.is_role(k['key'], 'key'):
            self.skip('assert_value_matches_type: key is not the name of the parameter', call)
        tv = 'type_vars' in k and u(k['type_vars']) == 'self.type_vars'
        cx = 'context' in k and u(k['context']) == 'self._context'
        msg = '.none'
        if 'msg' in k:
            r = self.role(k['msg'])[0]
            if r not in ('text', 'lazytext'):
                self.skip('assert_value_matches_type: msg is neither a text built before nor a function building it', call)
            msg = '.eager' if r == 'text' else '.lazy'
        return f"(.checkValue {self.val(k['value'])} {self.ann(k['type_'])} {lean_bool('key' in k)} {lean_bool(tv)} {lean_bool(cx)} {msg})"

    def ret_expr(self, e):
        if e is None or (isinstance(e, ast.Constant) and e.value is None):
            return '.none'
        aw = isinstance(e, ast.Await)
        if aw:
            e = e.value
        A = lean_bool(aw)
        t = u(e)
        if isinstance(e, ast.Subscript) and u(e.value) in ('self.args', 'self._args') and isinstance(e.slice, ast.Slice) and e.slice.upper is None \
                and e.slice.step is None and isinstance(e.slice.lower, ast.Constant) and type(e.slice.lower.value) is int and e.slice.lower.value >= 0:
            return f'(.argsFrom {e.slice.lower.value})'
        fixed = {'self.args': '.args', 'self._args': '.args', 'type(self._instance)': '.typeOfInstance', 'self.func.func.__self__': '.boundSelf',
                 'type(self.args[0])': '.typeOfFirstArg', 'self._resolved_type_vars': '.resolvedTypeVars',
                 'self.func.func(**self.kwargs)': f'(.callFunc true {A})', 'self.func.func(*self.args, **self.kwargs)': f'(.callFunc false {A})',
                 'self._check_types_return(result=self._get_return_value())': f'(.checkReturnOfBody false false {A})',
                 'self._check_types_return(result=await self._async_get_return_value())': f'(.checkReturnOfBody true true {A})',
                 'self._check_types_return(result=self._async_get_return_value())': f'(.checkReturnOfBody true false {A})',
                 'func(*args, **kwargs)': f'(.callRaw {A})' if self.fn.name == 'wrapper' and not self.in_df else None,
                 'async_wrapper': '(.wrapperFn true)', 'wrapper': '(.wrapperFn false)'}
        if fixed.get(t):
            return fixed[t]
        if isinstance(e, ast.Call) and isinstance(e.func, ast.Attribute) and self.is_role(e.func.value, 'call') and not e.args and not e.keywords \
                and e.func.attr in ('check_types', 'async_check_types'):
            return f"(.checkTypes {lean_bool(e.func.attr == 'async_check_types')} {A})"
        if isinstance(e, ast.Call) and u(e.func) == 'ForwardRef' and len(e.args) == 1 and self.is_role(e.args[0], 'clsname'):
            return '.forwardRef'
        if isinstance(e, ast.Call) and u(e.func) == 'GeneratorWrapper':
            k = kwargs_of(e, 'GeneratorWrapper', {'wrapped', 'expected_type', 'err_msg', 'type_vars', 'context'})
            if not ('wrapped' in k and self.is_role(k['wrapped'], 'result') and 'expected_type' in k):
                self.skip('GeneratorWrapper is not given the result and the expected type', e)
            tv = 'type_vars' in k and u(k['type_vars']) == 'self.type_vars'
            cx = 'context' in k and u(k['context']) == 'self._context'
            return f"(.wrapGenerator {self.ann(k['expected_type'])} {lean_bool(tv)} {lean_bool(cx)})"
        if self.is_role(e, 'result') and not aw:
            return '.result'
        if self.fn.name == 'not_yet_check_kwargs' and isinstance(e, ast.DictComp) and len(e.generators) == 1 and u(e.generators[0].iter) == 'self._kwargs.items()' \
                and isinstance(e.generators[0].target, ast.Tuple) and len(e.generators[0].target.elts) == 2 and all(isinstance(x, ast.Name) for x in e.generators[0].target.elts) \
                and u(e.key) == e.generators[0].target.elts[0].id and u(e.value) == e.generators[0].target.elts[1].id:
            saved = dict(self.roles)
            self.roles[e.generators[0].target.elts[0].id] = ('kwkey', 0)
            try:
                cond = '.tt'
                for c in reversed(e.generators[0].ifs):
                    cond = self.guard(c) if cond == '.tt' else f'(.and {self.guard(c)} {cond})'
            finally:
                self.roles = saved
            return f'(.kwargsWhere {cond})'
        if self.in_df:
            n = self.tries(self.nat, e)
            return f'(.nat {n})' if n else f'(.bool {self.guard(e)})'
        self.skip('returned expression outside the subset', e)

    def assign_name(self, s, name, v):
        t = u(v)
        special = {"self.func.full_name.split('.')[-2]": ('clsname', '(.splitQualname 2)'), 'self._get_type_vars()': ('res', '.callTypeVarGetter'),
                   'self.params_without_self.items()': ('pitems', '.bindParamItems'), 'self._params_without_self.items()': ('pitems', '.bindParamItems'),
                   'DecoratedFunction(func=func)': ('dfunc', '.describeFunc'), 'DecoratedFunction(func)': ('dfunc', '.describeFunc')}
        if t in special:
            self.bind(name, special[t][0])
            return self.act(s, special[t][1])
        if isinstance(v, ast.Subscript) and isinstance(v.slice, ast.Constant) and v.slice.value == 0 and isinstance(v.value, ast.Call) \
                and u(v.value.func) == 'list' and len(v.value.args) == 1 and isinstance(v.value.args[0], ast.Call) \
                and isinstance(v.value.args[0].func, ast.Attribute) and self.is_role(v.value.args[0].func.value, 'params') \
                and v.value.args[0].func.attr in ('values', 'keys') and not v.value.args[0].args:
            which = v.value.args[0].func.attr
            self.bind(name, 'param' if which == 'values' else 'key')
            return self.act(s, '.bindFirstParam' if which == 'values' else '.bindFirstName')
        if isinstance(v, ast.Call) and isinstance(v.func, ast.Attribute) and v.func.attr == 'get' \
                and u(v.func.value) == 'self.func.signature.bind_partial(*self.args).arguments' and len(v.args) == 2 \
                and self.is_role(v.args[0], 'key') and u(v.args[1]) == '()':
            self.bind(name, 'starvals')
            return self.act(s, '.bindStarValues')
        if isinstance(v, ast.Call) and u(v.func) == 'FunctionCall':
            k = kwargs_of(v, 'FunctionCall', {'func', 'args', 'kwargs', 'context'})
            if not (len(k) == 4 and (self.is_role(k['func'], 'dfunc') or u(k['func']) == 'decorated_func') and u(k['args']) == 'args' and u(k['kwargs']) == 'kwargs'):
                self.skip('FunctionCall is not constructed from the decorated function and the arguments of the wrapper', v)
            c = k['context']
            if isinstance(c, ast.Call) and u(c.func) == 'get_context' and len(c.args) == 1 and isinstance(c.args[0], ast.Constant) and not c.keywords:
                ctx = f'(.callerFrame {c.args[0].value})'
            elif u(c) in ('{}', 'dict()'):
                ctx = '.empty'
            else:
                self.skip('context of the call outside the subset', c)
            self.bind(name, 'call')
            return self.act(s, f'(.construct {ctx})')
        if isinstance(v, (ast.JoinedStr,)) or (isinstance(v, ast.Constant) and isinstance(v.value, str)):
            self.bind(name, 'text')
            return self.act(s, f'(.assignText {self.fmt_list(v)})')
        if isinstance(v, ast.Lambda) and not v.args.args and isinstance(v.body, (ast.JoinedStr, ast.Constant)):
            self.bind(name, 'lazytext')
            return self.act(s, f'(.defineLazyText {self.fmt_list(v.body)})')
        if isinstance(v, ast.IfExp) and isinstance(v.body, ast.Constant) and isinstance(v.body.value, str) and u(v.orelse) == 'None':
            self.bind(name, 'optname')
            return self.act(s, f'(.assignName {self.guard(v.test)} {lean_str(v.body.value)})')
        n = self.tries(self.nat, v)
        if n is not None and not self.in_df:
            return self.act(s, f"(.assignN {self.bind(name, 'nat')} {n})")
        a = self.tries(self.ann, v)
        if a is not None:
            self.bind(name, 'ann')
            return self.act(s, f'(.assignA {a})')
        x = self.tries(self.val, v)
        if x is not None:
            self.bind(name, 'val')
            return self.act(s, f'(.assignV {x})')
        if isinstance(v, (ast.Compare, ast.BoolOp, ast.UnaryOp)):
            g = self.guard(v)
            return self.act(s, f"(.assignB {self.bind(name, 'bool')} {g})")
        self.skip('assignment outside the subset', s)

    def assign_init(self, s, attr, v):
        t = u(v)
        plain = {('_func', 'func'): '.storeFunc', ('_args', 'args'): '.storeArgs', ('_kwargs', 'kwargs'): '.storeKwargs',
                 ('_type_vars', 'dict()'): '.initTypeVars', ('_type_vars', '{}'): '.initTypeVars',
                 ('_already_checked_kwargs', '[]'): '.initChecked', ('_already_checked_kwargs', 'list()'): '.initChecked',
                 ('_get_type_vars', 'lambda: self._type_vars'): '.initTypeVarGetter', ('_resolved_type_vars', 'None'): '.initResolved'}
        if (attr, t) in plain:
            return self.act(s, plain[(attr, t)])
        if attr == '_context' and isinstance(v, ast.Dict) and all(k is None for k in v.keys):
            srcs = []
            for x in v.values:
                if u(x) == 'context':
                    srcs.append('.callerContext')
                elif u(x) in ('func.globals', 'self.func.globals', 'self._func.globals'):
                    srcs.append('.funcGlobals')
                else:
                    self.skip('context is merged from something else', x)
            return self.act(s, '(.setContext [' + ', '.join(srcs) + '])')
        if attr == '_context' and t == 'context':
            return self.act(s, '(.setContext [.callerContext])')
        if attr == '_instance':
            return self.act(s, f'(.setInstance {self.inst_expr(v)})')
        if attr == '_params_without_self':
            cond, direct = self.param_filter(v, '_params_without_self')
            if not direct:
                self.skip('_params_without_self does not range over the parameters of the signature', v)
            return self.act(s, f'(.setParamsWithoutSelf {cond})')
        self.skip('assignment in __init__ outside the subset', s)

    def stmt(self, s):
        if isinstance(s, ast.Pass):
            return None
        if isinstance(s, ast.If):
            i = self.new_id(s.lineno, s.test.end_lineno)
            g = self.guard(s.test)
            self.label(i, 'if ' + g)
            return f'.ite {i} {g} ({self.block(s.body)}) ({self.block(s.orelse)})'
        if isinstance(s, ast.For) and not s.orelse:
            i = self.new_id(s.lineno, s.iter.end_lineno)
            it, tg = s.iter, s.target
            self.label(i, 'for')
            if isinstance(it, ast.Call) and isinstance(it.func, ast.Attribute) and it.func.attr == 'items' and not it.args and self.is_role(it.func.value, 'params') \
                    and isinstance(tg, ast.Tuple) and len(tg.elts) == 2 and all(isinstance(x, ast.Name) for x in tg.elts):
                self.bind(tg.elts[0].id, 'key'); self.bind(tg.elts[1].id, 'param')
                return f'.forParams {i} ({self.block(s.body)})'
            if self.is_role(it, 'starvals') and isinstance(tg, ast.Name):
                self.bind(tg.id, 'item')
                return f'.forStarValues {i} ({self.block(s.body)})'
            if u(it) == 'self.not_yet_check_kwargs' and isinstance(tg, ast.Name):
                self.bind(tg.id, 'key')
                return f'.forUncheckedKwargs {i} ({self.block(s.body)})'
            self.skip('loop outside the subset', s.iter)
        if isinstance(s, ast.Return):
            i = self.new_id(s.lineno, s.end_lineno)
            r = self.ret_expr(s.value)
            self.label(i, 'return ' + r.strip('()'))
            return f'.ret {i} {r}'
        if isinstance(s, ast.Raise) and s.exc is not None and s.cause is None:
            name = u(s.exc.func) if isinstance(s.exc, ast.Call) else u(s.exc)
            fm = '[' + ', '.join(x for a0 in (s.exc.args if isinstance(s.exc, ast.Call) else []) for x in self.fmt_args(a0)) + ']'
            a = {'PedanticTypeCheckException': f'(.raisePed {fm})', 'PedanticCallWithArgsException': f'(.raiseCallWithArgs {fm})'}.get(name, f'(.raiseOther {lean_str(name)})')
            return self.act(s, a)
        if isinstance(s, ast.FunctionDef) and not s.args.args and not s.decorator_list and len(strip_doc(s.body)) == 1 \
                and isinstance(strip_doc(s.body)[0], ast.Return) and isinstance(strip_doc(s.body)[0].value, (ast.JoinedStr, ast.Constant)):
            # `def msg() -> str: return f'…'`: the text is built when (and if) the function is called
            self.bind(s.name, 'lazytext')
            i = self.new_id(s.lineno, s.lineno)
            a = f'(.defineLazyText {self.fmt_list(strip_doc(s.body)[0].value)})'
            self.label(i, a.strip('()'))
            return f'.act {i} {a}'
        if isinstance(s, ast.AugAssign) and isinstance(s.op, ast.Add) and self.is_role(s.target, 'nat'):
            j = self.role(s.target)[1]
            return self.act(s, f'(.assignN {j} (.add (.loc {j}) {self.nat(s.value)}))')
        if isinstance(s, ast.Assign) and len(s.targets) == 1:
            tg = s.targets[0]
            if isinstance(tg, ast.Name):
                return self.assign_name(s, tg.id, s.value)
            if isinstance(tg, ast.Attribute) and u(tg.value) == 'self':
                if self.fn.name == '__init__':
                    return self.assign_init(s, tg.attr, s.value)
                if tg.attr == '_get_type_vars' and u(s.value) == 'getattr(self._instance, TYPE_VAR_METHOD_NAME)':
                    return self.act(s, '.useInstanceTypeVarGetter')
                if tg.attr == '_resolved_type_vars' and self.is_role(s.value, 'res'):
                    return self.act(s, '.storeResolved')
            if isinstance(tg, ast.Subscript) and self.is_role(tg.value, 'res') and u(tg.slice) == 'TYPE_VAR_SELF' and u(s.value) == 'self.clazz':
                return self.act(s, '.bindSelfTypeVarToClazz')
        if isinstance(s, ast.Expr) and isinstance(s.value, ast.Call):
            c = s.value
            f = u(c.func)
            if f == 'self._already_checked_kwargs.append' and len(c.args) == 1 and not c.keywords and self.is_role(c.args[0], 'key'):
                return self.act(s, '.markChecked')
            if f == 'self._assert_param_has_type_annotation':
                k = kwargs_of(c, f, {'param'}) if c.keywords else {'param': c.args[0]} if len(c.args) == 1 else {}
                if 'param' in k and self.is_role(k['param'], 'param'):
                    return self.act(s, '.assertHasAnnotation')
            if f == 'self._assert_annotation_is_complete':
                k = kwargs_of(c, f, {'annotation'}) if c.keywords else {'annotation': c.args[0]} if len(c.args) == 1 else {}
                if 'annotation' in k:
                    return self.act(s, f"(.assertComplete {self.ann(k['annotation'])})")
            if f == 'assert_value_matches_type':
                return self.act(s, self.check_value(c))
            if f == 'self._check_types_of_arguments' and not c.args and not c.keywords:
                return self.act(s, '.callCheckArguments')
            if f in ('self._check_type_param', 'self._check_types_args', 'self._check_types_kwargs'):
                k = kwargs_of(c, f, {'params'}) if c.keywords else {'params': c.args[0]} if len(c.args) == 1 else {}
                if 'params' in k:
                    cond, direct = self.param_filter(k['params'], f)
                    if direct:
                        self.skip('the checks do not range over params_without_self', c)
                    which = {'self._check_type_param': '.typeParam', 'self._check_types_args': '.starArgs', 'self._check_types_kwargs': '.starKwargs'}[f]
                    return self.act(s, f'(.callCheck {which} {cond})')
            if isinstance(c.func, ast.Attribute) and c.func.attr == 'assert_uses_kwargs' and self.is_role(c.func.value, 'call') and not c.args and not c.keywords:
                return self.act(s, '.callAssertUsesKwargs')
        self.skip('statement outside the subset', s)


def module_consts(tree):
    out = {}
    for n in tree.body:
        if isinstance(n, ast.Assign) and len(n.targets) == 1 and isinstance(n.targets[0], ast.Name) and isinstance(n.value, (ast.List, ast.Tuple)) \
                and all(isinstance(e, ast.Constant) and isinstance(e.value, str) for e in n.value.elts):
            out[n.targets[0].id] = [e.value for e in n.value.elts]
    return out


def find_nested(tree, outer, name):
    o = find_func(tree, outer)
    if name == outer:
        return o
    for n in ast.walk(o):
        if isinstance(n, (ast.FunctionDef, ast.AsyncFunctionDef)) and n.name == name and n is not o:
            return n
    raise Skip(f'{outer}.{name} not found')


def translate(repo):
    """-> (functions: [(number, lean name, python name, file, is_async, lean term)], lines: {id: (file, python name, first, last, label)})"""
    trees = {rel: ast.parse(src(repo, rel)) for rel in (FC, DF, PD, RK)}
    funcs, lines = [], {}
    for num, lname, rel, cls, pyname, outer in FUNCS:
        fn = find_func(trees[rel], pyname, cls) if cls else find_nested(trees[rel], outer, pyname)
        tr = FnTr(num, lname, fn, module_consts(trees[rel]), rel == DF)
        if lname == 'pedSelect':
            # the part of `decorator` that chooses between the two wrappers: the trailing `if decorated_func.is_coroutine: return …`
            tail = [s for s in strip_doc(fn.body) if isinstance(s, ast.If) and any(isinstance(x, ast.Return) for x in ast.walk(s))
                    and 'wrapper' in u(s)]
            if len(tail) != 1 or strip_doc(fn.body)[-1] is not tail[0]:
                raise Skip('decorator: the choice between wrapper and async_wrapper is not the last statement')
            term = tr.block(tail)
        else:
            term = tr.block(fn.body)
        funcs.append((num, lname, pyname, rel, isinstance(fn, ast.AsyncFunctionDef), term))
        for i, (n, a, b) in tr.lines.items():
            lines[i] = (rel, n, a, b, tr.labels.get(i, ''))
    return funcs, lines


CT = 'pedantic/type_checking_logic/check_types.py'


def _uses_unsafe(fn, names):
    """does a message of `fn` interpolate one of the parameters `names` (a user value) without `_describe`?  Statements are read in order; a
    name that has been re-assigned to a text (`value = f'…{_describe(value)}'`) no longer stands for the user's value"""
    live = set(names)
    unsafe = False

    def expr_unsafe(e):
        bad = False
        for n in ast.walk(e):
            if isinstance(n, ast.FormattedValue):
                v = n.value
                if isinstance(v, ast.Call) and u(v.func) == '_describe':
                    continue
                if any(isinstance(x, ast.Name) and x.id in live for x in ast.walk(v)):
                    bad = True
            if isinstance(n, ast.Call) and u(n.func) in ('str', 'repr', 'format') and n.args and isinstance(n.args[0], ast.Name) and n.args[0].id in live:
                bad = True
        return bad

    def walk(stmts):
        nonlocal unsafe
        for st in stmts:
            if isinstance(st, ast.Assign) and len(st.targets) == 1 and isinstance(st.targets[0], ast.Name):
                if expr_unsafe(st.value):
                    unsafe = True
                if st.targets[0].id in live and isinstance(st.value, (ast.JoinedStr, ast.IfExp, ast.Call)):
                    live.discard(st.targets[0].id)
                continue
            for f_ in ast.iter_fields(st):
                pass
            if isinstance(st, (ast.If, ast.Try, ast.For, ast.While, ast.With)):
                for fld in ('test', 'iter'):
                    if hasattr(st, fld) and expr_unsafe(getattr(st, fld)):
                        unsafe = True
                walk(getattr(st, 'body', []))
                walk(getattr(st, 'orelse', []))
                for h in getattr(st, 'handlers', []):
                    walk(h.body)
                walk(getattr(st, 'finalbody', []))
            elif expr_unsafe(st):
                unsafe = True
    walk(strip_doc(fn.body))
    return unsafe


def message_facts(repo):
    """facts about the messages of pedantic/type_checking_logic/check_types.py (which the IR does not translate) and, derived from the IR,
    about those of the call layer"""
    ct = ast.parse(src(repo, CT))
    avm = find_func(ct, 'assert_value_matches_type')
    names = [a.arg for a in avm.args.args]
    if names[:1] != ['value'] or 'msg' not in names:
        raise Skip('assert_value_matches_type: unexpected parameters')
    assert_safe = not _uses_unsafe(avm, ['value'])
    # `if callable(msg): msg = msg()` inside the failure branch: the text may be a function that is called only when the check failed
    lazy_ok = False
    for n in ast.walk(avm):
        if isinstance(n, ast.If) and u(n.test).startswith('not _check_type('):
            for m in ast.walk(n):
                if isinstance(m, ast.If) and u(m.test) == 'callable(msg)' and any(u(x) == 'msg = msg()' for x in m.body):
                    lazy_ok = True
    chk = find_func(ct, '_check_type')
    handler_safe = True
    for n in ast.walk(chk):
        if isinstance(n, ast.ExceptHandler):
            tn = u(n.type) if n.type is not None else ''
            if 'PedanticType' in tn:
                continue            # re-raises a message that is already a text
            hv = ['value'] + ([n.name] if n.name else [])
            for st in n.body:
                fake = ast.FunctionDef(name='h', args=None, body=[st], decorator_list=[])
                if _uses_unsafe(fake, hv):
                    handler_safe = False
    return {'assertMsgSafe': assert_safe, 'assertMsgMayBeLazy': lazy_ok, 'handlerMsgSafe': handler_safe}


PRELUDE = '''
namespace PedVerif.Gen.CallLayerIR

inductive Cmp where | lt | le | gt | ge | eq | ne
deriving DecidableEq, Repr
/-- atomic conditions (what they read is fixed by `Model/CallLayerIR.lean`) -/
inductive Atom where
  -- properties of the DecoratedFunction
  | shouldHaveKwargs | isInstanceMethod | isStaticMethod | isClassMethod | isPedantic | isGenerator | isCoroutine | isPropertySetter | wantsArgs
  -- inside DecoratedFunction: the name, the source text, what inspect reports
  | nameStartsWith (s : String) | nameEndsWith (s : String) | nameInList (l : List String)
  | needleIn (needle : String) (header : Bool) | setterNeedleIn (pre suf : String) (header : Bool)
  | funcIsBoundMethod | funcIsCoroutineFunction | funcIsGeneratorFunction | argSpecArgsNonEmpty | firstArgSpecArgIs (s : String)
  -- the call
  | argsWithoutSelfNonEmpty | argsNonEmpty | instanceIsNotNone | resolvedTypeVarsIsNone | instanceHasTypeVarMethod | selfTypeVarUnbound
  | returnAnnotationEmpty
  -- the current parameter / the `params` argument / the `annotation` argument
  | defaultIsEmpty | annotationIsEmpty | keyInKwargs | paramNameIs (s : String) | paramStrStartsWith (s : String) | paramsEmpty
  | annotationInBareList (names : List String) | hasRequiredTypeArguments
  -- a key of `self._kwargs` (inside `not_yet_check_kwargs`)
  | kwKeyChecked | kwKeyIsLocalName | kwKeyIs (s : String)
  | locB (i : Nat)
deriving DecidableEq, Repr
mutual
inductive NatE where
  | lit (n : Nat) | loc (i : Nat) | lenArgs | numDecorators | add (a b : NatE) | cond (g : Guard) (a b : NatE)
  | countOcc (mark : String) (header : Bool)
inductive Guard where
  | tt | ff | atom (a : Atom) | not (g : Guard) | and (a b : Guard) | or (a b : Guard) | cmp (op : Cmp) (a b : NatE)
end
inductive ValSrc where | kwargsAtKey | argsAt (i : NatE) | paramDefault | local | loopItem | result
inductive AnnSrc where | paramAnnotation | returnAnnotationEntry | local | argument
deriving DecidableEq, Repr
/-- a user value that a message interpolates; the Bool: through `_describe` (which cannot raise) -/
inductive FmtSrc where | result | local | loopItem | args | argsWithoutSelf | kwargs
deriving DecidableEq, Repr
abbrev FmtArg := FmtSrc × Bool
/-- the `msg` argument of `assert_value_matches_type`: absent, a text built before the call, a function that builds it on failure -/
inductive MsgArg where | none | eager | lazy
deriving DecidableEq, Repr
inductive CtxSrc where | callerContext | funcGlobals
deriving DecidableEq, Repr
inductive CallCtx where | callerFrame (depth : Nat) | empty
deriving DecidableEq, Repr
inductive CheckFn where | typeParam | starArgs | starKwargs
deriving DecidableEq, Repr
/-- what `self._instance` is set to -/
inductive InstE where
  | none | firstArg | kwargsGet (name : String) | cond (g : Guard) (a b : InstE)
inductive Action where
  | assignN (i : Nat) (e : NatE) | assignB (i : Nat) (g : Guard) | assignV (v : ValSrc) | assignA (a : AnnSrc)
  | assignText (fmt : List FmtArg) | defineLazyText (fmt : List FmtArg) | assignName (g : Guard) (name : String)
  | markChecked | raisePed (fmt : List FmtArg) | raiseCallWithArgs (fmt : List FmtArg) | raiseOther (name : String)
  | assertHasAnnotation | assertComplete (a : AnnSrc)
  | checkValue (v : ValSrc) (a : AnnSrc) (withKey withTypeVars withContext : Bool) (msg : MsgArg)
  | bindFirstParam | bindFirstName | bindStarValues | bindParamItems
  | callCheckArguments | callCheck (which : CheckFn) (filter : Guard) | callAssertUsesKwargs
  | construct (ctx : CallCtx) | describeFunc
  -- FunctionCall.__init__
  | storeFunc | storeArgs | storeKwargs | setContext (srcs : List CtxSrc) | setInstance (e : InstE)
  | initTypeVars | setParamsWithoutSelf (filter : Guard) | initChecked | initTypeVarGetter | initResolved
  -- type_vars / clazz
  | useInstanceTypeVarGetter | callTypeVarGetter | bindSelfTypeVarToClazz | storeResolved | splitQualname (fromEnd : Nat)
inductive RetE where
  | none | args | argsFrom (n : Nat) | typeOfInstance | boundSelf | forwardRef | typeOfFirstArg | resolvedTypeVars
  | wrapGenerator (a : AnnSrc) (withTypeVars withContext : Bool) | result
  | callFunc (kwargsOnly awaited : Bool) | callRaw (awaited : Bool)
  | checkReturnOfBody (asyncGetter awaitedGetter awaited : Bool) | checkTypes (async awaited : Bool)
  | wrapperFn (async : Bool) | bool (g : Guard) | nat (n : NatE) | kwargsWhere (g : Guard)
inductive Stmt where
  | skip
  | seq (a b : Stmt)
  | act (id : Nat) (a : Action)
  | ite (id : Nat) (g : Guard) (thn els : Stmt)
  | forParams (id : Nat) (body : Stmt)             -- for key, param in params.items()
  | forStarValues (id : Nat) (body : Stmt)         -- for arg in values
  | forUncheckedKwargs (id : Nat) (body : Stmt)    -- for kwarg in self.not_yet_check_kwargs
  | ret (id : Nat) (r : RetE)
def Stmt.ofList : List Stmt → Stmt
  | [] => .skip
  | s :: rest => .seq s (Stmt.ofList rest)
'''


def gen_ir(repo):
    funcs, _ = translate(repo)
    L = [HEADER.format(rel=f'{FC}, {DF}, {PD}, {RK}'), PRELUDE]
    for num, lname, pyname, rel, is_async, term in funcs:
        L.append(f'/-- `{pyname}` ({rel.split("/")[-1]}); entry id {num * 100} -/')
        L.append(f'def {lname}IR : Stmt :=\n  {term}')
        L.append(f'def {lname}IsAsync : Bool := {lean_bool(is_async)}')
    mf = message_facts(repo)
    terms = {lname: term for _, lname, _, _, _, term in funcs}
    L.append('/-- messages of `assert_value_matches_type` / of the handler in `_check_type` (check_types.py): every user value goes through `_describe`; a `msg` that is a function is called only when the check failed -/')
    for k_ in ('assertMsgSafe', 'assertMsgMayBeLazy', 'handlerMsgSafe'):
        L.append(f'def {k_} : Bool := {lean_bool(mf[k_])}')
    eager = '.assignText [(.result, false)]' in terms['checkTypesReturn'] or '.assignText [(.result, true)]' in terms['checkTypesReturn']
    # the statements that invoke the function (`self.func.func(…)`, `func(*args, **kwargs)`) are not inside a `try` (a `try` anywhere in a translated
    # body is outside the subset: Skip), so whatever the body raises reaches the caller of the wrapper as it is
    trees = {rel: ast.parse(src(repo, rel)) for rel in (FC, RK)}
    in_try = False
    for rel, tree in trees.items():
        for t in ast.walk(tree):
            if isinstance(t, ast.Try):
                for n in ast.walk(t):
                    if isinstance(n, ast.Call) and u(n.func) in ('self.func.func', 'func'):
                        in_try = True
    L.append('/-- is one of the statements that invoke the function inside a `try`?  (no: an exception of the body propagates unchanged) -/')
    L.append(f'def invocationInTry : Bool := {lean_bool(in_try)}')
    L.append('/-- `_check_types_return` builds the text about the result BEFORE the check (for every result, conforming or not) -/')
    L.append(f'def returnMsgFormattedBeforeCheck : Bool := {lean_bool(eager)}')
    all_safe = mf['assertMsgSafe'] and mf['handlerMsgSafe'] and ', false)' not in ''.join(terms.values())
    L.append('/-- every user value that a message of the call layer / of the checker interpolates goes through `_describe` -/')
    L.append(f'def messagesUseSafeDescribe : Bool := {lean_bool(all_safe)}')
    L.append('\nend PedVerif.Gen.CallLayerIR')
    return '\n'.join(L) + '\n'


def gen_lines(repo):
    _, lines = translate(repo)
    L = [HEADER.format(rel=f'{FC}, {DF}, {PD}, {RK}'), 'namespace PedVerif.Gen.CallLayerIRLines\n',
         '/-- statement id -> (file, function, first line, last line) of the statement itself (`if` / `for`: of its header); ids `n * 100` are function entries -/',
         'def stmtLines : List (Nat × String × String × Nat × Nat) := [']
    L.append(',\n'.join(f'  ({i}, {lean_str(rel.split("/")[-1])}, {lean_str(n)}, {a}, {b})' for i, (rel, n, a, b, _) in sorted(lines.items())) + ']')
    L.append('\nend PedVerif.Gen.CallLayerIRLines')
    return '\n'.join(L) + '\n'


FILES = {'CallLayerIR.lean': gen_ir, 'CallLayerIRLines.lean': gen_lines}
