"""Translator part for the generator clause of C03 / C04: `pedantic/models/generator_wrapper.py` (GeneratorWrapper) and
the place in `pedantic/models/function_call.py` where it is created.

`send` and `throw` are translated statement by statement into a small straight-line IR (`List Stmt`), which the Lean
model *interprets* (PedVerif.GenWrap.runStmts); the property theorems are proved about the interpretation of the
generated programs (semantic facts `cfg_*`, by `decide` over all check outcomes), so an equivalent rewrite re-proves and
a behavioural change (moved `_initialized = True`, dropped / swapped check, `return ex.value`) does not.

Recognised family (everything else -> Skip: the snapshot is used and the correspondence check decides alone):

    def send(self, <obj>):
        <st> = inspect.getgeneratorstate(self._generator)      (before the resume)  -> binds a state name, no statement
        <b> = COND                                              (before the resume)  -> binds a condition name, no statement
        if COND: SIMPLE* [else: SIMPLE*]                                         -> .ifC cond thn els
        try: <v> = self._generator.send(<obj>)  except StopIteration [as <ex>]: SIMPLE*   -> .resume onStop
        <v> = self._generator.send(<obj>)                                        -> .resume [.reraise]
        return self._generator.send(<obj>)                                       -> .resume [.reraise], .simple .retYielded
        SIMPLE                                                                   -> .simple s
    def throw(self, *<args>):   the same with  self._generator.throw(*<args>)

    SIMPLE = assert_value_matches_type(value=<obj>|<v>|<ex>.value, type_=self._yield_type|_send_type|_return_type, …) -> .check src slot
           | self._initialized = True|False   -> .setInit b
           | raise <ex> | raise                -> .reraise          (only inside the StopIteration handler)
           | return <v>                        -> .retYielded
           | return <ex>.value                 -> .retStopVal
           | return | return None              -> .retNone
           | pass
           | if COND: SIMPLE* [else: SIMPLE*]  -> .when cond s … / .when (.not cond) s …   (COND must not depend on what the branches assign)

    COND   = self._initialized | <b> | not COND | COND and COND | COND or COND | True
           | <st> ==|!=|is|is not inspect.GEN_CREATED|GEN_RUNNING|GEN_SUSPENDED|GEN_CLOSED | <st> [not] in (…)
           | inspect.getgeneratorstate(self._generator) ==|!=|… (only before the resume: the state *before* the resume is meant)
"""
import ast
from extract import Skip, src, find_func, lean_bool, lean_str, HEADER

REL = 'pedantic/models/generator_wrapper.py'
REL_FC = 'pedantic/models/function_call.py'
REL_DF = 'pedantic/models/decorated_function.py'
CLS = 'GeneratorWrapper'
SLOTS = {'_yield_type': '.yieldT', '_send_type': '.sendT', '_return_type': '.returnT'}
GSTATES = {'inspect.GEN_CREATED': '.created', 'inspect.GEN_RUNNING': '.running', 'inspect.GEN_SUSPENDED': '.suspended', 'inspect.GEN_CLOSED': '.closed'}


def strip_doc(body):
    return [s for s in body if not (isinstance(s, ast.Expr) and isinstance(s.value, ast.Constant) and isinstance(s.value.value, str))]


def is_self_attr(n, name=None):
    return isinstance(n, ast.Attribute) and isinstance(n.value, ast.Name) and n.value.id == 'self' and (name is None or n.attr == name)


def is_none(n):
    return n is None or (isinstance(n, ast.Constant) and n.value is None)


class MethodTranslator:
    """one of send / throw"""

    def __init__(self, fn, kind, tab=None):
        self.fn, self.kind = fn, kind
        self.tab = tab or {}
        self.state_vars = set()    # names bound to inspect.getgeneratorstate(self._generator) before the resume
        self.cond_vars = {}        # names bound to a condition before the resume -> Lean term
        a = fn.args
        if a.kwonlyargs or a.kwarg or a.defaults or a.posonlyargs:
            raise Skip(f'{kind}: unexpected parameter list')
        names = [x.arg for x in a.args]
        if not names or names[0] != 'self':
            raise Skip(f'{kind}: first parameter is not self')
        if kind == 'send':
            if len(names) != 2 or a.vararg:
                raise Skip('send: expected exactly one parameter besides self')
            self.sent = names[1]
            self.star = None
        else:
            if len(names) != 1 or not a.vararg:
                raise Skip('throw: expected (self, *args)')
            self.sent = None
            self.star = a.vararg.arg
        self.v = None          # name bound to the resumed generator's yielded value
        self.ex = None         # name bound to the StopIteration
        self.in_handler = False
        self.type_vars_ok = True
        self.context_ok = True
        self.n_resume = 0

    def is_resume_call(self, n):
        if not (isinstance(n, ast.Call) and isinstance(n.func, ast.Attribute) and n.func.attr == self.kind
                and is_self_attr(n.func.value, '_generator')):
            return False
        if n.keywords:
            raise Skip(f'{self.kind}: the wrapped generator is resumed with keyword arguments')
        if self.kind == 'send':
            ok = len(n.args) == 1 and isinstance(n.args[0], ast.Name) and n.args[0].id == self.sent
        else:
            ok = len(n.args) == 1 and isinstance(n.args[0], ast.Starred) and isinstance(n.args[0].value, ast.Name) \
                and n.args[0].value.id == self.star
        if not ok:
            raise Skip(f'{self.kind}: the wrapped generator is not resumed with exactly the caller\'s argument(s)')
        return True

    def is_resume_call_quiet(self, n):
        return isinstance(n, ast.Call) and isinstance(n.func, ast.Attribute) and n.func.attr == self.kind and is_self_attr(n.func.value, '_generator')

    def src_of(self, n):
        if isinstance(n, ast.Name) and self.sent is not None and n.id == self.sent:
            return '.sent'
        if isinstance(n, ast.Name) and self.v is not None and n.id == self.v:
            return '.yielded'
        if isinstance(n, ast.Attribute) and n.attr == 'value' and isinstance(n.value, ast.Name) and self.ex is not None \
                and n.value.id == self.ex and self.in_handler:
            return '.stopVal'
        raise Skip(f'{self.kind}: a check looks at a value outside the subset: {ast.dump(n)[:80]}')

    def full_name(self, n):
        d = dotted(n)
        if d is None:
            return None
        head, _, rest = d.partition('.')
        full = self.tab.get(head, head)
        return full + ('.' + rest if rest else '')

    def is_state_call(self, n):
        return isinstance(n, ast.Call) and self.full_name(n.func) == 'inspect.getgeneratorstate' and len(n.args) == 1 \
            and not n.keywords and is_self_attr(n.args[0], '_generator')

    def state_operand(self, n):
        """is `n` the generator state *before* the resume?"""
        if isinstance(n, ast.Name) and n.id in self.state_vars:
            return True
        if self.is_state_call(n):
            if self.n_resume or self.in_handler:
                raise Skip(f'{self.kind}: inspect.getgeneratorstate is read after the generator was resumed')
            return True
        return False

    def gstate(self, n):
        g = GSTATES.get(self.full_name(n) or '')
        if g is None:
            raise Skip(f'{self.kind}: generator state compared with something that is not inspect.GEN_*')
        return g

    def cond(self, t):
        """-> Lean `Cond` term"""
        if isinstance(t, ast.Constant) and t.value is True:
            return '.tt'
        if is_self_attr(t, '_initialized'):
            return '.init'
        if isinstance(t, ast.Name) and t.id in self.cond_vars:
            return self.cond_vars[t.id]
        if isinstance(t, ast.UnaryOp) and isinstance(t.op, ast.Not):
            return f'(.not {self.cond(t.operand)})'
        if isinstance(t, ast.BoolOp):
            op = '.and' if isinstance(t.op, ast.And) else '.or'
            out = self.cond(t.values[-1])
            for v in reversed(t.values[:-1]):
                out = f'({op} {self.cond(v)} {out})'
            return out
        if isinstance(t, ast.Compare) and len(t.ops) == 1:
            l, r, op = t.left, t.comparators[0], t.ops[0]
            if isinstance(op, (ast.Eq, ast.NotEq, ast.Is, ast.IsNot)):
                if self.state_operand(r) and not self.state_operand(l):
                    l, r = r, l
                if self.state_operand(l):
                    c = f'(.state {self.gstate(r)})'
                    return c if isinstance(op, (ast.Eq, ast.Is)) else f'(.not {c})'
            if isinstance(op, (ast.In, ast.NotIn)) and self.state_operand(l) and isinstance(r, (ast.Tuple, ast.List, ast.Set)) and r.elts:
                out = f'(.state {self.gstate(r.elts[-1])})'
                for e in reversed(r.elts[:-1]):
                    out = f'(.or (.state {self.gstate(e)}) {out})'
                return out if isinstance(op, ast.In) else f'(.not {out})'
        raise Skip(f'{self.kind}: condition outside the subset: {ast.dump(t)[:80]}')

    def guarded(self, s):
        """`if COND: SIMPLE* else: SIMPLE*` among straight-line statements -> guarded simples"""
        c = self.cond(s.test)
        thn, els = self.simples(s.body), self.simples(s.orelse)
        if '.init' in c and any('.setInit' in x for x in thn + els):
            raise Skip(f'{self.kind}: a nested `if` on _initialized assigns _initialized')
        return [f'.when {c} ({x})' for x in thn] + [f'.when (.not {c}) ({x})' for x in els]

    def simple(self, s):
        """-> list of Lean `Simple` terms"""
        if isinstance(s, ast.If):
            return self.guarded(s)
        if isinstance(s, ast.Pass):
            return []
        if isinstance(s, ast.Expr) and isinstance(s.value, ast.Call) and isinstance(s.value.func, ast.Name) \
                and s.value.func.id == 'assert_value_matches_type':
            c = s.value
            order = ['value', 'type_', 'err', 'type_vars', 'key', 'msg', 'context']
            if len(c.args) > len(order) or any(isinstance(a, ast.Starred) for a in c.args) or any(k.arg is None for k in c.keywords):
                raise Skip(f'{self.kind}: assert_value_matches_type called with * / ** arguments')
            kw = {order[i]: a for i, a in enumerate(c.args)}
            kw.update({k.arg: k.value for k in c.keywords})
            if 'value' not in kw or 'type_' not in kw:
                raise Skip(f'{self.kind}: check without value / type_')
            t = kw['type_']
            if not (is_self_attr(t) and t.attr in SLOTS):
                raise Skip(f'{self.kind}: check against something that is not one of the three type slots')
            if not ('type_vars' in kw and is_self_attr(kw['type_vars'], '_type_vars')):
                self.type_vars_ok = False
            if not ('context' in kw and is_self_attr(kw['context'], '_context')):
                self.context_ok = False
            return [f'.check {self.src_of(kw["value"])} {SLOTS[t.attr]}']
        if isinstance(s, ast.Assign) and len(s.targets) == 1 and is_self_attr(s.targets[0], '_initialized'):
            if isinstance(s.value, ast.Constant) and isinstance(s.value.value, bool):
                return [f'.setInit {lean_bool(s.value.value)}']
            raise Skip(f'{self.kind}: _initialized assigned a non-constant')
        if isinstance(s, ast.Raise):
            if not self.in_handler:
                raise Skip(f'{self.kind}: raise outside the StopIteration handler')
            if s.cause is not None:
                raise Skip(f'{self.kind}: raise … from …')
            if s.exc is None or (isinstance(s.exc, ast.Name) and s.exc.id == self.ex):
                return ['.reraise']
            raise Skip(f'{self.kind}: the handler raises something else than the caught StopIteration')
        if isinstance(s, ast.Return):
            if is_none(s.value):
                return ['.retNone']
            if isinstance(s.value, ast.Name) and self.v is not None and s.value.id == self.v:
                return ['.retYielded']
            if isinstance(s.value, ast.Attribute) and s.value.attr == 'value' and isinstance(s.value.value, ast.Name) \
                    and self.ex is not None and s.value.value.id == self.ex and self.in_handler:
                return ['.retStopVal']
            raise Skip(f'{self.kind}: return of a value outside the subset: {ast.dump(s.value)[:80]}')
        raise Skip(f'{self.kind}: statement outside the subset: {ast.dump(s)[:80]}')

    def simples(self, body):
        out = []
        for s in body:
            out += self.simple(s)
        return out

    def resume(self, handler):
        self.n_resume += 1
        if self.n_resume > 1:
            raise Skip(f'{self.kind}: the wrapped generator is resumed at more than one place')
        return f'.resume [{", ".join(handler)}]'

    def stmt(self, s):
        """-> list of Lean `Stmt` terms"""
        if isinstance(s, ast.Assign) and len(s.targets) == 1 and isinstance(s.targets[0], ast.Name) and not self.in_handler:
            if self.is_state_call(s.value):
                if self.n_resume:
                    raise Skip(f'{self.kind}: inspect.getgeneratorstate is read after the generator was resumed')
                self.state_vars.add(s.targets[0].id)
                return []
            if not self.is_resume_call_quiet(s.value) and isinstance(s.value, (ast.Compare, ast.BoolOp, ast.UnaryOp)):
                if self.n_resume:
                    raise Skip(f'{self.kind}: a condition is computed after the generator was resumed')
                self.cond_vars[s.targets[0].id] = self.cond(s.value)
                return []
        if isinstance(s, ast.If):
            for b in (s.body, s.orelse):
                for x in b:
                    if isinstance(x, ast.Try) or (isinstance(x, (ast.Assign, ast.Return, ast.Expr)) and any(
                            isinstance(y, ast.Call) and isinstance(y.func, ast.Attribute) and is_self_attr(y.func.value, '_generator')
                            and y.func.attr in ('send', 'throw', 'close') for y in ast.walk(x))):
                        raise Skip(f'{self.kind}: try / resume inside an `if`')
            return [f'.ifC {self.cond(s.test)} [{", ".join(self.simples(s.body))}] [{", ".join(self.simples(s.orelse))}]']
        if isinstance(s, ast.Try):
            if s.orelse or s.finalbody or len(s.handlers) != 1 or len(s.body) != 1:
                raise Skip(f'{self.kind}: try statement outside the subset')
            h = s.handlers[0]
            if not (isinstance(h.type, ast.Name) and h.type.id == 'StopIteration'):
                raise Skip(f'{self.kind}: handler does not catch exactly StopIteration')
            b = s.body[0]
            tail = []
            if isinstance(b, ast.Assign) and len(b.targets) == 1 and isinstance(b.targets[0], ast.Name) and self.is_resume_call(b.value):
                self.v = b.targets[0].id
            elif isinstance(b, ast.Return) and b.value is not None and self.is_resume_call(b.value):
                self.v = '<returned directly>'
                tail = ['.simple .retYielded']
            else:
                raise Skip(f'{self.kind}: try body is not the resume of the wrapped generator')
            self.ex = h.name
            self.in_handler = True
            hs = self.simples(h.body)
            self.in_handler = False
            if not hs or hs[-1] not in ('.reraise', '.retStopVal', '.retNone'):      # a guarded terminal is not enough
                raise Skip(f'{self.kind}: the StopIteration handler can fall through')
            return [self.resume(hs)] + tail
        if isinstance(s, ast.Assign) and len(s.targets) == 1 and isinstance(s.targets[0], ast.Name) and self.is_resume_call(s.value):
            self.v = s.targets[0].id
            return [self.resume(['.reraise'])]
        if isinstance(s, ast.Return) and s.value is not None and self.is_resume_call(s.value):
            self.v = '<returned directly>'
            return [self.resume(['.reraise']), '.simple .retYielded']
        return [f'.simple ({x})' for x in self.simple(s)]

    def translate(self):
        out = []
        for s in strip_doc(self.fn.body):
            out += self.stmt(s)
        if self.n_resume == 0:
            raise Skip(f'{self.kind}: the wrapped generator is never resumed')
        return out


def dotted(n):
    if isinstance(n, ast.Name):
        return n.id
    if isinstance(n, ast.Attribute):
        d = dotted(n.value)
        return None if d is None else d + '.' + n.attr
    return None


def import_table(tree):
    tab = {}
    for n in tree.body:
        if isinstance(n, ast.ImportFrom) and n.module and n.level == 0:
            for a in n.names:
                tab[a.asname or a.name] = n.module + '.' + a.name
        elif isinstance(n, ast.Import):
            for a in n.names:
                tab[a.asname or a.name.split('.')[0]] = a.name if a.asname else a.name.split('.')[0]
    return tab


def resolve(n, tab):
    d = dotted(n)
    if d is None:
        raise Skip('accepted base generics: element that is not a (dotted) name')
    head, _, rest = d.partition('.')
    full = tab.get(head, head)
    return full + ('.' + rest if rest else '')


def single_return_call(fn, pred):
    b = strip_doc(fn.body)
    return len(b) == 1 and isinstance(b[0], (ast.Return, ast.Expr)) and b[0].value is not None and pred(b[0].value)


def gen_genwrap(repo):
    tree = ast.parse(src(repo, REL))
    tab = import_table(tree)

    # ---- send / throw
    ts = MethodTranslator(find_func(tree, 'send', CLS), 'send', tab)
    send_prog = ts.translate()
    tt = MethodTranslator(find_func(tree, 'throw', CLS), 'throw', tab)
    throw_prog = tt.translate()

    # ---- __next__ / close / __iter__ / __getattr__
    def is_send_none(c):
        if not (isinstance(c, ast.Call) and isinstance(c.func, ast.Attribute) and c.func.attr == 'send' and isinstance(c.func.value, ast.Name)
                and c.func.value.id == 'self'):
            return False
        if len(c.args) == 1 and not c.keywords:
            return is_none(c.args[0])
        return not c.args and len(c.keywords) == 1 and c.keywords[0].arg == ts.sent and is_none(c.keywords[0].value)
    nx = find_func(tree, '__next__', CLS)
    b = strip_doc(nx.body)
    next_is_send_none = len(b) == 1 and isinstance(b[0], ast.Return) and b[0].value is not None and is_send_none(b[0].value)

    def is_gen_close(c):
        return isinstance(c, ast.Call) and isinstance(c.func, ast.Attribute) and c.func.attr == 'close' \
            and is_self_attr(c.func.value, '_generator') and not c.args and not c.keywords
    close_delegates = single_return_call(find_func(tree, 'close', CLS), is_gen_close)
    it = strip_doc(find_func(tree, '__iter__', CLS).body)
    iter_self = len(it) == 1 and isinstance(it[0], ast.Return) and isinstance(it[0].value, ast.Name) and it[0].value.id == 'self'
    try:
        ga = find_func(tree, '__getattr__', CLS)
        gname = ga.args.args[1].arg if len(ga.args.args) == 2 else None
        getattr_delegates = single_return_call(ga, lambda c: isinstance(c, ast.Call) and isinstance(c.func, ast.Name) and c.func.id == 'getattr'
                                               and len(c.args) == 2 and is_self_attr(c.args[0], '_generator')
                                               and isinstance(c.args[1], ast.Name) and c.args[1].id == gname)
    except Skip:
        getattr_delegates = False

    # ---- __init__
    ini = find_func(tree, '__init__', CLS)
    ib = strip_doc(ini.body)
    init_initialized = None
    defaults = {}
    wraps_given = False
    set_types_idx = None
    last_default_idx = -1
    params = [a.arg for a in ini.args.args]
    for i, s in enumerate(ib):
        if isinstance(s, ast.Assign) and len(s.targets) == 1 and is_self_attr(s.targets[0]):
            attr = s.targets[0].attr
            if attr == '_initialized':
                if not (isinstance(s.value, ast.Constant) and isinstance(s.value.value, bool)):
                    raise Skip('__init__: _initialized is not assigned a bool constant')
                init_initialized = s.value.value
            elif attr in SLOTS:
                defaults[attr] = is_none(s.value)
                last_default_idx = i
            elif attr == '_generator':
                wraps_given = isinstance(s.value, ast.Name) and len(params) > 1 and s.value.id == params[1]
        elif isinstance(s, ast.Expr) and isinstance(s.value, ast.Call) and is_self_attr(s.value.func, '_set_and_check_return_types'):
            c = s.value
            arg = c.args[0] if c.args else (c.keywords[0].value if c.keywords else None)
            if not (isinstance(arg, ast.Name) and len(params) > 2 and arg.id == params[2]):
                raise Skip('__init__: _set_and_check_return_types is not called with the expected_type parameter')
            set_types_idx = i
        else:
            raise Skip(f'__init__: statement outside the subset: {ast.dump(s)[:80]}')
    has_init_flag = init_initialized is not None
    if init_initialized is None:
        init_initialized = False          # no such attribute (any more): the model's flag stays false and no condition reads it
    if set_types_idx is None:
        raise Skip('__init__: _set_and_check_return_types is not called')
    for k in SLOTS:
        defaults.setdefault(k, False)

    # ---- _set_and_check_return_types
    st = find_func(tree, '_set_and_check_return_types', CLS)
    sb = strip_doc(st.body)
    pname = st.args.args[1].arg if len(st.args.args) == 2 else None
    if pname is None:
        raise Skip('_set_and_check_return_types: unexpected parameters')
    base_var = args_var = None
    accepted = None
    arity = []
    other_raises = False
    order = []

    def is_ped_raise(s):
        return isinstance(s, ast.Raise) and isinstance(s.exc, ast.Call) and isinstance(s.exc.func, ast.Name) \
            and s.exc.func.id == 'PedanticTypeCheckException'

    def call_on_param(v, fname):
        if not (isinstance(v, ast.Call) and isinstance(v.func, ast.Name) and v.func.id == fname):
            return False
        a = v.args[0] if v.args else (v.keywords[0].value if v.keywords else None)
        return isinstance(a, ast.Name) and a.id == pname

    def len_eq(t):
        """`len(<args_var>) == n` -> n"""
        if isinstance(t, ast.Compare) and len(t.ops) == 1 and isinstance(t.ops[0], ast.Eq) and isinstance(t.left, ast.Call) \
                and isinstance(t.left.func, ast.Name) and t.left.func.id == 'len' and len(t.left.args) == 1 \
                and isinstance(t.left.args[0], ast.Name) and t.left.args[0].id == args_var \
                and isinstance(t.comparators[0], ast.Constant) and isinstance(t.comparators[0].value, int):
            return t.comparators[0].value
        raise Skip('_set_and_check_return_types: arity test outside the subset')

    def assigns(body):
        out = []
        for s in body:
            if isinstance(s, ast.Assign) and len(s.targets) == 1 and is_self_attr(s.targets[0]) and s.targets[0].attr in SLOTS \
                    and isinstance(s.value, ast.Subscript) and isinstance(s.value.value, ast.Name) and s.value.value.id == args_var \
                    and isinstance(s.value.slice, ast.Constant) and isinstance(s.value.slice.value, int) and s.value.slice.value >= 0:
                out.append(f'({SLOTS[s.targets[0].attr]}, {s.value.slice.value})')
            else:
                raise Skip('_set_and_check_return_types: arity branch outside the subset')
        return out

    for s in sb:
        if isinstance(s, ast.Assign) and len(s.targets) == 1 and isinstance(s.targets[0], ast.Name):
            if call_on_param(s.value, 'get_base_generic'):
                base_var = s.targets[0].id
                continue
            if call_on_param(s.value, 'get_type_arguments'):
                args_var = s.targets[0].id
                continue
            raise Skip('_set_and_check_return_types: assignment outside the subset')
        if isinstance(s, ast.If) and isinstance(s.test, ast.Compare) and len(s.test.ops) == 1 and isinstance(s.test.ops[0], ast.NotIn) \
                and isinstance(s.test.left, ast.Name) and s.test.left.id == base_var and not s.orelse \
                and isinstance(s.test.comparators[0], (ast.List, ast.Tuple, ast.Set)):
            if not (len(s.body) == 1 and is_ped_raise(s.body[0])):
                raise Skip('_set_and_check_return_types: wrong base generic does not raise PedanticTypeCheckException')
            accepted = [resolve(e, tab) for e in s.test.comparators[0].elts]
            order.append('base')
            continue
        if isinstance(s, ast.If) and args_var is not None:
            cur = s
            while True:
                arity.append((len_eq(cur.test), assigns(cur.body)))
                if len(cur.orelse) == 1 and isinstance(cur.orelse[0], ast.If):
                    cur = cur.orelse[0]
                    continue
                if cur.orelse:
                    if len(cur.orelse) == 1 and is_ped_raise(cur.orelse[0]):
                        other_raises = True
                    else:
                        raise Skip('_set_and_check_return_types: else branch outside the subset')
                break
            order.append('arity')
            continue
        if isinstance(s, ast.Return):
            continue       # the returned value is not used by __init__
        raise Skip(f'_set_and_check_return_types: statement outside the subset: {ast.dump(s)[:80]}')
    if accepted is None or not arity:
        raise Skip('_set_and_check_return_types: base test or arity branches not found')

    # ---- function_call._check_types_return / decorated_function.is_generator
    ftree = ast.parse(src(repo, REL_FC))
    cr = find_func(ftree, '_check_types_return', 'FunctionCall')
    rparam = cr.args.args[1].arg if len(cr.args.args) == 2 else None
    ann_var = None
    wraps_result = gets_ann = branch_first = missing_first = False
    seen_plain_check = False
    for i, s in enumerate(strip_doc(cr.body)):
        if isinstance(s, ast.Assign) and len(s.targets) == 1 and isinstance(s.targets[0], ast.Name) \
                and isinstance(s.value, ast.Subscript) and dotted(s.value.value) == 'self.func.annotations' \
                and isinstance(s.value.slice, ast.Constant) and s.value.slice.value == 'return':
            ann_var = s.targets[0].id
        if isinstance(s, ast.If) and i == 0 and any(isinstance(x, ast.Raise) for x in s.body) \
                and 'return_annotation' in ast.dump(s.test) and 'empty' in ast.dump(s.test):
            missing_first = True
        if any(isinstance(x, ast.Call) and isinstance(x.func, ast.Name) and x.func.id == 'assert_value_matches_type' for x in ast.walk(s)) \
                and not (isinstance(s, ast.If) and dotted(s.test) == 'self.func.is_generator'):
            seen_plain_check = True
        if isinstance(s, ast.If) and dotted(s.test) == 'self.func.is_generator':
            branch_first = not seen_plain_check
            if len(s.body) == 1 and isinstance(s.body[0], ast.Return) and isinstance(s.body[0].value, ast.Call) \
                    and isinstance(s.body[0].value.func, ast.Name) and s.body[0].value.func.id == 'GeneratorWrapper' and not s.body[0].value.args:
                kw = {k.arg: k.value for k in s.body[0].value.keywords}
                wraps_result = isinstance(kw.get('wrapped'), ast.Name) and kw['wrapped'].id == rparam
                gets_ann = isinstance(kw.get('expected_type'), ast.Name) and kw['expected_type'].id == ann_var and ann_var is not None
    dtree = ast.parse(src(repo, REL_DF))
    ig = strip_doc(find_func(dtree, 'is_generator', 'DecoratedFunction').body)
    is_gen_inspect = len(ig) == 1 and isinstance(ig[0], ast.Return) and isinstance(ig[0].value, ast.Call) \
        and dotted(ig[0].value.func) == 'inspect.isgeneratorfunction' and len(ig[0].value.args) == 1 \
        and is_self_attr(ig[0].value.args[0], '_func')

    def prog(lines):
        return '[\n  ' + ',\n  '.join(lines) + ']'
    arity_s = ', '.join(f'({n}, [{", ".join(a)}])' for n, a in arity)
    return HEADER.format(rel=f'{REL}, {REL_FC}, {REL_DF}') + f'''namespace PedVerif.Gen.GenWrap

/-- which value a check (`assert_value_matches_type(value=…)`) looks at: the method's own argument, the value the wrapped
    generator yielded, `ex.value` of the caught StopIteration -/
inductive Src where | sent | yielded | stopVal
deriving DecidableEq, Repr
/-- the three type slots `_yield_type`, `_send_type`, `_return_type` -/
inductive Slot where | yieldT | sendT | returnT
deriving DecidableEq, Repr
/-- `inspect.getgeneratorstate(self._generator)` -/
inductive GState where | created | running | suspended | closed
deriving DecidableEq, Repr
/-- conditions; `state s` = the state of the wrapped generator *before* this call resumes it is `inspect.GEN_<s>` -/
inductive Cond where
  | tt
  | init                             -- self._initialized
  | state (s : GState)
  | not (c : Cond)
  | and (a b : Cond)
  | or (a b : Cond)
deriving DecidableEq, Repr
/-- statements without resume -/
inductive Simple where
  | check (s : Src) (t : Slot)       -- assert_value_matches_type(value=<s>, type_=self._<t>, …)
  | setInit (b : Bool)               -- self._initialized = <b>
  | reraise                          -- raise ex      (inside the StopIteration handler)
  | retYielded                       -- return <the yielded value>
  | retStopVal                       -- return ex.value
  | retNone                          -- return
  | when (c : Cond) (s : Simple)     -- if <c>: <s>
deriving DecidableEq, Repr
inductive Stmt where
  | simple (s : Simple)
  | ifC (c : Cond) (thn els : List Simple)          -- if <c>: thn else: els
  | resume (onStop : List Simple)                   -- try: v = self._generator.<send|throw>(…) except StopIteration as ex: onStop
deriving DecidableEq, Repr

/-- `GeneratorWrapper.__init__` has a `self._initialized = <b>` -/
def hasInitFlag : Bool := {lean_bool(has_init_flag)}
/-- … and <b> (false when there is no such attribute) -/
def initInitialized : Bool := {lean_bool(init_initialized)}
/-- `__init__` assigns `None` to the slot before the annotation is taken apart (what Iterator[X] / Iterable[X] leave for send / return) -/
def slotDefaultIsNone : Slot → Bool
  | .yieldT => {lean_bool(defaults['_yield_type'])} | .sendT => {lean_bool(defaults['_send_type'])} | .returnT => {lean_bool(defaults['_return_type'])}
/-- `_set_and_check_return_types(expected_type)` is called after the last default assignment -/
def setTypesAfterDefaults : Bool := {lean_bool(set_types_idx > last_default_idx)}
/-- `self._generator = wrapped` -/
def wrapsGivenGenerator : Bool := {lean_bool(wraps_given)}

/-- `GeneratorWrapper.send` -/
def sendProg : List Stmt := {prog(send_prog)}
/-- `GeneratorWrapper.throw` -/
def throwProg : List Stmt := {prog(throw_prog)}
/-- every check in send / throw passes `type_vars=self._type_vars` -/
def checksPassTypeVars : Bool := {lean_bool(ts.type_vars_ok and tt.type_vars_ok)}
/-- every check in send / throw passes `context=self._context` (the names forward references in the slot types refer to) -/
def checksPassContext : Bool := {lean_bool(ts.context_ok and tt.context_ok)}
/-- `__next__` is `return self.send(None)` -/
def nextIsSendNone : Bool := {lean_bool(next_is_send_none)}
/-- `close` is `self._generator.close()` -/
def closeDelegates : Bool := {lean_bool(close_delegates)}
/-- `__iter__` returns self -/
def iterReturnsSelf : Bool := {lean_bool(iter_self)}
/-- `__getattr__` is `return getattr(self._generator, name)` -/
def getattrDelegates : Bool := {lean_bool(getattr_delegates)}

/-- `_set_and_check_return_types`: `if base_generic not in […]: raise PedanticTypeCheckException` -/
def acceptedBases : List String := [{", ".join(lean_str(a) for a in accepted)}]
/-- the `len(result) == n` branches: arity ↦ (slot, index into the type arguments) -/
def arityMap : List (Nat × List (Slot × Nat)) := [{arity_s}]
/-- any other number of type arguments raises PedanticTypeCheckException -/
def otherArityRaises : Bool := {lean_bool(other_raises)}
/-- the base generic is tested before the type arguments are looked at -/
def baseCheckedFirst : Bool := {lean_bool(order[:1] == ['base'])}

/-- `FunctionCall._check_types_return`: `if self.func.is_generator: return GeneratorWrapper(wrapped=result, …)` -/
def wrapsGeneratorResult : Bool := {lean_bool(wraps_result)}
/-- … with `expected_type=self.func.annotations['return']` -/
def wrapperGetsReturnAnnotation : Bool := {lean_bool(gets_ann)}
/-- … before (= instead of) the plain return check -/
def generatorBranchBeforePlainCheck : Bool := {lean_bool(branch_first)}
/-- a missing return annotation raises first -/
def missingReturnAnnotationRaisesFirst : Bool := {lean_bool(missing_first)}
/-- `DecoratedFunction.is_generator` is `inspect.isgeneratorfunction(self._func)` -/
def isGeneratorUsesInspect : Bool := {lean_bool(is_gen_inspect)}

end PedVerif.Gen.GenWrap
'''


FILES = {'GenWrap.lean': gen_genwrap}
