"""Translator "Frozen IR": pedantic/decorators/cls_deco_frozen_dataclass.py (+ pedantic/get_context.py) statement by statement.

Every statement of `frozen_type_safe_dataclass`, the tail of `frozen_dataclass`, `decorator`, `new_post_init`, `copy_with`, `deep_copy_with`,
`validate_types`, `_get_context_of_caller` and `get_context` becomes one term of a small closed statement language (Gen/FrozenIR.lean);
`Model/FrozenIR.lean` interprets these programs over the data types of the hand models, `Lemmas/FrozenIR.lean` proves that the
interpretation IS the hand model.  A statement outside the vocabulary raises `Skip`.

The translation is syntactic about the code that exists (statement order, `{**a, **b}` order, which class object is instantiated, where
`deepcopy` is applied, which fields a comprehension ranges over) and blind to what cannot matter: names of locals (resolved to *roles*
through a symbol table: "the name bound to the result of dataclass()", "the dict a comprehension was assigned to", …), messages, doc
strings, comments, layout.  Besides the programs the translator emits the table *statement id -> (function, first line, last line)* of the
current source; `props/_frozentrace_common.py` uses it to map executed lines to statements.
"""
import ast
from extract import Skip, src, lean_bool, lean_str, HEADER

REL = 'pedantic/decorators/cls_deco_frozen_dataclass.py'
REL_CTX = 'pedantic/get_context.py'
PARAMS = ['type_safe', 'order', 'kw_only', 'slots']
LEAN_PARAM = {'type_safe': '.typeSafe', 'order': '.order', 'kw_only': '.kwOnly', 'slots': '.slots'}
DC_KEYS = ['frozen', 'order', 'kw_only', 'slots']
DC_DEFAULT = {'frozen': False, 'order': False, 'kw_only': False, 'slots': False}
DC_OTHER_DEFAULT = {'init': True, 'repr': True, 'eq': True, 'unsafe_hash': False, 'match_args': True, 'weakref_slot': False}
METHODS = {'copy_with': '.copyWith', 'deep_copy_with': '.deepCopyWith', 'validate_types': '.validateTypes'}
FN_NAME = {'.copyWith': 'copy_with', '.deepCopyWith': 'deep_copy_with', '.validateTypes': 'validate_types', '.newPostInit': 'new_post_init'}
# id blocks: one hundred per function, in a fixed order
BASE = {'shortcut': 100, 'outer': 200, 'caller': 300, 'decorator': 400, 'new_post_init': 500, 'copy_with': 600, 'deep_copy_with': 700,
        'validate_types': 800, 'get_context': 900, 'noop': 1000}


def no_doc(body):
    return [s for s in body if not (isinstance(s, ast.Expr) and isinstance(s.value, ast.Constant) and isinstance(s.value.value, str))]


def is_name(e, n=None):
    return isinstance(e, ast.Name) and (n is None or e.id == n)


def header_span(st):
    """the lines on which the statement itself executes: for a compound statement its header only"""
    body = getattr(st, 'body', None)
    if isinstance(st, (ast.If, ast.For, ast.While, ast.FunctionDef, ast.AsyncFunctionDef, ast.With, ast.Try)) and body:
        return st.lineno, max(st.lineno, body[0].lineno - 1)
    return st.lineno, st.end_lineno


class Table:
    """statement ids and the source lines they stand for"""

    def __init__(self):
        self.rows = []           # (id, role of the function, name of the function in the source, first line, last line, rel file)
        self.count = {}

    def new(self, role, owner, st, rel=REL, span=None):
        k = self.count.get(role, 0)
        self.count[role] = k + 1
        if k >= 99:
            raise Skip(f'{role}: more than 99 statements')
        sid = BASE[role] + k
        l0, l1 = span if span else header_span(st)
        self.rows.append((sid, role, owner, l0, l1, rel))
        return sid


# ------------------------------------------------------------------ Boolean expressions over the decorator parameters

def bexpr(e) -> str:
    if isinstance(e, ast.Constant) and isinstance(e.value, bool):
        return f'(.const {lean_bool(e.value)})'
    if isinstance(e, ast.Name) and e.id in LEAN_PARAM:
        return f'(.param {LEAN_PARAM[e.id]})'
    if isinstance(e, ast.UnaryOp) and isinstance(e.op, ast.Not):
        return f'(.not {bexpr(e.operand)})'
    if isinstance(e, ast.BoolOp):
        op = '.and' if isinstance(e.op, ast.And) else '.or'
        out = bexpr(e.values[0])
        for v in e.values[1:]:
            out = f'({op} {out} {bexpr(v)})'
        return out
    if isinstance(e, ast.IfExp):
        return f'(.ite {bexpr(e.test)} {bexpr(e.body)} {bexpr(e.orelse)})'
    if isinstance(e, ast.Compare) and len(e.ops) == 1 and isinstance(e.ops[0], (ast.Is, ast.Eq, ast.IsNot, ast.NotEq)):
        l, r = bexpr(e.left), bexpr(e.comparators[0])
        return f'(.eq {l} {r})' if isinstance(e.ops[0], (ast.Is, ast.Eq)) else f'(.ne {l} {r})'
    raise Skip(f'expression outside the Boolean subset over the decorator parameters: {ast.unparse(e)}')


# ------------------------------------------------------------------ the translation

class Translator:
    def __init__(self, repo):
        self.tree = ast.parse(src(repo, REL))
        self.ctx_tree = ast.parse(src(repo, REL_CTX))
        self.t = Table()
        self.ren = []            # (scope node, name in the source, canonical name): what a pure renaming of locals would have changed
        self.check_imports()

    # ---- module level
    def check_imports(self):
        want = {('dataclasses', 'dataclass'), ('dataclasses', 'fields'), ('dataclasses', 'replace'), ('copy', 'deepcopy'),
                ('pedantic.get_context', 'get_context'), ('pedantic.type_checking_logic.check_types', 'assert_value_matches_type')}
        have = set()
        for n in self.tree.body:
            if isinstance(n, ast.ImportFrom) and n.level == 0:
                for a in n.names:
                    if a.asname is None:
                        have.add((n.module, a.name))
        if not any(isinstance(n, ast.Import) and any(a.name == 'sys' and a.asname is None for a in n.names) for n in self.tree.body):
            raise Skip('module does not `import sys`')
        missing = want - have
        if missing:
            raise Skip(f'expected imports are missing / renamed: {sorted(missing)}')
        # the imported names are the library functions: not rebound anywhere in the module
        names = {b for (_, b) in want} | {'sys'}
        for n in ast.walk(self.tree):
            if isinstance(n, (ast.FunctionDef, ast.AsyncFunctionDef, ast.ClassDef)) and n.name in names:
                raise Skip(f'`{n.name}` is redefined in the module')
            if isinstance(n, ast.Name) and n.id in names and isinstance(n.ctx, (ast.Store, ast.Del)):
                raise Skip(f'`{n.id}` is rebound in the module')
            if isinstance(n, ast.arg) and n.arg in names:
                raise Skip(f'`{n.arg}` is shadowed by a parameter')

    def note(self, scope, actual, canonical):
        if actual != canonical:
            self.ren.append((scope, actual, canonical))

    def module_func(self, name):
        fs = [n for n in self.tree.body if isinstance(n, ast.FunctionDef) and n.name == name]
        if len(fs) != 1:
            raise Skip(f'module-level function {name} not found')
        return fs[0]

    def run(self):
        outer = self.module_func('frozen_dataclass')
        self.outer = outer
        pnames = [a.arg for a in outer.args.args]
        if pnames != ['cls'] + PARAMS or outer.args.kwonlyargs or outer.args.vararg or outer.args.kwarg or outer.args.posonlyargs:
            raise Skip(f'frozen_dataclass parameters are {pnames}')
        defaults = dict(zip(pnames[-len(outer.args.defaults):], outer.args.defaults))
        self.pdef = {}
        for p in PARAMS:
            d = defaults.get(p)
            if not (isinstance(d, ast.Constant) and isinstance(d.value, bool)):
                raise Skip(f'default of {p} is not a bool literal')
            self.pdef[p] = d.value
        d = defaults.get('cls')
        if not (isinstance(d, ast.Constant) and d.value is None):
            raise Skip('default of cls is not None')
        for n in ast.walk(outer):
            if isinstance(n, ast.Name) and n.id in PARAMS + ['cls'] and isinstance(n.ctx, (ast.Store, ast.Del)):
                raise Skip(f'parameter {n.id} is rebound')
        shortcut = self.tr_shortcut()
        outer_prog = self.tr_outer(outer)
        deco = self.tr_decorator()
        return {'shortcut': shortcut, 'outer': outer_prog, **deco}

    # ---- frozen_type_safe_dataclass
    def tr_shortcut(self):
        fn = self.module_func('frozen_type_safe_dataclass')
        if [a.arg for a in fn.args.args] != ['cls'] or fn.args.kwonlyargs or fn.args.vararg or fn.args.kwarg:
            raise Skip('frozen_type_safe_dataclass: signature is not (cls)')
        body = no_doc(fn.body)
        if len(body) != 1 or not isinstance(body[0], ast.Return):
            raise Skip('frozen_type_safe_dataclass: body is not one return')
        c = body[0].value
        if not (isinstance(c, ast.Call) and len(c.args) == 1 and is_name(c.args[0], 'cls') and not c.keywords
                and isinstance(c.func, ast.Call) and is_name(c.func.func, 'frozen_dataclass') and not c.func.args):
            raise Skip('frozen_type_safe_dataclass: not `return frozen_dataclass(<options>)(cls)`')
        given = {}
        for k in c.func.keywords:
            if k.arg not in PARAMS or not (isinstance(k.value, ast.Constant) and isinstance(k.value.value, bool)):
                raise Skip(f'frozen_type_safe_dataclass: option {ast.unparse(k)}')
            given[k.arg] = k.value.value
        opt = lambda p: f'(some {lean_bool(given[p])})' if p in given else 'none'
        sid = self.t.new('shortcut', fn.name, body[0])
        return [f'({sid}, .retShortcut {opt("type_safe")} {opt("order")} {opt("kw_only")} {opt("slots")})']

    # ---- tail of frozen_dataclass
    def tr_outer(self, outer):
        body = no_doc(outer.body)
        defs = [s for s in body if isinstance(s, ast.FunctionDef)]
        if len(defs) != 1:
            raise Skip('frozen_dataclass: expected exactly one inner function')
        self.deco = defs[0]
        dn = self.deco.name
        a = self.deco.args
        if len(a.args) != 1 or a.kwonlyargs or a.vararg or a.kwarg or a.posonlyargs or a.defaults:
            raise Skip(f'{dn}: signature is not (<cls>)')
        self.cls_param = a.args[0].arg
        self.note(outer, dn, 'decorator')
        self.note(outer, self.cls_param, 'cls_')
        out = []
        for st in body:
            if st is self.deco:
                out.append(f'({self.t.new("outer", outer.name, st)}, .defDecorator)')
            elif isinstance(st, ast.If):
                t = st.test
                if not (isinstance(t, ast.Compare) and is_name(t.left, 'cls') and len(t.ops) == 1 and isinstance(t.ops[0], (ast.Is, ast.Eq))
                        and isinstance(t.comparators[0], ast.Constant) and t.comparators[0].value is None) or st.orelse:
                    raise Skip(f'frozen_dataclass: `if {ast.unparse(t)}` not understood')
                sid = self.t.new('outer', outer.name, st)
                inner = [f'({self.t.new("outer", outer.name, s)}, {self.outer_simple(s, dn)})' for s in st.body]
                out.append(f'({sid}, .ifClsNone [{", ".join(inner)}])')
            else:
                out.append(f'({self.t.new("outer", outer.name, st)}, .simple {self.outer_simple(st, dn)})')
        return out

    def outer_simple(self, st, dn):
        if isinstance(st, ast.Return) and is_name(st.value, dn):
            return '.retDecorator'
        if isinstance(st, ast.Return) and isinstance(st.value, ast.Call) and is_name(st.value.func, dn):
            c = st.value
            pos_ok = len(c.args) == 1 and is_name(c.args[0], 'cls') and not c.keywords
            kw_ok = not c.args and len(c.keywords) == 1 and c.keywords[0].arg == self.cls_param and is_name(c.keywords[0].value, 'cls')
            if pos_ok or kw_ok:
                return '.retApplied'
        raise Skip(f'frozen_dataclass: statement `{ast.unparse(st)[:60]}` outside the subset')

    # ---- decorator
    def cls_ref(self, e, where, self_ok=False):
        if is_name(e, self.cls_param):
            return '.oldClass'
        if is_name(e) and e.id == self.roles.get('new_class'):
            return '.newClass'
        if self_ok:
            if isinstance(e, ast.Call) and is_name(e.func, 'type') and len(e.args) == 1 and is_name(e.args[0], self_ok) and not e.keywords:
                return '.typeSelf'
            if isinstance(e, ast.Attribute) and is_name(e.value, self_ok) and e.attr == '__class__':
                return '.typeSelf'
        raise Skip(f'{where}: class expression `{ast.unparse(e)}` outside the subset')

    def fn_ref(self, name, where):
        if name in METHODS:
            return METHODS[name]
        if name == self.roles.get('new_post_init'):
            return '.newPostInit'
        raise Skip(f'{where}: function `{name}` has no role')

    def tr_decorator(self):
        deco = self.deco
        dn = deco.name
        self.roles = {}
        body = no_doc(deco.body)
        # roles first (single assignment each): new_class, args, new_post_init, old_post_init, the method list
        flat = []
        for st in body:
            flat.append(st)
            if isinstance(st, ast.If):
                flat += no_doc(st.body)
        for st in flat:
            if isinstance(st, ast.Assign) and len(st.targets) == 1 and is_name(st.targets[0]):
                v, name = st.value, st.targets[0].id
                if isinstance(v, ast.Call) and isinstance(v.func, ast.Call) and is_name(v.func.func, 'dataclass'):
                    self.set_role('new_class', name)
                elif isinstance(v, ast.Call) and is_name(v.func, 'getattr') and len(v.args) >= 2 and isinstance(v.args[1], ast.Constant) \
                        and v.args[1].value == '__post_init__':
                    self.set_role('old_post_init', name)
                elif isinstance(v, ast.Dict) and all(isinstance(k, ast.Constant) and isinstance(k.value, str) for k in v.keys) and v.keys \
                        and any(k.value in DC_KEYS for k in v.keys):
                    self.set_role('args', name)
                elif isinstance(v, (ast.List, ast.Tuple)) and v.elts and all(is_name(e) for e in v.elts):
                    self.set_role('methods_to_add', name)
            if isinstance(st, ast.Expr) and isinstance(st.value, ast.Call) and is_name(st.value.func, 'setattr') and len(st.value.args) == 3 \
                    and isinstance(st.value.args[1], ast.Constant) and st.value.args[1].value == '__post_init__' and is_name(st.value.args[2]):
                self.set_role('new_post_init', st.value.args[2].id)
        # every role name is bound exactly once in the decorator (and nowhere rebound in the functions nested in it)
        for role, name in self.roles.items():
            stores = [n for n in ast.walk(deco) if (isinstance(n, ast.Name) and n.id == name and isinstance(n.ctx, (ast.Store, ast.Del)))
                      or (isinstance(n, (ast.FunctionDef, ast.ClassDef)) and n.name == name) or (isinstance(n, ast.arg) and n.arg == name)]
            if len(stores) != 1:
                raise Skip(f'{dn}: `{name}` ({role}) is bound {len(stores)} times')
        for n in ast.walk(deco):
            if isinstance(n, (ast.Global, ast.Nonlocal)):
                raise Skip(f'{dn}: global / nonlocal statement')
            if isinstance(n, (ast.Name, ast.arg)) and (getattr(n, 'id', None) == self.cls_param or getattr(n, 'arg', None) == self.cls_param) \
                    and (isinstance(n, ast.arg) or isinstance(n.ctx, (ast.Store, ast.Del))) and not (isinstance(n, ast.arg) and n is deco.args.args[0]):
                raise Skip(f'{dn}: the class parameter is rebound')
        for role, name in self.roles.items():
            self.note(deco, name, role)
        self.fns = {}
        self.args_dict = None
        out = []
        for st in body:
            out.append(self.deco_stmt(st, dn))
        progs = {'decorator': out}
        want = ['copy_with', 'deep_copy_with', 'validate_types']
        for m in want:
            if m not in self.fns:
                raise Skip(f'{dn}: `{m}` is not defined')
        if 'new_post_init' not in self.roles or self.roles['new_post_init'] not in self.fns:
            raise Skip(f'{dn}: no function is installed as __post_init__')
        progs['new_post_init'] = self.tr_post_init(self.fns[self.roles['new_post_init']])
        progs['copy_with'] = self.tr_copy(self.fns['copy_with'], 'copy_with')
        progs['deep_copy_with'] = self.tr_copy(self.fns['deep_copy_with'], 'deep_copy_with')
        progs['validate_types'] = self.tr_validate(self.fns['validate_types'])
        progs['get_context'] = self.tr_get_context()
        return progs

    def set_role(self, role, name):
        if role in self.roles and self.roles[role] != name:
            raise Skip(f'two candidates for the role {role}: {self.roles[role]}, {name}')
        self.roles[role] = name

    def dc_args(self, pairs, where):
        """{key: ast} -> the four BExpr the model knows; other options only with their default value"""
        opts = {}
        for k, v in pairs:
            if k in DC_KEYS:
                opts[k] = bexpr(v)
            elif k in DC_OTHER_DEFAULT and isinstance(v, ast.Constant) and v.value is DC_OTHER_DEFAULT[k]:
                continue
            else:
                raise Skip(f'{where}: dataclass option {k}={ast.unparse(v)} is outside the model')
        return ' '.join(opts.get(k, f'(.const {lean_bool(DC_DEFAULT[k])})') for k in DC_KEYS)

    def deco_simple(self, st, dn):
        if isinstance(st, ast.FunctionDef):
            ref = self.fn_ref(st.name, dn)
            if st.decorator_list:
                raise Skip(f'{dn}: `{st.name}` is decorated')
            self.fns[st.name] = st
            return f'.defFn {ref}'
        if isinstance(st, ast.Assign) and len(st.targets) == 1 and is_name(st.targets[0]) and st.targets[0].id == self.roles.get('old_post_init'):
            v = st.value
            if v.keywords or len(v.args) not in (2, 3):
                raise Skip(f'{dn}: `{ast.unparse(v)}`')
            frm = self.cls_ref(v.args[0], dn)
            noop = False
            if len(v.args) == 3:
                d = v.args[2]
                if not (isinstance(d, ast.Lambda) and len(d.args.args) == 1 and not d.args.kwonlyargs and not d.args.vararg and not d.args.kwarg
                        and not d.args.defaults and isinstance(d.body, ast.Constant) and d.body.value is None):
                    raise Skip(f'{dn}: default of the previous __post_init__ is not `lambda _: None`')
                noop = True
                self.noop_lambda = d
            return f'.saveOldPostInit {frm} {lean_bool(noop)}'
        if isinstance(st, ast.Expr) and isinstance(st.value, ast.Call) and is_name(st.value.func, 'setattr') and len(st.value.args) == 3 \
                and not st.value.keywords and isinstance(st.value.args[1], ast.Constant):
            on, key, fn = st.value.args
            if key.value == '__post_init__':
                if not is_name(fn):
                    raise Skip(f'{dn}: `{ast.unparse(st)}`')
                return f'.installPostInit {self.cls_ref(on, dn)} {self.fn_ref(fn.id, dn)}'
            if is_name(fn) and key.value == fn.id and fn.id in METHODS:
                return f'.setMethod {METHODS[fn.id]} {self.cls_ref(on, dn)}'
            raise Skip(f'{dn}: `{ast.unparse(st)}` attaches something the model does not know')
        return None

    def deco_stmt(self, st, dn):
        sid = self.t.new('decorator', dn, st)
        simple = self.deco_simple(st, dn)
        if simple is not None:
            return f'({sid}, .simple ({simple}))'
        if isinstance(st, ast.Assign) and len(st.targets) == 1 and is_name(st.targets[0]):
            name, v = st.targets[0].id, st.value
            if name == self.roles.get('args'):
                self.args_dict = v
                return f'({sid}, .bindArgs {self.dc_args([(k.value, x) for k, x in zip(v.keys, v.values)], dn)})'
            if name == self.roles.get('new_class'):
                inner = v.func
                if not (len(v.args) == 1 and not v.keywords and not inner.args):
                    raise Skip(f'{dn}: `{ast.unparse(v)}`')
                on = self.cls_ref(v.args[0], dn)
                stars = [k for k in inner.keywords if k.arg is None]
                if stars:
                    if len(inner.keywords) != 1 or not is_name(stars[0].value) or stars[0].value.id != self.roles.get('args'):
                        raise Skip(f'{dn}: `{ast.unparse(inner)}`')
                    # the options dict must not be touched between its creation and the call
                    an = self.roles['args']
                    for n in ast.walk(self.deco):
                        if isinstance(n, (ast.Subscript, ast.Attribute)) and is_name(n.value, an):
                            raise Skip(f'{dn}: the options dict `{an}` is modified')
                    return f'({sid}, .callDataclass .fromArgs {on})'
                return f'({sid}, .callDataclass (.direct {self.dc_args([(k.arg, k.value) for k in inner.keywords], dn)}) {on})'
            if name == self.roles.get('methods_to_add'):
                return f'({sid}, .bindMethods [{", ".join(self.fn_ref(e.id, dn) for e in v.elts)}])'
        if isinstance(st, ast.If):
            if st.orelse:
                raise Skip(f'{dn}: `if {ast.unparse(st.test)}` has an else branch')
            cond = bexpr(st.test)
            inner = []
            for s in no_doc(st.body):
                sid2 = self.t.new('decorator', dn, s)
                simple = self.deco_simple(s, dn)
                if simple is None:
                    raise Skip(f'{dn}: statement `{ast.unparse(s)[:60]}` inside `if {ast.unparse(st.test)}` outside the subset')
                inner.append(f'({sid2}, {simple})')
            return f'({sid}, .ifCond {cond} [{", ".join(inner)}])'
        if isinstance(st, ast.For) and is_name(st.target) and is_name(st.iter) and st.iter.id == self.roles.get('methods_to_add') \
                and not st.orelse and len(st.body) == 1:
            b = st.body[0]
            mv = st.target.id
            self.note(st, mv, 'method')
            if isinstance(b, ast.Expr) and isinstance(b.value, ast.Call) and is_name(b.value.func, 'setattr') and len(b.value.args) == 3 \
                    and not b.value.keywords and ast.unparse(b.value.args[1]) == f'{mv}.__name__' and is_name(b.value.args[2], mv):
                sid2 = self.t.new('decorator', dn, b)
                return f'({sid}, .forMethods {sid2} {self.cls_ref(b.value.args[0], dn)})'
        if isinstance(st, ast.Return) and st.value is not None:
            return f'({sid}, .returnCls {self.cls_ref(st.value, dn)})'
        raise Skip(f'{dn}: statement `{ast.unparse(st)[:70]}` outside the subset')

    # ---- new_post_init
    def self_of(self, fn, extra_ok=False):
        a = fn.args
        if not a.args or a.posonlyargs or a.vararg or a.defaults:
            raise Skip(f'{fn.name}: unexpected signature')
        return a.args[0].arg

    def tr_post_init(self, fn):
        a = fn.args
        if len(a.args) != 1 or a.kwonlyargs or a.vararg or a.kwarg or a.defaults or a.posonlyargs:
            raise Skip(f'{fn.name}: signature is not (self)')
        me = a.args[0].arg
        self.note(fn, me, 'self')
        out = []
        ctx_name = None
        for st in no_doc(fn.body):
            sid = self.t.new('new_post_init', fn.name, st)
            if isinstance(st, ast.Expr) and isinstance(st.value, ast.Call):
                c = st.value
                if is_name(c.func) and c.func.id == self.roles.get('old_post_init') and len(c.args) == 1 and is_name(c.args[0], me) and not c.keywords:
                    out.append(f'({sid}, .callOld)')
                    continue
                if isinstance(c.func, ast.Attribute) and is_name(c.func.value, me) and c.func.attr == 'validate_types' and not c.args:
                    if not c.keywords:
                        out.append(f'({sid}, .callValidate .noContext)')
                        continue
                    if len(c.keywords) == 1 and c.keywords[0].arg == '_context' and is_name(c.keywords[0].value) \
                            and c.keywords[0].value.id == ctx_name:
                        out.append(f'({sid}, .callValidate .callerContext)')
                        continue
            if isinstance(st, ast.Assign) and len(st.targets) == 1 and is_name(st.targets[0]) and isinstance(st.value, ast.Call) \
                    and is_name(st.value.func) and ctx_name is None:
                c = st.value
                helper = [n for n in self.tree.body if isinstance(n, ast.FunctionDef) and n.name == c.func.id]
                if len(helper) == 1:
                    self.caller_fn = helper[0]
                    hp = [x.arg for x in helper[0].args.args]
                    if len(hp) != 2 or helper[0].args.kwonlyargs or helper[0].args.vararg or helper[0].args.kwarg or helper[0].args.defaults:
                        raise Skip(f'{helper[0].name}: signature is not (instance, skip)')
                    bound = dict(zip(hp, c.args))
                    for k in c.keywords:
                        if k.arg is None or k.arg in bound or k.arg not in hp:
                            raise Skip(f'{fn.name}: `{ast.unparse(c)}`')
                        bound[k.arg] = k.value
                    if set(bound) != set(hp):
                        raise Skip(f'{fn.name}: `{ast.unparse(c)}`')
                    inst, skip = bound[hp[0]], bound[hp[1]]
                    if not isinstance(skip, (ast.Tuple, ast.List, ast.Set)):
                        raise Skip(f'{fn.name}: the skipped code objects are not a display')
                    codes = []
                    for e in skip.elts:
                        if isinstance(e, ast.Attribute) and e.attr == '__code__' and is_name(e.value):
                            codes.append(self.fn_ref(e.value.id, fn.name))
                        else:
                            raise Skip(f'{fn.name}: skip entry `{ast.unparse(e)}`')
                    ctx_name = st.targets[0].id
                    self.note(fn, ctx_name, 'context')
                    self.note(self.tree, helper[0].name, '_get_context_of_caller')
                    self.note(self.tree, hp[0], 'instance')        # parameter names are keywords at the call site: renamed module-wide
                    self.note(self.tree, hp[1], 'skip')
                    self.caller_params = hp
                    out.append(f'({sid}, .bindCallerContext {lean_bool(is_name(inst, me))} [{", ".join(codes)}])')
                    continue
            raise Skip(f'{fn.name}: statement `{ast.unparse(st)[:70]}` outside the subset')
        if ctx_name is None:
            self.caller_fn = None
        return out

    # ---- copy_with / deep_copy_with
    def vexpr(self, e, me, fv, where):
        def is_field_value(x):
            return (isinstance(x, ast.Call) and is_name(x.func, 'getattr') and len(x.args) == 2 and not x.keywords and is_name(x.args[0], me)
                    and isinstance(x.args[1], ast.Attribute) and is_name(x.args[1].value, fv) and x.args[1].attr == 'name')
        if is_field_value(e):
            return '.field'
        if isinstance(e, ast.Call) and is_name(e.func, 'deepcopy') and len(e.args) == 1 and not e.keywords:
            return f'(.deepcopy {self.vexpr(e.args[0], me, fv, where)})'
        if isinstance(e, ast.IfExp):
            def cond(t):
                if isinstance(t, ast.UnaryOp) and isinstance(t.op, ast.Not):
                    return f'(.not {cond(t.operand)})'
                if isinstance(t, ast.Call) and is_name(t.func, 'isinstance') and len(t.args) == 2 and not t.keywords and is_field_value(t.args[0]) \
                        and ast.unparse(t.args[1]) in ('Hashable', 'typing.Hashable', 'collections.abc.Hashable', 'abc.Hashable'):
                    return '.hashable'
                raise Skip(f'{where}: condition `{ast.unparse(t)}` outside the subset')
            return f'(.ite {cond(e.test)} {self.vexpr(e.body, me, fv, where)} {self.vexpr(e.orelse, me, fv, where)})'
        raise Skip(f'{where}: comprehension value `{ast.unparse(e)}` outside the subset')

    def fields_src(self, e, me, where, props=None):
        if props is not None and is_name(e, props):
            return '.props'
        if isinstance(e, ast.Call) and is_name(e.func, 'fields') and len(e.args) == 1 and not e.keywords:
            x = e.args[0]
            if is_name(x, me):
                return '.ofSelf'
            ref = self.cls_ref(x, where, self_ok=me)
            return {'.typeSelf': '.ofTypeSelf', '.newClass': '.ofNewClass', '.oldClass': '.ofOldClass'}[ref]
        raise Skip(f'{where}: `{ast.unparse(e)}` is not fields(...) of the instance / its class / the decorated class')

    def tr_copy(self, fn, role):
        a = fn.args
        if not (len(a.args) == 1 and a.kwarg is not None and not a.vararg and not a.kwonlyargs and not a.posonlyargs and not a.defaults):
            raise Skip(f'{fn.name}: signature is not (self, **kwargs)')
        me, kwn = a.args[0].arg, a.kwarg.arg
        self.note(fn, me, 'self')
        self.note(fn, kwn, 'kwargs')
        regs = {kwn: '.kwargs'}

        def dexpr(e):
            if is_name(e) and e.id in regs:
                return regs[e.id]
            if isinstance(e, ast.Dict) and e.keys and all(k is None for k in e.keys):
                out = dexpr(e.values[0])
                for v in e.values[1:]:
                    out = f'(.merge {out} {dexpr(v)})'
                return out
            raise Skip(f'{fn.name}: dict expression `{ast.unparse(e)}` outside the subset')
        out = []
        for st in no_doc(fn.body):
            sid = self.t.new(role, fn.name, st)
            if isinstance(st, ast.Assign) and len(st.targets) == 1 and is_name(st.targets[0]) and st.targets[0].id not in regs:
                name, v = st.targets[0].id, st.value
                if isinstance(v, ast.DictComp) and '.cur' not in regs.values():
                    if len(v.generators) != 1 or v.generators[0].is_async or not is_name(v.generators[0].target):
                        raise Skip(f'{fn.name}: comprehension outside the subset')
                    g = v.generators[0]
                    fv = g.target.id
                    self.note(fn, fv, 'field')
                    self.note(fn, name, 'current_values')
                    srcs = self.fields_src(g.iter, me, fn.name)
                    if len(g.ifs) == 0:
                        init_only = False
                    elif len(g.ifs) == 1 and isinstance(g.ifs[0], ast.Attribute) and is_name(g.ifs[0].value, fv) and g.ifs[0].attr == 'init':
                        init_only = True
                    else:
                        raise Skip(f'{fn.name}: comprehension filter `{ast.unparse(g.ifs[0])}` outside the subset')
                    if not (isinstance(v.key, ast.Attribute) and is_name(v.key.value, fv) and v.key.attr == 'name'):
                        raise Skip(f'{fn.name}: comprehension key is not <field>.name')
                    out.append(f'({sid}, .collect {srcs} {lean_bool(init_only)} {self.vexpr(v.value, me, fv, fn.name)})')
                    regs[name] = '.cur'
                    continue
                if isinstance(v, ast.Dict) and '.merged' not in regs.values():
                    self.note(fn, name, 'merged_values')
                    out.append(f'({sid}, .bindMerged {dexpr(v)})')
                    regs[name] = '.merged'
                    continue
            if isinstance(st, ast.Return) and isinstance(st.value, ast.Call):
                c = st.value
                if is_name(c.func, 'replace'):
                    if not (len(c.args) == 1 and len(c.keywords) == 1 and c.keywords[0].arg is None):
                        raise Skip(f'{fn.name}: `{ast.unparse(c)}`')
                    x = c.args[0]
                    if is_name(x, me):
                        deep = False
                    elif isinstance(x, ast.Call) and is_name(x.func, 'deepcopy') and len(x.args) == 1 and is_name(x.args[0], me) and not x.keywords:
                        deep = True
                    else:
                        raise Skip(f'{fn.name}: replace() on `{ast.unparse(x)}`')
                    out.append(f'({sid}, .retReplace {lean_bool(deep)} {dexpr(c.keywords[0].value)})')
                    continue
                if not c.args and len(c.keywords) == 1 and c.keywords[0].arg is None:
                    out.append(f'({sid}, .retConstruct {self.cls_ref(c.func, fn.name, self_ok=me)} {dexpr(c.keywords[0].value)})')
                    continue
            raise Skip(f'{fn.name}: statement `{ast.unparse(st)[:70]}` outside the subset')
        for n in ast.walk(fn):          # no write to the receiver
            if isinstance(n, ast.Attribute) and is_name(n.value, me) and isinstance(n.ctx, (ast.Store, ast.Del)):
                raise Skip(f'{fn.name}: writes to the receiver')
        return out

    # ---- validate_types
    def tr_validate(self, fn):
        a = fn.args
        if not (len(a.args) == 1 and [k.arg for k in a.kwonlyargs] == ['_context'] and not a.vararg and not a.kwarg and not a.posonlyargs
                and len(a.kw_defaults) == 1 and isinstance(a.kw_defaults[0], ast.Constant) and a.kw_defaults[0].value is None):
            raise Skip(f'{fn.name}: signature is not (self, *, _context=None)')
        me = a.args[0].arg
        self.note(fn, me, 'self')
        props = None
        out = []

        def ctx_part(k, v):
            tx = ast.unparse(v)
            if k is None and tx == '_context':
                return '.given'
            if k is None and tx == f'{me}.__init__.__globals__':
                return '.moduleGlobals'
            if k is not None and ast.unparse(k) in (f'{me}.__class__.__name__', f'type({me}).__name__') and tx in (f'{me}.__class__', f'type({me})'):
                return '.ownClass'
            raise Skip(f'{fn.name}: context entry `{tx}` outside the subset')

        def simple(st):
            if isinstance(st, ast.Assign) and len(st.targets) == 1 and is_name(st.targets[0], '_context') and isinstance(st.value, ast.Call) \
                    and is_name(st.value.func, 'get_context'):
                c = st.value
                depth = None
                if len(c.args) == 1 and not c.keywords and isinstance(c.args[0], ast.Constant):
                    depth = c.args[0].value
                elif not c.args and len(c.keywords) == 1 and c.keywords[0].arg == 'depth' and isinstance(c.keywords[0].value, ast.Constant):
                    depth = c.keywords[0].value.value
                elif not c.args and not c.keywords:
                    depth = self.get_context_default_depth()
                if not isinstance(depth, int) or isinstance(depth, bool) or depth < 0:
                    raise Skip(f'{fn.name}: `{ast.unparse(c)}`')
                return f'.ctxFromGetContext {depth}'
            if isinstance(st, ast.Return) and st.value is None:
                return '.ret'
            return None
        for st in no_doc(fn.body):
            sid = self.t.new('validate_types', fn.name, st)
            if isinstance(st, ast.Assign) and len(st.targets) == 1 and is_name(st.targets[0]) and props is None \
                    and isinstance(st.value, ast.Call) and is_name(st.value.func, 'fields'):
                props = st.targets[0].id
                self.note(fn, props, 'props')
                out.append(f'({sid}, .bindProps {self.fields_src(st.value, me, fn.name)})')
                continue
            if isinstance(st, ast.If) and not st.orelse and isinstance(st.test, ast.Compare) and is_name(st.test.left, '_context') \
                    and len(st.test.ops) == 1 and isinstance(st.test.ops[0], (ast.Is, ast.Eq)) \
                    and isinstance(st.test.comparators[0], ast.Constant) and st.test.comparators[0].value is None:
                inner = []
                for s in st.body:
                    sid2 = self.t.new('validate_types', fn.name, s)
                    sm = simple(s)
                    if sm is None:
                        raise Skip(f'{fn.name}: statement `{ast.unparse(s)[:60]}` outside the subset')
                    inner.append(f'({sid2}, {sm})')
                out.append(f'({sid}, .ifContextNone [{", ".join(inner)}])')
                continue
            if isinstance(st, ast.Assign) and len(st.targets) == 1 and is_name(st.targets[0], '_context') and isinstance(st.value, ast.Dict):
                parts = [ctx_part(k, v) for k, v in zip(st.value.keys, st.value.values)]
                out.append(f'({sid}, .ctxMerge [{", ".join(parts)}])')
                continue
            if isinstance(st, ast.For) and is_name(st.target) and not st.orelse:
                fv = st.target.id
                self.note(fn, fv, 'field')
                srcs = self.fields_src(st.iter, me, fn.name, props)
                inner = []
                for s in st.body:
                    sid2 = self.t.new('validate_types', fn.name, s)
                    if isinstance(s, ast.Expr) and isinstance(s.value, ast.Call) and is_name(s.value.func, 'assert_value_matches_type') and not s.value.args:
                        kw = {k.arg: ast.unparse(k.value) for k in s.value.keywords}
                        if set(kw) != {'value', 'type_', 'err', 'type_vars', 'context'}:
                            raise Skip(f'{fn.name}: arguments of assert_value_matches_type are {sorted(kw)}')
                        inner.append(f'({sid2}, .assertField {lean_bool(kw["value"] == f"getattr({me}, {fv}.name)")} '
                                     f'{lean_bool(kw["type_"] == f"{fv}.type")} {lean_bool(kw["type_vars"] == "{}")} {lean_bool(kw["context"] == "_context")})')
                    elif isinstance(s, ast.Return) and s.value is None:
                        inner.append(f'({sid2}, .ret)')
                    elif isinstance(s, ast.Break):
                        inner.append(f'({sid2}, .brk)')
                    elif isinstance(s, ast.Continue):
                        inner.append(f'({sid2}, .cont)')
                    else:
                        raise Skip(f'{fn.name}: loop statement `{ast.unparse(s)[:60]}` outside the subset')
                out.append(f'({sid}, .forFields {srcs} [{", ".join(inner)}])')
                continue
            sm = simple(st)
            if sm is not None:
                out.append(f'({sid}, .simple ({sm}))')
                continue
            raise Skip(f'{fn.name}: statement `{ast.unparse(st)[:70]}` outside the subset')
        if any(isinstance(n, (ast.Try, ast.With)) for n in ast.walk(fn)):
            raise Skip(f'{fn.name}: try / with')
        return out

    # ---- _get_context_of_caller
    def tr_caller(self):
        fn = getattr(self, 'caller_fn', None)
        if fn is None:
            raise Skip('new_post_init does not ask a module-level helper for the context of the caller')
        inst, skip = self.caller_params
        frame = None
        out = []
        tests_of = {}
        for st in no_doc(fn.body):
            sid = self.t.new('caller', fn.name, st)
            if isinstance(st, ast.Assign) and len(st.targets) == 1 and is_name(st.targets[0]) and frame is None:
                m = st.value
                if isinstance(m, ast.Call) and ast.unparse(m.func) == 'sys._getframe' and len(m.args) == 1 and not m.keywords \
                        and isinstance(m.args[0], ast.Constant) and isinstance(m.args[0].value, int):
                    frame = st.targets[0].id
                    self.note(fn, frame, 'frame')
                    out.append(f'({sid}, .startFrame {m.args[0].value})')
                    continue
            if isinstance(st, ast.While) and frame is not None and not st.orelse:
                t = st.test
                stops = False
                if isinstance(t, ast.BoolOp) and isinstance(t.op, ast.And) and len(t.values) == 2 and ast.unparse(t.values[0]) == f'{frame}.f_back is not None':
                    stops = True
                    t = t.values[1]
                disj = t.values if isinstance(t, ast.BoolOp) and isinstance(t.op, ast.Or) else [t]
                tests = [self.frame_test(d, frame, inst, skip) for d in disj]
                inner = []
                for s in st.body:
                    sid2 = self.t.new('caller', fn.name, s)
                    if isinstance(s, ast.Assign) and len(s.targets) == 1 and is_name(s.targets[0], frame) and ast.unparse(s.value) == f'{frame}.f_back':
                        inner.append(f'({sid2}, .stepBack)')
                    else:
                        raise Skip(f'{fn.name}: loop statement `{ast.unparse(s)[:60]}` outside the subset')
                out.append(f'({sid}, .whileInternal {lean_bool(stops)} [{", ".join(tests)}] [{", ".join(inner)}])')
                continue
            if isinstance(st, ast.Return) and isinstance(st.value, ast.Dict) and frame is not None and all(k is None for k in st.value.keys):
                parts = []
                for v in st.value.values:
                    tx = ast.unparse(v)
                    if tx == f'{frame}.f_globals':
                        parts.append('.frameGlobals')
                    elif tx == f'{frame}.f_locals':
                        parts.append('.frameLocals')
                    else:
                        raise Skip(f'{fn.name}: returns `{tx}`')
                out.append(f'({sid}, .retContext [{", ".join(parts)}])')
                continue
            raise Skip(f'{fn.name}: statement `{ast.unparse(st)[:70]}` outside the subset')
        return out

    def frame_test(self, d, frame, inst, skip):
        tx = ast.unparse(d)
        if tx == f'{frame}.f_code in {skip}':
            return '.codeInSkip'
        if tx in (f"{frame}.f_globals.get('__name__') == 'dataclasses'", f"{frame}.f_globals['__name__'] == 'dataclasses'"):
            return '.moduleIsDataclasses'
        if isinstance(d, ast.Call) and is_name(d.func, 'any') and len(d.args) == 1 and isinstance(d.args[0], ast.GeneratorExp) and not d.keywords:
            g = d.args[0]
            if len(g.generators) == 1 and is_name(g.generators[0].target) and not g.generators[0].ifs \
                    and ast.unparse(g.generators[0].iter) == f'{frame}.f_locals.values()':
                v = g.generators[0].target.id
                if ast.unparse(g.elt) in (f'{v} is {inst}', f'{inst} is {v}'):
                    self.note(self.caller_fn, v, 'value')
                    return '.holdsInstance'
        return f'(.other {lean_str(tx)})'

    # ---- get_context
    def get_context_fn(self):
        fs = [n for n in self.ctx_tree.body if isinstance(n, ast.FunctionDef) and n.name == 'get_context']
        if len(fs) != 1:
            raise Skip('get_context not found')
        return fs[0]

    def get_context_default_depth(self):
        fn = self.get_context_fn()
        d = dict(zip([a.arg for a in fn.args.args][-len(fn.args.defaults):], fn.args.defaults)).get('depth')
        if not (isinstance(d, ast.Constant) and isinstance(d.value, int)):
            raise Skip('get_context: default depth is not a constant')
        return d.value

    def tr_get_context(self):
        fn = self.get_context_fn()
        if [a.arg for a in fn.args.args] != ['depth', 'increase_depth_if_name_matches'] or fn.args.kwonlyargs or fn.args.vararg or fn.args.kwarg:
            raise Skip('get_context: unexpected signature')
        frame = nm = None
        out = []

        def frame_at(s):
            if isinstance(s, ast.Assign) and len(s.targets) == 1 and is_name(s.targets[0]) and (frame is None or s.targets[0].id == frame):
                tx = ast.unparse(s.value).replace(' ', '')
                if tx == 'sys._getframe(depth)':
                    return 0
                if tx in ('sys._getframe(depth+1)', 'sys._getframe(1+depth)'):
                    return 1
            return None
        for st in no_doc(fn.body):
            sid = self.t.new('get_context', fn.name, st, REL_CTX)
            k = frame_at(st)
            if k is not None:
                frame = st.targets[0].id
                self.note(fn, frame, 'frame')
                out.append(f'({sid}, .frameAt {k})')
                continue
            if isinstance(st, ast.Assign) and len(st.targets) == 1 and is_name(st.targets[0]) and frame is not None \
                    and ast.unparse(st.value) == f'{frame}.f_code.co_name':
                nm = st.targets[0].id
                self.note(fn, nm, 'name')
                out.append(f'({sid}, .bindName)')
                continue
            if isinstance(st, ast.If) and not st.orelse and nm is not None \
                    and ast.unparse(st.test) in (f'{nm} in (increase_depth_if_name_matches or [])', f'{nm} in (increase_depth_if_name_matches or ())'):
                inner = []
                for s in st.body:
                    sid2 = self.t.new('get_context', fn.name, s, REL_CTX)
                    k = frame_at(s)
                    if k is None:
                        raise Skip(f'get_context: statement `{ast.unparse(s)[:60]}` outside the subset')
                    inner.append(f'({sid2}, .frameAt {k})')
                out.append(f'({sid}, .ifNameMatches [{", ".join(inner)}])')
                continue
            if isinstance(st, ast.Return) and isinstance(st.value, ast.Dict) and frame is not None and all(k is None for k in st.value.keys):
                parts = []
                for v in st.value.values:
                    tx = ast.unparse(v)
                    if tx == f'{frame}.f_globals':
                        parts.append('.frameGlobals')
                    elif tx == f'{frame}.f_locals':
                        parts.append('.frameLocals')
                    else:
                        raise Skip(f'get_context: returns `{tx}`')
                out.append(f'({sid}, .retContext [{", ".join(parts)}])')
                continue
            raise Skip(f'get_context: statement `{ast.unparse(st)[:70]}` outside the subset')
        return out


def translate(repo):
    """-> (programs: {role: [lean terms]}, table rows, parameter defaults, noop lambda row or None)"""
    tr = Translator(repo)
    tr.noop_lambda = None
    progs = tr.run()
    progs['caller'] = tr.tr_caller()
    noop = None
    if tr.noop_lambda is not None:
        lam = tr.noop_lambda
        noop = tr.t.new('noop', '<lambda>', lam, span=(lam.lineno, lam.end_lineno))
    return progs, tr.t.rows, tr.pdef, noop


class _Rename(ast.NodeTransformer):
    def __init__(self, mapping):
        self.m = mapping

    def visit_Name(self, n):
        n.id = self.m.get(n.id, n.id)
        return n

    def visit_arg(self, n):
        n.arg = self.m.get(n.arg, n.arg)
        return n

    def visit_keyword(self, n):
        if n.arg is not None:
            n.arg = self.m.get(n.arg, n.arg)
        self.generic_visit(n)
        return n

    def visit_FunctionDef(self, n):
        n.name = self.m.get(n.name, n.name)
        self.generic_visit(n)
        return n


def canonical_trees(repo):
    """(AST of cls_deco_frozen_dataclass.py, AST of get_context.py) with the *locals* of the translated functions renamed to the names the
    older translators (gen/frozen.py, gen/typesafe.py) look for: `new_class`, `cls_`, `args`, `old_post_init`, `new_post_init`, `decorator`,
    `methods_to_add`, `method`, `props`, `field`, `current_values`, `context`, `frame`, `value`, `instance`, `skip`, `self`, `kwargs`, … - so that a
    pure renaming of locals does not change what they generate.  The names are found by role (what an assignment binds, how a name is used),
    every rename is confined to the scope the role lives in, and is dropped when the canonical name is already taken there.  Source outside the
    subset of this translator: the trees as they are."""
    try:
        tr = Translator(repo)
        tr.noop_lambda = None
        tr.run()
        tr.tr_caller()
    except Skip:
        return ast.parse(src(repo, REL)), ast.parse(src(repo, REL_CTX))
    by_scope = {}
    for scope, actual, canonical in tr.ren:
        by_scope.setdefault(id(scope), (scope, {}))[1][actual] = canonical
    # inner scopes first, so that a name is renamed by the rule of the scope that binds it
    order = sorted(by_scope.values(), key=lambda sm: -getattr(sm[0], 'lineno', 0))
    for scope, mapping in order:
        used = {n.id for n in ast.walk(scope) if isinstance(n, ast.Name)} | {n.arg for n in ast.walk(scope) if isinstance(n, ast.arg)} | \
               {n.name for n in ast.walk(scope) if isinstance(n, (ast.FunctionDef, ast.ClassDef))}
        mapping = {a: c for a, c in mapping.items() if c not in used}
        if mapping:
            _Rename(mapping).visit(scope)
    return ast.fix_missing_locations(tr.tree), ast.fix_missing_locations(tr.ctx_tree)


def table(repo):
    """[(id, role, function name in the source, first line, last line, file relative to the repository)]"""
    return translate(repo)[1]


TYPES = '''/-- the parameters of `frozen_dataclass` -/
inductive Param where | typeSafe | order | kwOnly | slots
deriving DecidableEq, Repr
/-- Boolean expressions over them (what is handed to `dataclass(...)`, the test of an `if`) -/
inductive BExpr where
  | const (b : Bool) | param (p : Param) | not (e : BExpr) | and (a b : BExpr) | or (a b : BExpr)
  | ite (c a b : BExpr) | eq (a b : BExpr) | ne (a b : BExpr)
deriving DecidableEq, Repr
/-- a class object in the source: `type(self)` / `self.__class__`; the name bound to the result of `dataclass(...)(…)`; the class handed to
    the decorator (with `slots=True` the two differ: `dataclass` builds a new class) -/
inductive ClsRef where | typeSelf | newClass | oldClass
deriving DecidableEq, Repr
/-- the functions defined inside `decorator` -/
inductive Fn where | newPostInit | copyWith | deepCopyWith | validateTypes
deriving DecidableEq, Repr
/-- what a loop / comprehension over the fields ranges over: `fields(self)`, `fields(type(self))`, `fields(<result of dataclass()>)`,
    `fields(<class handed to the decorator>)`, the local bound by `bindProps` -/
inductive FieldsSrc where | ofSelf | ofTypeSelf | ofNewClass | ofOldClass | props
deriving DecidableEq, Repr
/-- tests on the current field value inside a comprehension: `isinstance(getattr(self, f.name), Hashable)` -/
inductive VCond where | hashable | not (c : VCond)
deriving DecidableEq, Repr
/-- the value a comprehension stores per field: `getattr(self, f.name)`, `deepcopy(e)`, `a if c else b` -/
inductive VExpr where | field | deepcopy (e : VExpr) | ite (c : VCond) (a b : VExpr)
deriving DecidableEq, Repr
/-- dict expressions of a copy method: the comprehension's dict, `kwargs`, the dict bound by `bindMerged`, `{**a, **b}` (b wins) -/
inductive DictExpr where | cur | kwargs | merged | merge (a b : DictExpr)
deriving DecidableEq, Repr
/-- entries of a context dict display, left to right (later entries win) -/
inductive CtxPart where | given | moduleGlobals | ownClass | frameGlobals | frameLocals
deriving DecidableEq, Repr
/-- the disjuncts of the loop test of the frame walk -/
inductive FrameTest where | codeInSkip | moduleIsDataclasses | holdsInstance | other (text : String)
deriving DecidableEq, Repr
/-- where `dataclass(...)` takes its options from: the dict bound by `bindArgs` (`**args`), or keywords written at the call -/
inductive ArgSrc where | fromArgs | direct (frozen order kwOnly slots : BExpr)
deriving DecidableEq, Repr
/-- what `new_post_init` hands to `validate_types` -/
inductive CtxArg where | callerContext | noContext
deriving DecidableEq, Repr

/-- `frozen_type_safe_dataclass`: `return frozen_dataclass(<options given as literals>)(cls)` -/
inductive SStmt where | retShortcut (typeSafe order kwOnly slots : Option Bool)
deriving DecidableEq, Repr
/-- the tail of `frozen_dataclass` -/
inductive OSimple where | retDecorator | retApplied
deriving DecidableEq, Repr
inductive OStmt where
  | defDecorator                                   -- def decorator(cls_): …
  | ifClsNone (body : List (Nat × OSimple))        -- if cls is None: …
  | simple (s : OSimple)
deriving DecidableEq, Repr
/-- statements of `decorator` -/
inductive DSimple where
  | saveOldPostInit (frm : ClsRef) (defaultNoop : Bool)    -- old = getattr(<frm>, '__post_init__' [, lambda _: None])
  | defFn (f : Fn)                                         -- def <f>(…): …
  | installPostInit (on : ClsRef) (f : Fn)                 -- setattr(<on>, '__post_init__', <f>)
  | setMethod (f : Fn) (on : ClsRef)                       -- setattr(<on>, '<name of f>', <f>)
deriving DecidableEq, Repr
inductive DStmt where
  | bindArgs (frozen order kwOnly slots : BExpr)           -- args = {'frozen': …, 'order': …, 'kw_only': …, 'slots': …}
  | ifCond (c : BExpr) (body : List (Nat × DSimple))       -- if <c>: …
  | simple (s : DSimple)
  | callDataclass (src : ArgSrc) (on : ClsRef)             -- new_class = dataclass(…)(<on>)
  | bindMethods (fs : List Fn)                             -- methods_to_add = […]
  | forMethods (body : Nat) (on : ClsRef)                  -- for m in methods_to_add: setattr(<on>, m.__name__, m)
  | returnCls (c : ClsRef)                                 -- return <c>
deriving DecidableEq, Repr
/-- statements of `new_post_init` -/
inductive PStmt where
  | callOld                                                -- old_post_init(self)
  | bindCallerContext (instanceIsSelf : Bool) (skip : List Fn)   -- context = _get_context_of_caller(instance=self, skip=(f.__code__, …))
  | callValidate (ctx : CtxArg)                            -- self.validate_types(_context=context) / self.validate_types()
deriving DecidableEq, Repr
/-- statements of `copy_with` / `deep_copy_with` -/
inductive CStmt where
  | collect (src : FieldsSrc) (initOnly : Bool) (val : VExpr)   -- cur = {f.name: <val> for f in <src> [if f.init]}
  | bindMerged (e : DictExpr)                                   -- merged = {**a, **b}
  | retReplace (deepSelf : Bool) (kw : DictExpr)                -- return replace(self | deepcopy(self), **<kw>)
  | retConstruct (cls : ClsRef) (kw : DictExpr)                 -- return <cls>(**<kw>)
deriving DecidableEq, Repr
/-- statements of `validate_types` -/
inductive VSimple where
  | ctxFromGetContext (depth : Nat)                        -- _context = get_context(depth=<depth>)
  | ret                                                    -- return
deriving DecidableEq, Repr
inductive VBody where
  | assertField (usesValue usesType freshTypeVars passesContext : Bool)
      -- assert_value_matches_type(value=getattr(self, f.name), type_=f.type, err=…, type_vars={}, context=_context)
  | ret | brk | cont
deriving DecidableEq, Repr
inductive VStmt where
  | bindProps (src : FieldsSrc)                            -- props = fields(…)
  | ifContextNone (body : List (Nat × VSimple))            -- if _context is None: …
  | ctxMerge (parts : List CtxPart)                        -- _context = {**_context, **self.__init__.__globals__, self.__class__.__name__: self.__class__}
  | forFields (src : FieldsSrc) (body : List (Nat × VBody))  -- for f in <src>: …
  | simple (s : VSimple)
deriving DecidableEq, Repr
/-- statements of `_get_context_of_caller` -/
inductive WSimple where | stepBack                         -- frame = frame.f_back
deriving DecidableEq, Repr
inductive WStmt where
  | startFrame (depth : Nat)                               -- frame = sys._getframe(<depth>)
  | whileInternal (stopsAtLast : Bool) (tests : List FrameTest) (body : List (Nat × WSimple))
      -- while [frame.f_back is not None and] (t1 or t2 …): …
  | retContext (parts : List CtxPart)                      -- return {**frame.f_globals, **frame.f_locals}
deriving DecidableEq, Repr
/-- statements of `get_context` -/
inductive GSimple where | frameAt (extra : Nat)            -- frame = sys._getframe(depth + <extra>)
deriving DecidableEq, Repr
inductive GStmt where
  | frameAt (extra : Nat)
  | bindName                                               -- name = frame.f_code.co_name
  | ifNameMatches (body : List (Nat × GSimple))            -- if name in (increase_depth_if_name_matches or []): …
  | retContext (parts : List CtxPart)
deriving DecidableEq, Repr
'''


def prog(name, ty, doc, items):
    if not items:
        return f'/-- {doc} -/\ndef {name} : List (Nat × {ty}) := []\n'
    return f'/-- {doc} -/\ndef {name} : List (Nat × {ty}) := [\n  ' + ',\n  '.join(items) + ']\n'


def gen_frozen_ir(repo):
    progs, rows, pdef, noop = translate(repo)
    L = [HEADER.format(rel=f'{REL}, {REL_CTX}'), 'namespace PedVerif.Gen.FrozenIR\n', TYPES]
    L.append('/-- defaults of the decorator parameters -/')
    L.append(f'def defaultParams : Bool × Bool × Bool × Bool := ({", ".join(lean_bool(pdef[p]) for p in PARAMS)})\n')
    L.append(prog('shortcutProg', 'SStmt', '`frozen_type_safe_dataclass`', progs['shortcut']))
    L.append(prog('outerProg', 'OStmt', 'body of `frozen_dataclass` (after the doc string)', progs['outer']))
    L.append(prog('decoProg', 'DStmt', 'body of `decorator`', progs['decorator']))
    L.append(prog('postInitProg', 'PStmt', 'body of `new_post_init`', progs['new_post_init']))
    L.append(prog('copyWithProg', 'CStmt', 'body of `copy_with`', progs['copy_with']))
    L.append(prog('deepCopyWithProg', 'CStmt', 'body of `deep_copy_with`', progs['deep_copy_with']))
    L.append(prog('validateProg', 'VStmt', 'body of `validate_types`', progs['validate_types']))
    L.append(prog('callerProg', 'WStmt', 'body of `_get_context_of_caller`', progs['caller']))
    L.append(prog('getContextProg', 'GStmt', 'body of `get_context` (pedantic/get_context.py)', progs['get_context']))
    ncalls = sum(1 for n in ast.walk(ast.parse(src(repo, REL))) if isinstance(n, ast.Call) and is_name(n.func, 'dataclass'))
    L.append('/-- how often the source text calls `dataclass(…)` at all (anywhere in the module); `decoProg` has the one call of `decorator`, and no')
    L.append('    statement of `decorator` is a `try` (the translator refuses such a source): whatever `dataclass()` raises for a definition it refuses')
    L.append('    ends the decoration -/')
    L.append(f'def dataclassCallSites : Nat := {ncalls}\n')
    L.append('/-- statement id of the body of the default hook `lambda _: None` (it runs when the class has no `__post_init__` of its own) -/')
    L.append(f'def noopHookId : Option Nat := {"none" if noop is None else f"some {noop}"}\n')
    L.append('/-- statement id ↦ (function, first line, last line) in the current source; compound statements: the header lines -/')
    L.append('def stmtLines : List (Nat × String × Nat × Nat) := [\n  ' +
             ',\n  '.join(f'({sid}, {lean_str(owner)}, {l0}, {l1})' for (sid, role, owner, l0, l1, rel) in sorted(rows)) + ']\n')
    L.append('end PedVerif.Gen.FrozenIR')
    return '\n'.join(L) + '\n'


FILES = {'FrozenIR.lean': gen_frozen_ir}
