"""Entry point of ./check — see DESIGN.md §3.4 and §5."""
import sys, os, json, time, argparse, importlib, traceback, random

sys.path.insert(0, os.path.dirname(os.path.abspath(__file__)))
import core


def main() -> int:
    ap = argparse.ArgumentParser()
    ap.add_argument('prop')
    ap.add_argument('--tier', default=os.environ.get('VERIF_TIER', 'quick'), choices=['quick', 'thorough'])
    ap.add_argument('--replay', default=None)
    ap.add_argument('--quiet-replay', action='store_true')
    ap.add_argument('--no-lean', action='store_true', help='development only: skip the Lean stage')
    ap.add_argument('--run-impl', nargs=2, metavar=('IN', 'OUT'), default=None,
                    help='internal (amplified run): plugin.run_impl on the JSON case list IN, outcomes written to OUT')
    a = ap.parse_args()
    seed = int(os.environ.get('VERIF_SEED', '0') or 0)
    try:
        plugin = importlib.import_module(f'props.{a.prop}')
    except ModuleNotFoundError as e:
        if e.name != f'props.{a.prop}':
            raise
        print(f'no check for property {a.prop}', file=sys.stderr)
        return 2
    if a.run_impl:
        with open(a.run_impl[0]) as f:
            job = json.load(f)
        cs = job['cases']
        if job.get('state') is not None and hasattr(plugin, 'import_state'):
            plugin.import_state(job['state'])
        t0 = time.time()
        # in batches below the size at which some plugins hand their cases to forked worker pools (C07, C09, C19: >= 2000 / 3000 cases):
        # the amplified sequence has to run in THIS interpreter, in order, so that whatever the library keeps between calls stays
        step = int(os.environ.get('VERIF_AMPLIFY_BATCH') or 1500)
        out = []
        for b in range(0, len(cs), step):
            out += plugin.run_impl(cs[b:b + step])
        with open(a.run_impl[1], 'w') as f:
            json.dump({'impl': out, 'c': [c.get('c') for c in cs], 'run_s': time.time() - t0}, f, default=str)
        return 0
    if a.replay:
        return core.replay(plugin, a.prop, a.replay, quiet=a.quiet_replay)
    return core.run_check(plugin, a.prop, a.tier, seed, skip_lean=a.no_lean)


if __name__ == '__main__':
    try:
        rc = main()
    except SystemExit:
        raise
    except BaseException:
        traceback.print_exc()
        print('INTERNAL-ERROR (exit 2): the check itself failed; this is not a verdict about the property')
        rc = 2
    sys.stdout.flush()
    sys.exit(rc)
