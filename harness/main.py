"""Entry point of ./check — see DESIGN.md §3.4 and §5."""
import sys, os, json, time, argparse, importlib, traceback, random

sys.path.insert(0, os.path.dirname(os.path.abspath(__file__)))
import core


def main() -> int:
    ap = argparse.ArgumentParser()
    ap.add_argument('prop')
    ap.add_argument('--tier', default=os.environ.get('VERIF_TIER', 'quick'), choices=['quick', 'thorough'])
    ap.add_argument('--replay', default=None)
    ap.add_argument('--quiet-replay', action='store_true')
    ap.add_argument('--no-lean', action='store_true', help='development only: skip the Lean stage')
    a = ap.parse_args()
    seed = int(os.environ.get('VERIF_SEED', '0') or 0)
    try:
        plugin = importlib.import_module(f'props.{a.prop}')
    except ModuleNotFoundError as e:
        if e.name != f'props.{a.prop}':
            raise
        print(f'no check for property {a.prop}', file=sys.stderr)
        return 2
    if a.replay:
        return core.replay(plugin, a.prop, a.replay, quiet=a.quiet_replay)
    return core.run_check(plugin, a.prop, a.tier, seed, skip_lean=a.no_lean)


if __name__ == '__main__':
    try:
        rc = main()
    except SystemExit:
        raise
    except BaseException:
        traceback.print_exc()
        print('INTERNAL-ERROR (exit 2): the check itself failed; this is not a verdict about the property')
        rc = 2
    sys.stdout.flush()
    sys.exit(rc)
