"""Shared machinery of ./check: Lean stage (translator, build, audit), driver bridge, verdict logic (DESIGN §5),
evidence and replay files."""
import os, sys, json, time, subprocess, re, fcntl, hashlib, importlib, random, glob

ROOT = os.environ.get('VERIF_ROOT') or os.path.dirname(os.path.dirname(os.path.abspath(__file__)))
REPO = os.environ.get('VERIF_REPO', '/repo')
LEAN = os.path.join(ROOT, 'lean')
DRIVER = os.path.join(LEAN, '.lake', 'build', 'bin', 'peddriver')
ALLOWED_AXIOMS = {'propext', 'Classical.choice', 'Quot.sound'}
FORBIDDEN = re.compile(r'\bsorry\b|\badmit\b|^\s*axiom\s|native_decide|bv_decide|implemented_by|\bunsafe\s|maxHeartbeats\s+0')

TRUSTED_BASE = [
    'Lean 4.33.0 kernel (thorough tier: re-checked by leanchecker); axioms allowed per theorem: propext, Classical.choice, Quot.sound (audited by #print axioms on every run)',
    'harness/extract.py (translator): the generated PedVerif/Gen/*.lean say what the source says',
    'harness correspondence check: concretisation of abstract cases, canonicalisation of outcomes, and that sampled agreement on every model path extends to the path',
    'environment models (CPython 3.12 typing/inspect/dataclasses/contextlib/asyncio/multiprocess semantics) are modelled and exercised by the correspondence check, not verified',
]


class Lock:
    def __init__(self, name='.lean.lock'):
        self.path = os.path.join(ROOT, name)

    def __enter__(self):
        self.f = open(self.path, 'w')
        fcntl.flock(self.f, fcntl.LOCK_EX)
        return self

    def __exit__(self, *a):
        fcntl.flock(self.f, fcntl.LOCK_UN)
        self.f.close()


def sh(cmd, cwd=None, timeout=3600, env=None):
    p = subprocess.run(cmd, cwd=cwd, capture_output=True, text=True, timeout=timeout, env=env)
    return p.returncode, p.stdout + p.stderr


# ---------------------------------------------------------------- which lines of the library the correspondence run executes

class LineCoverage:
    """Records, with sys.monitoring (Python >= 3.12; every location reports once and is then disabled: no measurable cost), which
    lines inside FUNCTION bodies of the library (VERIF_REPO/pedantic, tests excluded) are executed while the implementation runs on
    the cases of a check.  Module and class bodies run at import time, before a check starts, and are not counted.  The evidence
    lists per file the executable function lines, how many ran, and the lines that never ran: a change confined to lines the
    correspondence run never reaches can only be caught by a broken proof obligation, never by a disagreement."""
    TOOL = 4

    def __init__(self, child_dir=None):
        self.hits = set()
        self.on = False
        self.root = os.path.join(os.path.realpath(REPO), 'pedantic') + os.sep
        self.pid = os.getpid()
        # processes forked from this one (worker pools of a plugin) and fresh interpreters that call `linecov_child()` append what
        # they execute to <dir>/<pid>.txt (every location reports once, so these are a few hundred short lines per process)
        self.dir = child_dir
        self.child_only = child_dir is not None

    def start(self):
        mon = getattr(sys, 'monitoring', None)
        if mon is None:
            return
        try:
            mon.use_tool_id(self.TOOL, 'pedverif-lines')
        except ValueError:
            return
        import tempfile
        if self.dir is None:
            self.dir = tempfile.mkdtemp(prefix='pedverif_linecov_')
            os.environ['VERIF_LINECOV_DIR'] = self.dir
        root, hits, me, d, child_only = self.root, self.hits, self.pid, self.dir, self.child_only

        def on_line(code, line):
            fn = code.co_filename
            if fn.startswith(root):
                pid = os.getpid()
                if pid == me and not child_only:
                    hits.add((fn, line))
                else:
                    try:
                        with open(os.path.join(d, f'{pid}.txt'), 'a') as f:
                            f.write(f'{fn}\t{line}\n')
                    except OSError:
                        pass
            return mon.DISABLE
        mon.register_callback(self.TOOL, mon.events.LINE, on_line)
        mon.set_events(self.TOOL, mon.events.LINE)
        self.on = True

    def stop(self):
        if not self.on:
            return
        mon = sys.monitoring
        mon.set_events(self.TOOL, 0)
        mon.register_callback(self.TOOL, mon.events.LINE, None)
        mon.free_tool_id(self.TOOL)
        self.on = False
        os.environ.pop('VERIF_LINECOV_DIR', None)
        if self.dir and not self.child_only:
            import shutil
            for f in glob.glob(os.path.join(self.dir, '*.txt')):
                try:
                    for l in open(f):
                        fn, _, ln = l.rstrip('\n').rpartition('\t')
                        if fn and ln.isdigit():
                            self.hits.add((fn, int(ln)))
                except OSError:
                    pass
            shutil.rmtree(self.dir, ignore_errors=True)

    def report(self):
        import types, inspect
        out = {}
        for dp, dn, fns in os.walk(self.root):
            if os.sep + 'tests' in dp + os.sep or os.sep + 'examples' in dp + os.sep:
                continue
            for f in sorted(fns):
                if not f.endswith('.py'):
                    continue
                path = os.path.join(dp, f)
                try:
                    co = compile(open(path).read(), path, 'exec')
                except (SyntaxError, OSError):
                    continue
                lines, stack = set(), [co]
                while stack:
                    c = stack.pop()
                    if c.co_flags & inspect.CO_OPTIMIZED:          # a function body (module and class bodies run at import time)
                        first = c.co_firstlineno
                        lines |= {l for _, _, l in c.co_lines() if l and l != first}
                    stack += [k for k in c.co_consts if isinstance(k, types.CodeType)]
                ran = {l for (fn, l) in self.hits if fn == path}
                if not lines or not (ran & lines):
                    continue           # a module this check never enters
                missed = sorted(lines - ran)
                out[os.path.relpath(path, os.path.dirname(self.root.rstrip(os.sep)))] = {
                    'function_lines': len(lines), 'executed': len(lines & ran), 'never_executed': missed[:80]}
        return out


def linecov_child():
    """for a fresh interpreter started by a plugin (e.g. the per-scenario processes of C17): report executed library lines to the
    check that started it, if it asked for that"""
    d = os.environ.get('VERIF_LINECOV_DIR')
    if d and os.path.isdir(d):
        lc = LineCoverage(child_dir=d)
        lc.start()
        return lc
    return None


def strip_comments(src: str) -> str:
    src = re.sub(r'/-.*?-/', '', src, flags=re.S)
    return re.sub(r'--.*', '', src)


def lean_closure_files(prop: str):
    """all model/spec/props files (forbidden-token scan covers the whole library: it is small)"""
    out = []
    for dp, dn, fn in os.walk(os.path.join(LEAN, 'PedVerif')):
        for f in fn:
            if f.endswith('.lean'):
                out.append(os.path.join(dp, f))
    return sorted(out)


def import_closure(prop: str):
    """the PedVerif modules the proof obligations of `prop` rest on: transitive `import PedVerif.*` closure of Props/<prop>.lean and
    Audit/<prop>.lean (module names such as 'PedVerif.Gen.Retry')"""
    seen, todo = set(), [f'PedVerif.Props.{prop}', f'PedVerif.Audit.{prop}']
    while todo:
        m = todo.pop()
        if m in seen:
            continue
        seen.add(m)
        f = os.path.join(LEAN, *m.split('.')) + '.lean'
        if not os.path.exists(f):
            continue
        for imp in re.findall(r'^import\s+(PedVerif\.[A-Za-z0-9_.]+)', open(f).read(), flags=re.M):
            todo.append(imp)
    return seen


def lean_stage(prop: str, tier: str) -> dict:
    """translator -> lake build driver -> lake build Props.<prop> -> axiom audit.  Returns a report; never raises for a
    broken proof (that is a finding of the run, not an internal error)."""
    rep = {'proof_broken': [], 'obligations': 0, 'discharged': 0, 'theorems': [], 'checker_cmd': '', 'translator': {},
           'lean_wall_s': 0.0}
    t0 = time.time()
    with Lock():
        import extract
        rep['translator'] = extract.run(REPO, os.path.join(LEAN, 'PedVerif', 'Gen'))
        # a generated file that could not be regenerated (source outside the translator's subset) is the committed snapshot of the
        # unchanged tree: the theorems resting on it are then NOT re-checked against what the code says now - for the properties whose
        # proof obligations import that file this is a broken obligation (search for a failing input; else no-failing-input-found)
        closure = import_closure(prop)
        for fname, reason in sorted(rep['translator'].get('translation_skipped', {}).items()):
            if 'PedVerif.Gen.' + fname[:-len('.lean')] in closure:
                rep['proof_broken'].append({'what': f'translator: Gen/{fname} could not be regenerated from the current source ({reason}); '
                                                    f'the theorems of {prop} that rest on it were checked against the snapshot of the unchanged tree only'})
        cmds = []
        rc, out = sh(['lake', 'build', 'peddriver'], cwd=LEAN)
        cmds.append('lake build peddriver')
        if rc != 0:
            raise RuntimeError('the model driver does not build (translator output or model broken):\n' + out[-3000:])
        if tier == 'thorough':
            # clean rebuild of the property's proof module closure: drop its oleans so that lake re-elaborates them
            for sub in ('Props', 'Audit'):
                for f in glob.glob(os.path.join(LEAN, '.lake', 'build', 'lib', 'lean', 'PedVerif', sub, prop + '.*')):
                    os.remove(f)
        rc, out = sh(['lake', 'build', f'PedVerif.Props.{prop}'], cwd=LEAN)
        cmds.append(f'lake build PedVerif.Props.{prop}')
        build_ok = rc == 0
        if not build_ok:
            errs = [l for l in out.splitlines() if 'error' in l.lower()]
            rep['proof_broken'].append({'what': f'lake build PedVerif.Props.{prop} failed', 'first_errors': errs[:8],
                                        'log_tail': out[-4000:]})
        # audit
        audit_file = os.path.join(LEAN, 'PedVerif', 'Audit', f'{prop}.lean')
        # further proof modules the audit file lists theorems of (e.g. Props/FrozenIR.lean, which restates the theorems of C10 / C11 about the
        # statement-by-statement translation and therefore imports Props/C10, Props/C11 - not the other way round): built like Props/<prop>
        for mod in re.findall(r'^import\s+(PedVerif\.[A-Za-z0-9_.]+)', open(audit_file).read(), flags=re.M):
            if mod == f'PedVerif.Props.{prop}' or not build_ok:
                continue
            if tier == 'thorough':
                for f in glob.glob(os.path.join(LEAN, '.lake', 'build', 'lib', 'lean', *mod.split('.')) + '.*'):
                    os.remove(f)
            rc, out = sh(['lake', 'build', mod], cwd=LEAN)
            cmds.append(f'lake build {mod}')
            if rc != 0:
                build_ok = False
                errs = [l for l in out.splitlines() if 'error' in l.lower()]
                rep['proof_broken'].append({'what': f'lake build {mod} failed', 'first_errors': errs[:8], 'log_tail': out[-4000:]})
        names = re.findall(r'^#print axioms\s+(\S+)', open(audit_file).read(), flags=re.M)
        rep['obligations'] = len(names)
        if build_ok:
            rc, out = sh(['lake', 'env', 'lean', audit_file], cwd=LEAN)
            cmds.append(f'lake env lean PedVerif/Audit/{prop}.lean')
            seen = {}
            for m in re.finditer(r"'([^']+)' depends on axioms: \[([^\]]*)\]", out):
                seen[m.group(1)] = {x.strip() for x in m.group(2).replace('\n', ' ').split(',') if x.strip()}
            for m in re.finditer(r"'([^']+)' does not depend on any axioms", out):
                seen[m.group(1)] = set()
            if rc != 0:
                rep['proof_broken'].append({'what': 'axiom audit file does not elaborate', 'log_tail': out[-2000:]})
            for n in names:
                full = [k for k in seen if k == n or k.endswith('.' + n)]
                if not full:
                    rep['proof_broken'].append({'what': f'audit: theorem {n} not found'})
                    continue
                ax = seen[full[0]]
                ok = ax <= ALLOWED_AXIOMS
                rep['theorems'].append({'name': full[0], 'axioms': sorted(ax), 'ok': ok})
                if ok:
                    rep['discharged'] += 1
                else:
                    rep['proof_broken'].append({'what': f'audit: theorem {full[0]} uses axioms {sorted(ax - ALLOWED_AXIOMS)}'})
            # forbidden tokens
            for f in lean_closure_files(prop):
                for ln, line in enumerate(strip_comments(open(f).read()).splitlines(), 1):
                    if FORBIDDEN.search(line):
                        rep['proof_broken'].append({'what': f'forbidden token in {os.path.relpath(f, LEAN)}: {line.strip()[:80]}'})
            if tier == 'thorough':
                extra_mods = [m for m in re.findall(r'^import\s+(PedVerif\.[A-Za-z0-9_.]+)', open(audit_file).read(), flags=re.M)
                              if m != f'PedVerif.Props.{prop}']
                rc, out = sh(['lake', 'env', 'leanchecker', f'PedVerif.Props.{prop}'] + extra_mods, cwd=LEAN, timeout=3000)
                cmds.append(f'lake env leanchecker PedVerif.Props.{prop}' + ''.join(' ' + m for m in extra_mods))
                rep['leanchecker'] = 'ok' if rc == 0 else out[-1500:]
                if rc != 0:
                    rep['proof_broken'].append({'what': 'leanchecker rejected the compiled module', 'log_tail': out[-1500:]})
        rep['checker_cmd'] = ' && '.join(cmds) + '  (cwd lean/)'
    rep['lean_wall_s'] = round(time.time() - t0, 2)
    return rep


def run_driver(cases):
    """cases: list of {'m': model, 'c': case}.  Returns list of model answers (dicts)."""
    if not cases:
        return []
    inp = '\n'.join(json.dumps({'m': c['m'], 'c': c['c']}, separators=(',', ':')) for c in cases) + '\n'
    p = subprocess.run([DRIVER], input=inp, capture_output=True, text=True, timeout=3600)
    lines = [l for l in p.stdout.splitlines() if l.strip()]
    if len(lines) != len(cases):
        raise RuntimeError(f'driver answered {len(lines)} lines for {len(cases)} cases; stderr: {p.stderr[:500]}')
    out = [json.loads(l) for l in lines]
    for c, o in zip(cases, out):
        if isinstance(o, dict) and 'error' in o and len(o) == 1:
            raise RuntimeError(f'driver error {o} on case {json.dumps(c)[:300]}')
    return out


# ---------------------------------------------------------------- known findings

def load_known():
    p = os.path.join(ROOT, 'known_findings.json')
    if not os.path.exists(p):
        return {'open': [], 'fixed': []}
    return json.load(open(p))


def corpus_cases(prop):
    out = []
    p = os.path.join(ROOT, 'harness', 'corpus', f'{prop}.jsonl')
    if os.path.exists(p):
        for l in open(p):
            l = l.strip()
            if l and not l.startswith('#'):
                out.append(json.loads(l))
    kf = load_known()
    for f in kf.get('open', []) + [x for x in kf.get('fixed', []) if isinstance(x, dict)]:
        if f.get('property') == prop and f.get('failing_input') is not None:
            c = dict(f['failing_input'])
            c.setdefault('origin', 'known_findings:' + f.get('id', '?'))
            out.append(c)
    return out


# ---------------------------------------------------------------- verdict

def judge_all(plugin, cases):
    impl = plugin.run_impl(cases)
    model = run_driver(cases)
    res = []
    for c, i, m in zip(cases, impl, model):
        j = plugin.judge(c, i, m)
        j.setdefault('corr', True)
        j.setdefault('pfail', None)
        j.setdefault('finding', None)
        j.setdefault('nontrivial', True)
        j.setdefault('tag', '')
        res.append((c, i, m, j))
    return res


_STATE = {}      # property -> plugin_state(plugin) of the running check (travels with candidate replays)


def fails_fresh(prop, before, case, baseline=None) -> bool:
    """does `case` fail its property when a fresh process first runs `before` and then `case`.  `baseline` (optional): the
    implementation outcome of the case when it ran first - an outcome that differs from it counts as failing (history dependence)"""
    tmp = os.path.join(ROOT, 'replays', f'.cand-{prop}-{os.getpid()}.json')
    os.makedirs(os.path.dirname(tmp), exist_ok=True)
    try:
        with open(tmp, 'w') as f:
            json.dump({'property': prop, 'kind': 'failing-input', 'case': case, 'before': before, 'baseline_impl': baseline,
                       'plugin_state': _STATE.get(prop)}, f, default=str)
        p = subprocess.run([sys.executable, '-B', os.path.join(ROOT, 'harness', 'main.py'), prop, '--replay', tmp, '--quiet-replay'],
                           capture_output=True, text=True, timeout=900)
        return p.returncode == 1 and 'still reproduces' in p.stdout
    except Exception:
        return False
    finally:
        if os.path.exists(tmp):
            os.remove(tmp)


def minimal_history(prop, prefix, case, cap=400, baseline=None):
    """a short list of earlier cases after which `case` fails in a fresh process, or None"""
    if not prefix or not fails_fresh(prop, prefix, case, baseline):
        return None
    lo, hi = 1, len(prefix)              # smallest suffix length that still fails (assumes the dependence is monotone)
    while lo < hi:
        mid = (lo + hi) // 2
        if fails_fresh(prop, prefix[len(prefix) - mid:], case, baseline):
            hi = mid
        else:
            lo = mid + 1
    suffix = prefix[len(prefix) - lo:]
    if len(suffix) > 1 and fails_fresh(prop, suffix[:1], case, baseline):
        return suffix[:1]                # the oldest case of that suffix is necessary; often it is sufficient
    return suffix if len(suffix) <= cap else None


# ---------------------------------------------------------------- amplified run: histories and twins

AMPLIFY_CAP = {'quick': 4000, 'thorough': 10000}        # cases taken from the run (evenly spaced, order kept)
AMPLIFY_BUDGET_S = {'quick': 60, 'thorough': 80}       # wall-clock aim of the fresh process (the sample shrinks to fit; hard limit 4x)
AMPLIFY_TWINS_PER_CASE = 3


def plugin_state(plugin):
    """what a fresh process must know to read this run's cases (optional plugin hooks export_state / import_state: e.g. the name table
    of the checker family, whose name ids are hashes)"""
    return plugin.export_state() if hasattr(plugin, 'export_state') else None


VOLATILE_KEYS = ('trace', 'wall_s', 'stall_s', 'decoTrace')      # diagnostics some runners attach to an outcome: present or not / different from run to run
# ('decoTrace', C11 / C10: the statement trace of the class decoration is attached to the ONE case that made the generated module load;
#  which case that is depends on what ran before - an observation of the harness' module cache, not an outcome of the library)


def default_same_outcome(case, a, b):
    """two executions of one case produced the same implementation outcome (measurements and optional diagnostics aside); a plugin
    whose outcomes hold other run-dependent parts defines `same_outcome(case, a, b)` itself"""
    if isinstance(a, dict) and isinstance(b, dict):
        a = {k: v for k, v in a.items() if k not in VOLATILE_KEYS}
        b = {k: v for k, v in b.items() if k not in VOLATILE_KEYS}
    return a == b


def _plain(o):
    """what a value looks like after the trip through a replay file (tuples -> lists, keys -> str, unknown objects -> str)"""
    return json.loads(json.dumps(o, default=str))


def _wire_case(c):
    """the case as a fresh process gets it: JSON only, without the private `x` entries (`_impl`: outcome cached while generating)"""
    c = dict(c)
    if isinstance(c.get('x'), dict):
        c['x'] = {k: v for k, v in c['x'].items() if not str(k).startswith('_')}
    return _plain(c)


def run_impl_fresh(plugin, prop, cases, timeout):
    """plugin.run_impl(cases) in ONE fresh interpreter (cold caches, exactly this order); None on timeout.  Returns (outcomes, the `c` of
    every case after the run: a runner may re-derive the term the model gets from the objects it really built)"""
    d = os.path.join(ROOT, 'replays')
    os.makedirs(d, exist_ok=True)
    fin, fout = os.path.join(d, f'.amp-{prop}-{os.getpid()}.in.json'), os.path.join(d, f'.amp-{prop}-{os.getpid()}.out.json')
    try:
        with open(fin, 'w') as f:
            json.dump({'cases': cases, 'state': plugin_state(plugin)}, f, default=str)
        try:
            p = subprocess.run([sys.executable, '-B', os.path.join(ROOT, 'harness', 'main.py'), prop, '--run-impl', fin, fout],
                               capture_output=True, text=True, timeout=timeout)
        except subprocess.TimeoutExpired:
            return None
        if p.returncode != 0 or not os.path.exists(fout):
            raise RuntimeError(f'amplified run: the implementation runner failed in the fresh process:\n{(p.stdout + p.stderr)[-3000:]}')
        r = json.load(open(fout))
        return r['impl'], r['c'], r.get('run_s', 0.0)
    finally:
        for f in (fin, fout):
            if os.path.exists(f):
                os.remove(f)


def amplified_run(plugin, prop, tier, res, open_ids, per_case_s):
    """History / twin amplification (the search for a concrete failing input when state is kept between calls).

    Takes (a capped, evenly spaced sample of) the cases of the run and executes, in one fresh process, the sequence
    `cases ++ reversed(cases) ++ cases-with-twins`; the third pass runs every case that has twins as `c, t1, c, t2, c, ...` where
    the twins (`plugin.twins(case)`, optional hook, helpers in props/_twins.py) are cases that are equal to `c` under `==` / `hash` /
    `repr` / `__qualname__` / `__code__` but differ in meaning (1 / True / 1.0, a class made twice, one `def` with other annotations,
    ...), or `c` itself preceded by such a decoy inside its own program.  Every execution is judged like any case.  A history-dependent
    failure is: an execution of a case of the run whose judgement shows a property failure that its first execution (the normal run)
    did not show, or whose implementation outcome differs from that first execution although the runner derived the same model input
    (the model is a function of its input: its answer cannot differ).  A twin that fails its property is a failing input in its own right; a twin on which model and
    implementation disagree is a correspondence disagreement.
    Returns {'violations': [(case, impl, model, judgement)], 'corr_breaks': [...], 'stats': {...}}; judgements carry `_prefix`
    (the executions that came before, for minimal_history) and `_baseline_impl`."""
    t0 = time.time()
    stats = {'ran': False}
    base = [(c, i, m, j) for (c, i, m, j) in res if not j['pfail'] and j['corr']]
    if not base:
        return {'violations': [], 'corr_breaks': [], 'stats': dict(stats, why='no clean case to amplify')}
    cap = int(os.environ.get('VERIF_AMPLIFY_CAP') or getattr(plugin, 'AMPLIFY_CAP', AMPLIFY_CAP).get(tier, 4000))
    budget = float(os.environ.get('VERIF_AMPLIFY_BUDGET_S') or getattr(plugin, 'AMPLIFY_BUDGET_S', AMPLIFY_BUDGET_S).get(tier, 60))
    hook = getattr(plugin, 'twins', None)
    hook_errors = [0]

    def plan(n):
        """the sample of n cases (evenly spaced, order kept), their twins, and the sequence of executions"""
        step = len(base) / n
        sample = [base[int(k * step)] for k in range(n)]
        wire = [_wire_case(c) for (c, _, _, _) in sample]
        twins_of = [[] for _ in sample]
        if hook is not None:
            for k, w in enumerate(wire):
                try:
                    tw = hook(json.loads(json.dumps(w))) or []
                except Exception:
                    hook_errors[0] += 1
                    tw = []
                twins_of[k] = [_wire_case(t) for t in tw[:AMPLIFY_TWINS_PER_CASE]]
        seq, origin = [], []              # origin: ('case', k) | ('twin', k, t)
        for k in range(n):
            seq.append(wire[k]); origin.append(('case', k))
        for k in reversed(range(n)):
            seq.append(wire[k]); origin.append(('case', k))
        for k in range(n):
            if twins_of[k]:
                seq.append(wire[k]); origin.append(('case', k))
                for t, tw in enumerate(twins_of[k]):
                    seq.append(tw); origin.append(('twin', k, t))
                    seq.append(wire[k]); origin.append(('case', k))
        return sample, wire, twins_of, seq, origin

    n = min(cap, len(base))
    sample, wire, twins_of, seq, origin = plan(n)
    # size the run: a pilot of a few executions in a fresh process says what one execution costs there (generators may have cached
    # the outcome while generating, a fresh process re-executes from the stored sources)
    # (two pilots of different size: the difference is free of the fixed cost of the first execution - imports, temp dirs)
    spread = seq[::max(len(seq) // 200, 1)][:200]
    small, large = spread[::5], spread
    pa = run_impl_fresh(plugin, prop, small, timeout=max(budget, 120))
    pb = run_impl_fresh(plugin, prop, large, timeout=max(budget, 120)) if pa is not None else None
    if pb is not None and len(large) > len(small):
        per_exec = max((pb[2] - pa[2]) / (len(large) - len(small)), pb[2] / len(large) / 10, 1e-5)
    else:
        per_exec = max(per_case_s * 3, budget / 200)
    allowed = int(budget / max(per_exec, 1e-5))
    if len(seq) > allowed:
        n = max(int(n * allowed / len(seq)), min(len(base), 40))
        sample, wire, twins_of, seq, origin = plan(n)
    n_twins = sum(len(t) for t in twins_of)
    stats.update({'sample': n, 'of': len(base), 'twins': n_twins, 'executions': len(seq), 'twin_hook': hook is not None,
                  'twin_hook_errors': hook_errors[0], 'pilot_s_per_execution': round(per_exec, 4)})
    fresh = run_impl_fresh(plugin, prop, seq, timeout=max(4 * budget, 120))
    if fresh is None:
        stats.update({'why': 'the fresh process did not finish within the time limit; amplification incomplete', 'wall_s': round(time.time() - t0, 1)})
        return {'violations': [], 'corr_breaks': [], 'stats': stats}
    impl, cs_after, _ = fresh
    if len(impl) != len(seq) or len(cs_after) != len(seq):
        raise RuntimeError(f'amplified run: {len(impl)} outcomes for {len(seq)} executions')
    # the model answers the case as the runner left it (judge_all does the same: run_impl first, then the driver); executions whose
    # `c` is the one of the first execution reuse its model answer
    ask = [p for p, o in enumerate(origin) if o[0] == 'twin' or cs_after[p] != wire[o[1]]['c']]
    for p in ask:
        seq[p] = dict(seq[p], c=cs_after[p])
    asked = dict(zip(ask, run_driver([seq[p] for p in ask])))
    same = getattr(plugin, 'same_outcome', None) or default_same_outcome
    violations, corr_breaks = [], []
    seen_bad = set()
    drift = 0
    # does the stored form of case k reproduce, in the fresh process, what the case did in the run?  (first execution of the first pass;
    # a case whose `c` the runner re-derived is compared through its judgement)  Twins of a case that does not are not judged: what they
    # would show is the replay limitation of their original (outcome cached while generating, identity lost in JSON), nothing about twins
    faithful = {}
    for p in range(n):
        if p in asked:
            j1 = plugin.judge(seq[p], impl[p], asked[p])
            faithful[p] = bool(j1.get('corr', True)) and not j1.get('pfail')
        else:
            faithful[p] = same(seq[p], _plain(sample[p][1]), impl[p])
    skipped_twins = 0
    for p, o in enumerate(origin):
        k = o[1]
        c0, i0, m0, j0 = sample[k]
        case, model = seq[p], asked.get(p, m0)
        j = plugin.judge(case, impl[p], model)
        j.setdefault('corr', True); j.setdefault('pfail', None); j.setdefault('finding', None); j.setdefault('tag', '')
        known = bool(j['pfail'] and j['finding'] and j['finding'] in open_ids)
        bad = None
        if o[0] == 'case':
            if j['pfail'] and not known:
                bad = f"history-dependent failure (the same case passed when it ran first in this run): {j['pfail']}"
            elif p not in asked and not same(case, _plain(i0), impl[p]):
                drift += 1
                bad = ('history-dependent outcome: the implementation answered ' + json.dumps(_plain(i0), default=str)[:300] +
                       ' when the case ran first and ' + json.dumps(impl[p], default=str)[:300] + f' at execution {p} of the amplified sequence '
                       '(same case, same model answer)' + ('' if j['corr'] else '; ' + str(j.get('why', ''))))
        elif not faithful[k]:
            skipped_twins += 1
        else:
            if j['pfail'] and not known:
                bad = (f"twin of a passing case ({o[2] + 1}. twin: equal under == / hash / repr / qualname / code, different in meaning): "
                       f"{j['pfail']}")
            elif not j['corr']:
                corr_breaks.append((case, impl[p], model, dict(j, tag='twin/' + str(j['tag']))))
        if bad and (o, bad[:60]) not in seen_bad:
            seen_bad.add((o, bad[:60]))
            jj = dict(j, pfail=bad, finding=None, tag='amplified/' + str(j['tag']))
            jj['_prefix'] = seq[:p]
            jj['_baseline_impl'] = _plain(i0) if o[0] == 'case' else None
            violations.append((case, impl[p], model, jj))
    # a re-executed case that misbehaves is history-dependent only if the case, executed ALONE in a fresh process, still behaves as it did
    # in the run; if it does not, its stored form does not reproduce what ran (an outcome cached while generating, an object identity
    # lost in JSON): that is a limitation of the replay, not a failure of the library.  Checked for the smallest few candidates.
    unfaithful, confirmed, kept = set(), set(), []
    for v in sorted(violations, key=lambda t: case_size(t[0])):
        jj = v[3]
        if jj['_baseline_impl'] is None:          # a twin: a case in its own right
            kept.append(v)
            continue
        key = json.dumps(v[0], sort_keys=True, default=str)
        if key not in unfaithful and key not in confirmed:
            if len(unfaithful) + len(confirmed) >= 6:
                continue                          # enough candidates examined
            if fails_fresh(prop, [], v[0], jj['_baseline_impl']):
                unfaithful.add(key)
            else:
                confirmed.add(key)
        if key in confirmed:
            kept.append(v)
    stats.update({'ran': True, 'history_failures': len(kept), 'history_candidates': len(violations), 'outcome_drift': drift,
                  'not_replayable_alone': len(unfaithful), 'cases_not_reproduced_by_their_stored_form': sum(1 for v in faithful.values() if not v),
                  'twins_skipped_for_that': skipped_twins, 'twin_correspondence_breaks': len(corr_breaks), 'wall_s': round(time.time() - t0, 1)})
    violations = kept
    return {'violations': violations, 'corr_breaks': corr_breaks, 'stats': stats}


def write_replay(prop, seed, n, payload):
    d = os.path.join(ROOT, 'replays')
    os.makedirs(d, exist_ok=True)
    path = os.path.join(d, f'{prop}-{seed}-{n}.json')
    with open(path, 'w') as f:
        json.dump(payload, f, indent=1, default=str)
    return os.path.relpath(path, ROOT)


def _classes(violations):
    h = {}
    for (c, i, m, j) in violations:
        k = f"{j.get('finding')}|{(m.get('regions') if isinstance(m, dict) else None)}|{j.get('tag')}"
        h[k] = h.get(k, 0) + 1
    return dict(sorted(h.items(), key=lambda kv: -kv[1])[:40])


def case_size(c):
    return len(json.dumps(c, default=str))


def run_check(plugin, prop, tier, seed, skip_lean=False) -> int:
    t0 = time.time()
    lean = {'proof_broken': [], 'obligations': 0, 'discharged': 0, 'theorems': [], 'checker_cmd': 'skipped', 'translator': {}}
    if not skip_lean:
        lean = lean_stage(prop, tier)
    known = load_known()
    open_ids = {f['id']: f for f in known.get('open', []) if f.get('property') == prop}

    rng = random.Random(seed * 1000003 + 17)
    cases = corpus_cases(prop)
    n_corpus = len(cases)
    linecov = LineCoverage()          # several generators execute their cases while they build them: count from here on
    linecov.start()
    try:
        gen = plugin.cases(rng, tier)
        cases += gen
        all_cases = cases
        t1 = time.time()
        res = judge_all(plugin, cases)
    finally:
        linecov.stop()
    t2 = time.time()
    _STATE[prop] = plugin_state(plugin)

    violations = []      # property failures on the implementation not covered by an open finding
    known_hits = {}
    corr_breaks = []
    for (c, i, m, j) in res:
        if j['pfail']:
            if j['finding'] and j['finding'] in open_ids:
                known_hits.setdefault(j['finding'], []).append((c, i, m, j))
            else:
                violations.append((c, i, m, j))
        if not j['corr']:
            corr_breaks.append((c, i, m, j))

    searched = 0
    if not violations and (corr_breaks or lean['proof_broken']):
        # the property is no longer shown to hold: look for a concrete failing input (DESIGN §5 rule 3)
        extra = []
        if hasattr(plugin, 'search'):
            extra = plugin.search(random.Random(seed + 99991), tier, [c for (c, _, _, _) in corr_breaks[:50]])
        searched = len(extra)
        if extra:
            for (c, i, m, j) in judge_all(plugin, extra):
                if j['pfail'] and not (j['finding'] and j['finding'] in open_ids):
                    violations.append((c, i, m, j))

    # history / twin amplification: whenever the property is no longer shown to hold and no failing input was found yet, and
    # always in the thorough tier (VERIF_AMPLIFY=1 forces it, =0 switches it off)
    amp_stats = None
    amp_on = os.environ.get('VERIF_AMPLIFY', '')
    if not violations and amp_on != '0' and getattr(plugin, 'AMPLIFY', True) and \
            (tier == 'thorough' or corr_breaks or lean['proof_broken'] or amp_on == '1'):
        amp = amplified_run(plugin, prop, tier, res, open_ids, (t2 - t1) / max(len(res), 1))
        amp_stats = amp['stats']
        violations += amp['violations']
        corr_breaks += amp['corr_breaks']

    rc = 0
    lines = []
    nviol = 0
    if violations:
        violations.sort(key=lambda t: case_size(t[0]))
        c, i, m, j = violations[0]
        # prefer a failing case that also fails when it is executed alone in a fresh state (a case whose failure depends on
        # calls made earlier in the run carries them as its own history, or is reproduced by re-running the check with this seed)
        standalone = False
        cands = violations[:3] + [v for v in violations[3:] if v[0].get('x', {}).get('history')][:3]
        before = []
        for k, cand in enumerate(cands):
            if fails_fresh(prop, [], cand[0], cand[3].get('_baseline_impl')):
                c, i, m, j = cand
                standalone = True
                break
        if not standalone:
            # the failure depends on what ran earlier in this process (state kept between calls): find the cases that have to
            # run first, so that the replay file is self-contained (suffix bisection over the cases executed before it)
            pos = {id(x): n for n, x in enumerate(all_cases)}
            for cand in violations[:2]:
                n = pos.get(id(cand[0]))
                if n is None and cand[3].get('_prefix') is None:
                    continue
                # a failure found by the amplified run carries the executions that preceded it in the fresh process
                prefix = cand[3]['_prefix'] if cand[3].get('_prefix') is not None else all_cases[:n]
                found = minimal_history(prop, prefix, cand[0], baseline=cand[3].get('_baseline_impl'))
                if found is not None:
                    c, i, m, j = cand
                    before = found
                    standalone = True
                    break
        if hasattr(plugin, 'shrink'):
            try:
                c, i, m, j = plugin.shrink(c, lambda cs: judge_all(plugin, cs)) or (c, i, m, j)
            except Exception:
                pass
        path = write_replay(prop, seed, 0, {
            'property': prop, 'kind': 'failing-input', 'what': j['pfail'], 'case': c, 'impl': i, 'model': m,
            'finding_class': j.get('finding'), 'n_failing_cases_this_run': len(violations),
            'failure_classes_this_run': _classes(violations),
            'proof_broken': lean['proof_broken'], 'n_correspondence_disagreements': len(corr_breaks),
            'standalone_reproduces': standalone, 'before': before, 'baseline_impl': j.get('_baseline_impl'),
            'plugin_state': _STATE.get(prop), 'amplified_run': amp_stats, 'seed': seed, 'tier': tier,
            'rerun_cmd': f'VERIF_SEED={seed} ./check {prop} --tier {tier}',
            'replay_cmd': f'./check {prop} --replay <this file>'})
        lines.append(f'VIOLATION property={prop} replay={path}')
        nviol = len(violations)
        rc = 1
    elif corr_breaks or lean['proof_broken']:
        corr_breaks.sort(key=lambda t: case_size(t[0]))
        path = write_replay(prop, seed, 0, {
            'property': prop, 'kind': 'no-failing-input-found',
            'what': 'the property is no longer shown to hold: ' + '; '.join(
                ([f"proof obligation broken: {b['what']}" for b in lean['proof_broken']]) +
                ([f'correspondence R_{prop} between model and implementation broken on {len(corr_breaks)} case(s)'] if corr_breaks else [])),
            'proof_broken': lean['proof_broken'],
            'correspondence_disagreements': [{'case': c, 'impl': i, 'model': m, 'why': j.get('why', '')} for (c, i, m, j) in corr_breaks[:10]],
            'extra_cases_searched': searched + len(cases)})
        lines.append(f'VIOLATION property={prop} replay={path} no-failing-input-found')
        nviol = 1
        rc = 1

    for fid, f in open_ids.items():
        hits = known_hits.get(fid, [])
        if hits:
            lines.append(f"KNOWN-FINDING: property={prop} {fid} {f.get('what', '')} ({len(hits)} case(s) this run)")
        else:
            lines.append(f"NOTE: listed finding {fid} did not reproduce in this run")

    # ------------- evidence
    distinct = set()
    tags = {}
    for (c, i, m, j) in res:
        if j['nontrivial']:
            distinct.add(hashlib.sha1(json.dumps(c.get('c', c), sort_keys=True, default=str).encode()).hexdigest())
        tags[j['tag']] = tags.get(j['tag'], 0) + 1
    samples = []
    step = max(1, len(res) // 5)
    for k in range(0, len(res), step):
        c, i, m, j = res[k]
        samples.append({'case': c, 'impl': i, 'model': m})
        if len(samples) >= 5:
            break
    cov = {
        'obligations': max(lean['obligations'], 1), 'discharged': lean['discharged'],
        'checker_cmd': lean['checker_cmd'] or 'n/a', 'trusted_base': TRUSTED_BASE + list(getattr(plugin, 'TRUSTED', [])),
        'theorems': lean['theorems'], 'proof_broken': lean['proof_broken'], 'translator': lean['translator'],
        'evaluations': len(res) + searched, 'distinct_nontrivial': len(distinct),
        'rule': getattr(plugin, 'RULE', ''), 'samples': samples[:5],
        'traces_validated_against_impl': len(res), 'disagreements_checked': len(corr_breaks),
        'corpus_cases': n_corpus, 'tag_histogram': dict(sorted(tags.items(), key=lambda kv: -kv[1])[:60]),
        'known_findings_hit': {k: len(v) for k, v in known_hits.items()},
        'exhaustive': bool(getattr(plugin, 'EXHAUSTIVE', {}).get(tier, False)),
        'lean_wall_s': lean.get('lean_wall_s'), 'impl_and_model_wall_s': round(t2 - t1, 2),
    }
    try:
        cov['impl_line_coverage'] = linecov.report()
    except Exception as e:
        cov['impl_line_coverage'] = {'error': repr(e)}
    if amp_stats is not None:
        cov['amplified_run'] = amp_stats
    if hasattr(plugin, 'extra_coverage'):
        try:
            cov.update(plugin.extra_coverage(res))
        except Exception as e:
            cov['extra_coverage_error'] = repr(e)
    level = 'proof'
    if lean['proof_broken'] or lean['discharged'] < max(lean['obligations'], 1):
        # the proof-level claim is not met on this run (broken obligation / audit): what remains is the differential exploration
        level = 'exploration'
        cov['explanation'] = ('proof obligations of this property did not check on this tree (see proof_broken); the figures below '
                              'describe the correspondence / oracle exploration only')
    ev = {'property_id': prop, 'tier': tier, 'seed': seed, 'level': level, 'coverage': cov,
          'assumptions': list(getattr(plugin, 'ASSUMPTIONS', [])), 'wall_s': round(time.time() - t0, 2), 'violations': nviol}
    # evidence/<ID>.json describes the run on VERIF_REPO; runs against scratch trees (seeded changes) may point VERIF_EVIDENCE_DIR elsewhere
    evdir = os.environ.get('VERIF_EVIDENCE_DIR') or os.path.join(ROOT, 'evidence')
    os.makedirs(evdir, exist_ok=True)
    with open(os.path.join(evdir, f'{prop}.json'), 'w') as f:
        json.dump(ev, f, indent=1, default=str)
    for l in lines:
        print(l)
    print(f'{prop} {tier} seed={seed}: {len(res)} cases ({n_corpus} corpus), {len(corr_breaks)} correspondence disagreements, '
          f'{len(violations)} property failures, {sum(len(v) for v in known_hits.values())} in known findings, '
          f"theorems {lean['discharged']}/{lean['obligations']}, {round(time.time() - t0, 1)} s -> exit {rc}")
    return rc


def replay(plugin, prop, path, quiet=False) -> int:
    # bring the generated part of the model and the driver up to date with /repo's current tree first
    with Lock():
        import extract
        extract.run(REPO, os.path.join(LEAN, 'PedVerif', 'Gen'))
        rc, out = sh(['lake', 'build', 'peddriver'], cwd=LEAN)
        if rc != 0:
            raise RuntimeError('the model driver does not build:\n' + out[-2000:])
    r = json.load(open(path))
    if r.get('plugin_state') is not None and hasattr(plugin, 'import_state'):
        plugin.import_state(r['plugin_state'])
    if r.get('kind') == 'no-failing-input-found':
        print('this replay names a broken proof obligation / correspondence, not a failing input:')
        print(json.dumps(r.get('what'), indent=1))
        cs = [d['case'] for d in r.get('correspondence_disagreements', [])]
        if not cs:
            return 0
    else:
        cs = list(r.get('before') or []) + [r['case']]      # `before`: cases that have to run first in the same process
    bad = 0
    res = judge_all(plugin, cs)
    if r.get('kind') != 'no-failing-input-found':
        res = res[-1:]
    for (c, i, m, j) in res:
        if not quiet:
            print(json.dumps({'case': c, 'impl': i, 'model': m, 'judgement': j}, indent=1, default=str))
        if j['pfail'] or not j['corr']:
            bad += 1
        elif r.get('baseline_impl') is not None and not (getattr(plugin, 'same_outcome', None) or default_same_outcome)(c, r['baseline_impl'], _plain(i)):
            bad += 1      # history dependence: the outcome differs from the one the case produced when it ran first
            if not quiet:
                print('outcome differs from the recorded first execution:', json.dumps(r['baseline_impl'], default=str)[:400])
    print('still reproduces' if bad else 'does not reproduce')
    return 1 if bad else 0
