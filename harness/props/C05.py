"""C05 — keyword-only calling discipline: generated programs (real module files) with @pedantic / @pedantic_class /
@require_kwargs callables of every kind, called with k >= 1 leading declared parameters moved into positional position."""
import _call_common as C
import _call_reentrant as R

RULE = ('generated programs: plain functions, methods decorated directly or through @pedantic_class, static / class methods reached through the '
        'class and through an instance, @staticmethod @pedantic, operator methods (listed and unlisted dunders), @require_kwargs functions and '
        'methods, a pass-through decorator above or below, pedantic imported under an alias, names plain / __x / x__ / _x, needles (*args, '
        '@staticmethod, @name.setter, @pedantic, an e-mail address, **kwargs) in a comment / docstring / string literal, 0-3 parameters with and '
        'without defaults, *args / **kwargs / keyword-only parameters, sync and async; every callable is called keyword-only and with 1, 2 or all '
        'declared parameters positional, all-conforming and with one wrong value; overlapping calls: the call under test is made from the body of a running call of the same or a sibling callable (recursion, the same method of another instance). non-trivial = the call has a positional argument')
EXHAUSTIVE = {'quick': False, 'thorough': False}
ASSUMPTIONS = ['programs are real files (inspect.getsource works)', 'the description of each callable sent to the model is read with the same stdlib introspection the library uses (inspect.signature, getfullargspec, getsource, ismethod)']
TRUSTED = ['CPython inspect / functools.wraps semantics']
FINDINGS = [('receiverNotNamedSelf', 'receiverNotNamedSelf'), ('stripped', 'strippedPositionalIsDeclaredDefaulted'), ('untruthful', 'bodyTextFlipsHeuristics')]


def cases(rng, tier):
    n = 1200 if tier == 'quick' else 10000
    out = C.build_cases(rng, n, calls_per=2, style='pos1', tag='c05a')
    out += C.build_cases(rng, n // 2, calls_per=2, style=None, tag='c05b')
    out += C.build_cases(rng, n // 3, calls_per=2, style='posall', tag='c05c')
    out += C.scenario_cases(rng, n // 6, tag='c05sc') + C.scenario_cases(rng, n // 6, style='pos1', tag='c05sd')
    out += C.receiver_cases(rng, 12 if tier == 'quick' else 48)       # the receiver by keyword / not called `self`
    # the call under test is made while another call of the same / a sibling callable is still running (recursion, re-entrancy)
    out += R.reentrant_cases(rng, n // 4, style='pos1', tag='c05re') + R.reentrant_cases(rng, n // 8, tag='c05rf')
    out += R.wrapsof_cases(rng, n // 10, style='pos1', tag='c05wo')      # a callable that took over the __dict__ of a decorated one (functools.wraps)
    return out


def search(rng, tier, near):
    return C.build_cases(rng, 800, calls_per=3, style='pos1', tag='c05s') + R.reentrant_cases(rng, 400, style='pos1', tag='c05sr')


run_impl = R.run_impl


extra_coverage = C.T.with_trace_coverage()      # observed branch traces of the call layer (_calltrace_common)


def judge(case, impl, model):
    corr, why = C.correspondence(case, impl, model)
    s = model['spec']
    out = C.norm_out(impl['out'])
    pfail = None
    positional = not s['keywordCall']
    if positional and not s['hasVarPos'] and not s['exempt'] and C.twin_accepts(impl):
        if not out.startswith('PED') or impl['ran']:
            pfail = f'positional call not rejected: outcome {impl["out"]}, body ran={bool(impl["ran"])} - {C.describe_case(case)}'
    if s['exempt'] and out == 'PED:CallWithArgs':
        pfail = f'exempt callable rejected with PedanticCallWithArgsException - {C.describe_case(case)}'
    if s['keywordCall'] and out == 'PED:CallWithArgs':
        pfail = f'keyword call (only the implicit self/cls is positional) rejected with PedanticCallWithArgsException - {C.describe_case(case)}'
    finding = C.region_finding(model, FINDINGS) if pfail and corr else None
    return {'corr': corr, 'pfail': pfail, 'finding': finding, 'nontrivial': positional,
            'tag': f"{case['x']['kind']}/{case['x']['access'][0]}/{'pos' if positional else 'kw'}/{out}", 'why': why}


def twins(case):
    """amplified run: primed twins of call-layer cases (one def executed twice with other annotations, number twins: _call_common.twins)"""
    return C.twins(case)


import _checker_common as _K
export_state, import_state = _K.export_state, _K.import_state      # the name table travels with replays / amplified runs


same_outcome = C.same_outcome      # amplified run: `trace` / `world` are diagnostics of sampled executions
