"""C11 — frozen dataclass: immutability, copy_with / deep_copy_with aliasing contract, eq / hash / order as the field tuple.
Differential correspondence between the real decorator (generated dataclass modules, real files) and the Lean model `Frozen`."""
import itertools, json, os, sys, tempfile, shutil, importlib.util, dataclasses, copy
import _frozentrace_common as FT

RULE = ('exhaustive grid: 1..3 fields (4..5 sampled) x {slots, order, kw_only} x class shape {single, decorated subclass, '
        'undecorated subclass, undecorated-of-decorated, decorated-of-undecorated, three decorated levels} x every subset of init fields to replace x '
        '{copy_with, deep_copy_with}; plus every layout of field kinds at every position for <= 2 fields (quick) / <= 3 fields (thorough) '
        'x options x shapes x subsets x methods; elsewhere field kinds {required, default, default_factory, init=False default / factory, compare=False} and '
        'values with nested mutable structure (lists of dicts of lists, sets, frozensets, tuples containing lists, instances of a plain user class '
        '- mutable, hashable by identity, compared by identity - directly and inside tuples / frozensets / lists / dicts (as values and as keys) / sets / each other, '
        'aliased sub-objects, None/int/str) are drawn from the rng; a directed family puts every such hashable-but-mutable value shape into every field '
        'position x options x shapes x subsets x both methods; a third directed family puts values that copy.deepcopy CANNOT duplicate - a threading.Lock, a generator object, an '
        'instance whose __deepcopy__ raises - alone and next to ordinary lists / dicts / sets / objects inside a list / dict (as value and as key) / tuple / set / frozenset / '
        'plain object / frozen instance (depth 1..3) into every field position x options x shapes x every subset of fields to replace (by ordinary or uncopyable keyword objects) x '
        'both methods: deep_copy_with must raise (the TypeError of deepcopy propagates, no instance) or return an instance that shares no mutable object; near misses: unknown keyword, init=False keyword, replacement by the original object / by another '
        "field's object, positional / missing / surplus constructor arguments, invalid class definitions; "
        'values also hold instances of @frozen_dataclass classes (three helper classes defined with the real decorator in every generated module: default options / '
        'slots=True / kw_only=False, and - where the class chain allows it - the class under test itself), nested in each other to depth >= 2, holding lists / dicts / sets / '
        'objects, as field value, inside tuples / lists / dict values, as plain defaults, and (the hashable ones) as dict keys / set and frozenset members; a second directed '
        'family puts every such shape (Z(list), Z(dict), Z(set), Z(Z(list)) over two classes, depth 3 over three classes, (Z(list),), [Z(dict)], {k: Z(set)}, Z(object holding a '
        'list), one instance referenced twice, hashable Z as dict key / in a frozenset / in a set, Z of atoms, an instance of the class under test itself) into every field '
        "position x options x shapes x every subset of fields to replace x both methods; attribute cases: set / del of "
        'every field, of init=False fields, of new names, set-then-del sequences, and of names that are no fields but not new either - the added methods copy_with / '
        'deep_copy_with / validate_types, special method names (__setattr__, __delattr__, __doc__, __eq__, __hash__, __post_init__, __init__), __class__ (value: another class) '
        'and __dict__ - each as set / del / set and del-first sequences and followed by field operations, on every class shape with and without slots; histories: one '
        'original, then copy_with / deep_copy_with calls on it and on earlier copies (every kind of replacement) interleaved with in-place changes (append / add / new key / '
        'overwrite / clear) of the lists / dicts / sets / objects the fields refer to - through the original, through a shallow or deep copy, at the top of a field value and '
        'deep inside it (behind tuples, objects, frozen instances): 7 directed shapes (deep, change the copy, deep again; deep, change the original, deep again; ... three deep '
        'copies in a row) + random ones x options x class shapes x 1..3 fields, every copy judged against the receiver as it is at that moment and against every instance '
        'alive then; comparison cases: equal twin, one field changed at '
        'each position, other class of the hierarchy, unhashable / incomparable values, frozen instances as field values (each comparison first hashes and drops a '
        'short-lived instance of the same class with other field values), `<=` and `>=` included; class statements that dataclasses refuses for the options the decorator hands '
        'over (root class deriving from a NON-frozen @dataclass, order=True next to an own __lt__, slots=True next to an own __slots__) x options x shapes, each followed by the '
        'operations a wrongly returned class would have to withstand; every decoration, constructor call and copy call is also run through the statement programs translated '
        'from the source (Frozen IR) and the statements executed by the real library are compared with the path of the IR interpreter.  non-trivial = copy with a mutable field value, '
        'or any attribute / comparison case')
EXHAUSTIVE = {'quick': True, 'thorough': True}
ASSUMPTIONS = ['field annotations are typing.Any and type_safe validation is observed only as a journal event (the type-checking half is C10)',
               'objects that cannot be deep-copied are opaque: they hold no further values, are hashable and compared by identity, and deepcopy of them raises TypeError '
               '(threading.Lock, generator objects, a class with a raising __deepcopy__); the property demands nothing of a deep_copy_with call that returns no instance '
               'when an init field holds such an object, and the full copy contract of every instance that IS returned',
               'values are built from None / int / str / tuple / list / dict / set / frozenset / instances of one plain user class without __eq__, __hash__, '
               '__slots__, __deepcopy__ / instances of @frozen_dataclass classes (no floats, bools); dict keys and set members are hashable values (atoms, tuples, '
               'frozensets, instances of the plain class, frozen instances whose fields are hashable)',
               'nested frozen-dataclass instances are instances of classes decorated with the decorator under test: three helper classes (1 field default options, 2 fields '
               'slots=True, 2 fields kw_only=False; all fields Any, required, compare=True, order=False), and the class under test itself only when no decorated layer of its '
               'chain has order=True and every field is an init field with compare=True (then the model\'s description of such an instance - compared by class and all fields, '
               'never ordered, built by passing every field - is exact); a frozen instance is not counted as a mutable object itself (object.__setattr__ tricks are out of '
               'scope), everything reachable through its fields is',
               '"equal to the original\'s value" for an un-replaced field of deep_copy_with is read as: the same value up to object identities (same shape, same '
               'classes, equal atoms) - Python\'s == wherever no instance with identity equality is involved (theorem seq_veq_of_noObj), and the only possible reading beyond',
               'user __post_init__ hooks only journal; factories return fresh structural copies of a literal',
               'histories: in-place changes are made to lists / dicts / sets / instances of the plain class that are reachable from an init field without passing through a set, '
               'a frozenset or a dict key; nothing below an init=False field is changed (such a field is recomputed by __init__, so a copy does not carry the change - guard mutSafe '
               'of history_copies_meet_spec; observed on the real library: x.log.append(7) on `log: list = field(default_factory=list, init=False)` is lost by copy_with), no object '
               'is referenced twice inside one field value (deepcopy\'s memo is not modelled), keyword objects are new objects; the driver re-checks all of this per case (histOk)',
               'the value assigned to __class__ is an ordinary class with the layout of a slot-free instance, the value assigned to __dict__ a new empty dict; names that are no '
               'fields on an instance of an undecorated subclass (slot-free hierarchy) are the recorded finding undecoratedSubclassAllowsNewAttributes, whatever the name']
TRUSTED = ['statement traces: sys.monitoring LINE / PY_START events (tool id 3, local to the code objects of cls_deco_frozen_dataclass.py / get_context.py), lines mapped to statements with the table the translator computes from the current source',
           'which class statements dataclasses refuses (Hazard.refused: non-frozen dataclass base under frozen=True, own __lt__ under order=True, own __slots__ under slots=True) is transcribed from CPython 3.12 _process_class / _add_slots and exercised by the correspondence run',
           'object.__setattr__ / object.__delattr__ for the names the generated frozen __setattr__ / __delattr__ let through are transcribed: an ordinary name (also the name of a '
           'method or a special method) is a key of the instance __dict__; __class__ re-classes the object (then nothing is frozen any more), del __class__ is a TypeError; '
           '__dict__ = {} / del __dict__ drop every attribute that is not in a slot.  That the generated methods are the ones in force is the translator fact attrProtocolHooks = [] '
           '(lemma cfg_no_attr_hooks); with a hook the model reads every assignment as reaching object.__setattr__ and the immutability theorems no longer check',
           'a history step applies a copy method to the current value of the receiver and nothing else: translator fact copyHelpersStateless (no function reachable from the copy '
           'methods has a mutable default argument, a global / nonlocal statement, a read of a shared mutable or a store outside its locals; lemma cfg_copy_helpers_stateless); an '
           'in-place change is applied by identity to every live instance (validated by the per-step "which field of which instance changed" facts)',
           'copy.deepcopy of an instance of a frozen dataclass is modelled as "a new instance of the same class whose fields are deep copies" (object.__reduce_ex__ / '
           'copyreg.__newobj__ / copy._reconstruct, with the __getstate__ / __setstate__ that dataclasses adds under slots=True) as long as the translator finds no copy-protocol '
           'special method (__deepcopy__, __copy__, __reduce__, __reduce_ex__, __getstate__, __setstate__, __getnewargs__, __getnewargs_ex__, __replace__) installed by the '
           'decorator (generated fact copyProtocolHooks = [], lemma cfg_no_copy_hooks); with such a hook the model reads deepcopy as returning the instance itself, the heap '
           'theorems no longer check, and the directed family looks for the concrete shared object',
           'copy.deepcopy is modelled without its memo: aliasing *inside* one field value is not claimed to be preserved, only that the copy is structurally equal and shares no mutable node with the original',
           'CPython dataclasses (_process_class, _init_fn, _frozen_get_del_attr, _cmp_fn, _hash_add, _add_slots, replace) are transcribed into the model and exercised by this correspondence check, not verified',
           '"original unchanged" holds in the functional model because the copy paths only read the receiver; the translator checks that the method bodies contain no write to self, and the correspondence check compares identities and deep snapshots of the original before / after']

FINDING = 'undecoratedSubclassAllowsNewAttributes'
# deep_copy_with and an init=False field with a plain default: the generated __init__ hands the ONE default object to every instance, so the "deep" copy
# holds the very object the original holds (and whatever mutable it contains).  The proved contract (Spec: specExpect -> equalOnly) does not demand more
# of such a field; the property text ("shares no mutable field object") read literally does: region `specSharedDefaultFields`, witness
# `deep_copy_shares_initFalse_default` (Props/C11.lean).
FINDING_SHARED_DEFAULT = 'deepCopySharesInitFalseDefault'
# The property text says "reject": any exception counts.  With slots=True a name that is not a field is rejected with TypeError
# (not FrozenInstanceError) — modelled (theorem frozen_error_class), counted in the evidence (`rejections_by_exception`), and
# turned into a property failure with this finding id only if the strict reading of appendix E is switched on.
STRICT_EXCEPTION_CLASS = False
FINDING_CLASS = 'slotsNewAttributeRaisesTypeError'
NEW = 100        # names >= NEW are not fields: "zzz<n>", or one of the special names below
# names that are not fields but mean something to the class or to `object`: the methods the decorator adds, special method names, and the two
# data descriptors of `object` (__class__: assigning re-classes the object; __dict__: assigning / deleting replaces all instance attributes)
SPECIAL = {200: 'copy_with', 201: 'deep_copy_with', 202: 'validate_types', 203: '__setattr__', 204: '__delattr__', 205: '__doc__',
           206: '__eq__', 207: '__hash__', 208: '__post_init__', 209: '__init__', 210: '__class__', 211: '__dict__'}
NAME_CLASS, NAME_DICT = 210, 211

# ------------------------------------------------------------------ values (JSON terms with identities)


# value terms: ['a'] None | ['i', n] | ['s', [code points]] | ['t'|'l'|'d'|'e'|'f'|'o', id, [items]] tuple / list / dict (flattened
# k0, v0, k1, v1, …) / set / frozenset / instance of the plain class | ['z', id, [items], cid] instance of the @frozen_dataclass class
# `cid` with the field values `items` in field order: cid 10..12 = helper classes Z10..Z12 defined in every generated module,
# cid 0..4 = the class under test itself (head class K<cid> of the case).  Every helper keeps what follows the items (j[3:]).
# ['u', id, [], variant] an object that copy.deepcopy cannot duplicate: variant 0 = threading.Lock(), 1 = a generator object, 2 = an instance
# of a class whose __deepcopy__ raises TypeError; opaque (no items), hashable and compared by identity, not counted as a mutable object.

ZHELP = {10: ('Z10', 1), 11: ('Z11', 2), 12: ('Z12', 2)}      # cid -> (class name, number of fields g0, g1, …)
ZSOURCE = ['@frozen_dataclass', 'class Z10:', '    g0: Any', '',
           '@frozen_dataclass(slots=True)', 'class Z11:', '    g0: Any', '    g1: Any', '',
           '@frozen_dataclass(kw_only=False)', 'class Z12:', '    g0: Any', '    g1: Any', '']


# the decorations the fixed part of every generated module performs (ZSOURCE), for the statement-level model (Drv/FrozenIR.lean: decoOne):
# [type_safe, order, kw_only, slots, decorator applied directly (`@frozen_dataclass`), shortcut (`@frozen_type_safe_dataclass`), dataclass() raises]
ZDECO = [[False, False, True, False, True, False, False], [False, False, True, True, False, False, False],
         [False, False, False, False, False, False, False]]


def strip_ids(j):
    t = j[0]
    if t in 'ais':
        return j
    return [t, [strip_ids(x) for x in j[2]]] + j[3:]


def vkey(j):
    return json.dumps(strip_ids(j), sort_keys=True)


class Vals:
    """generator of value terms; every tuple / list / dict / set gets a fresh identity; earlier mutable nodes may be re-used (aliasing)"""

    def __init__(self, rng, start, zself=None, alias=True):
        # zself = (cid, number of fields) when instances of the class under test itself may be nested in values (see zself_of)
        # alias = False: no node is referenced twice (histories: deepcopy's memo, which keeps such references together, is not modelled)
        self.r, self.n, self.pool, self.opool, self.zpool, self.zself, self.alias = rng, start, [], [], [], zself, alias

    def fresh(self):
        self.n += 1
        return self.n

    def atom(self):
        r = self.r
        k = r.randrange(6)
        if k == 0:
            return ['a']
        if k <= 3:
            return ['i', r.choice([0, 1, 2, 3, 7, -1, 300, 10 ** 20])]
        return ['s', [ord(ch) for ch in r.choice(['', 'a', 'b', 'ab', 'ba', 'z'])]]

    def obj(self, depth=1):
        """instance of the plain user class: attributes a0, a1, … hold arbitrary values; hashable (identity) and mutable"""
        r = self.r
        if self.alias and self.opool and r.random() < 0.1:
            return r.choice(self.opool)
        v = ['o', self.fresh(), [self.value(depth - 1) for _ in range(r.randint(0, 2))]]
        self.opool.append(v)
        return v

    def frozen(self, depth, gen, allow_self=True, reuse=False):
        """instance of a @frozen_dataclass class (a helper class, now and then the class under test itself) whose field values come
        from `gen(depth)`: hashable iff all of them are; never mutable itself, whatever it holds"""
        r = self.r
        if self.alias and reuse and self.zpool and r.random() < 0.12:
            return r.choice(self.zpool)
        if allow_self and self.zself and r.random() < 0.25:
            cid, ar = self.zself
        else:
            cid = r.choice(sorted(ZHELP))
            ar = ZHELP[cid][1]
        ident = self.fresh()
        v = ['z', ident, [gen(depth - 1) if (i < 2 or r.random() < 0.3) else self.atom() for i in range(ar)], cid]
        if reuse:
            self.zpool.append(v)
        return v

    def hashable(self, depth=1):
        k = self.r.random()
        if depth <= 0 or k < 0.50:
            return self.atom()
        if k < 0.68:
            return self.obj(depth)
        if k < 0.78:
            return ['f', self.fresh(), self.uniq([self.hashable(depth - 1) for _ in range(self.r.randint(0, 3))])]
        if k < 0.88:
            return self.frozen(depth, self.hashable)
        return ['t', self.fresh(), [self.hashable(depth - 1) for _ in range(self.r.randint(1, 3))]]

    def uniq(self, items):
        seen, out = set(), []
        for x in items:
            k = vkey(x)
            if k not in seen:
                seen.add(k)
                out.append(x)
        return sorted(out, key=vkey)

    def mutable(self, depth):
        r = self.r
        if self.alias and self.pool and r.random() < 0.12:
            return r.choice(self.pool)
        k = r.randrange(3)
        if k == 0:
            v = ['l', self.fresh(), [self.value(depth - 1) for _ in range(r.randint(0, 3))]]
        elif k == 1:
            keys = self.uniq([self.atom() if r.random() < 0.8 else self.hashable(1) for _ in range(r.randint(0, 3))])
            items = []
            for kk in keys:
                items += [kk, self.value(depth - 1)]
            v = ['d', self.fresh(), items]
        else:
            v = ['e', self.fresh(), self.uniq([self.hashable(1) for _ in range(r.randint(0, 3))])]
        self.pool.append(v)
        return v

    def value(self, depth=3):
        r = self.r
        if depth <= 0:
            return self.atom()
        k = r.random()
        if k < 0.20:
            return self.atom()
        if k < 0.33:
            return ['t', self.fresh(), [self.value(depth - 1) for _ in range(r.randint(1, 3))]]
        if k < 0.45:
            return self.obj(depth)
        if k < 0.52:
            return ['f', self.fresh(), self.uniq([self.hashable(depth - 1) for _ in range(r.randint(0, 3))])]
        if k < 0.66:
            return self.frozen(depth, self.value, reuse=True)
        return self.mutable(depth)

    def immutable_default(self):
        """a plain default must be hashable-by-class: atom, tuple (which may contain a list), frozenset, an instance of the plain class or
        an instance of a frozen helper class (accepted by `dataclasses` whatever its fields hold — also a list: the *class* has a `__hash__`;
        never the class under test itself, which does not exist yet when its defaults are evaluated)"""
        r = self.r
        k = r.random()
        if k < 0.45:
            return self.atom()
        if k < 0.58:
            return ['o', self.fresh(), [self.value(1) for _ in range(r.randint(0, 2))]]
        if k < 0.65:
            return ['f', self.fresh(), self.uniq([self.hashable(1) for _ in range(r.randint(0, 2))])]
        if k < 0.80:
            return self.frozen(2, self.value, allow_self=False)
        return ['t', self.fresh(), [self.value(1) for _ in range(r.randint(1, 2))]]

    def template(self, depth=2):
        """factory literal: lists / dicts / sets of atoms (no tuples: a literal tuple of constants is a shared constant)"""
        r = self.r
        if depth <= 0:
            return self.atom()
        k = r.randrange(4)
        if k == 3:
            k = r.randrange(3)
            if r.random() < 0.6:
                return ['o', self.fresh(), [self.template(depth - 1) if r.random() < 0.4 else self.atom() for _ in range(r.randint(0, 2))]]
        if k == 0:
            return ['l', self.fresh(), [self.template(depth - 1) if r.random() < 0.4 else self.atom() for _ in range(r.randint(0, 3))]]
        if k == 1:
            items = []
            for kk in self.uniq([self.atom() for _ in range(r.randint(0, 2))]):
                items += [kk, self.template(depth - 1) if r.random() < 0.4 else self.atom()]
            return ['d', self.fresh(), items]
        return ['e', self.fresh(), self.uniq([self.atom() for _ in range(r.randint(0, 3))])]

    def reid(self, j):
        """structurally equal term with fresh identities"""
        if j[0] in 'ais':
            return j
        return [j[0], self.fresh(), [self.reid(x) for x in j[2]]] + j[3:]

    def comparable(self, depth=2, hashable=False):
        """values on which `<` is mostly defined: ints / strs / lists / tuples of them (hashable: no list / set)"""
        r = self.r
        k = r.random()
        if depth <= 0 or k < 0.5:
            return ['i', r.choice([0, 1, 2, 3])] if r.random() < 0.75 else ['s', [ord(c) for c in r.choice(['a', 'b', 'ab'])]]
        if k < 0.55:
            if r.random() < 0.3:        # frozen instances: equal iff same class and equal fields, never ordered (order=False)
                return ['z', self.fresh(), [['i', r.choice([0, 1])]], 10] if r.random() < 0.6 else \
                    ['z', self.fresh(), [['i', r.choice([0, 1])], ['i', 0]], r.choice([11, 12])]
            return ['o', self.fresh(), [['i', r.choice([0, 1])]]] if r.random() < 0.6 else \
                ['f', self.fresh(), self.uniq([['i', r.choice([0, 1, 2])] for _ in range(r.randint(0, 3))])]
        if k < 0.75 or hashable:
            return ['t', self.fresh(), [self.comparable(depth - 1, hashable) for _ in range(r.randint(1, 3))]]
        if k < 0.92:
            return ['l', self.fresh(), [self.comparable(depth - 1) for _ in range(r.randint(0, 3))]]
        if k < 0.97:
            return ['e', self.fresh(), self.uniq([['i', r.choice([0, 1, 2])] for _ in range(r.randint(0, 3))])]
        return ['a']

    def mutate(self, j):
        """a value of the same family that is usually different (and usually comparable with the old one)"""
        r = self.r
        t = j[0]
        if t == 'a':
            return r.choice([['a'], ['i', 0]])
        if t == 'i':
            return ['i', j[1] + r.choice([-1, 1, 1, 2])] if r.random() < 0.9 else ['s', [97]]
        if t == 's':
            return ['s', r.choice([j[1] + [97], j[1][:-1], [98] + j[1]])]
        items = [self.reid(x) for x in j[2]]
        if t == 'z':                    # the number of fields is fixed by the class: change one of them, or the class
            if j[3] in (11, 12) and r.random() < 0.15:
                return ['z', self.fresh(), items, 23 - j[3]]
            i = r.randrange(len(items))
            items[i] = self.mutate(items[i])
            return ['z', self.fresh(), items, j[3]]
        if t == 'd':
            if len(items) >= 2 and r.random() < 0.7:
                items[1] = self.mutate(items[1])
            else:
                keys = {vkey(x) for x in items[0::2]}
                nk = ['i', 99]
                if vkey(nk) not in keys:
                    pairs = sorted([(items[i], items[i + 1]) for i in range(0, len(items), 2)] + [(nk, ['i', 1])], key=lambda p: vkey(p[0]))
                    items = [x for p in pairs for x in p]
            return ['d', self.fresh(), items]
        if t in 'ef':
            k = r.random()
            if items and k < 0.4:
                items = items[:-1]
            else:
                items = self.uniq(items + [['i', r.choice([5, 6, 7])]])
            return [t, self.fresh(), items]
        k = r.random()
        if items and k < 0.5:
            i = r.randrange(len(items))
            items[i] = self.mutate(items[i])
        elif items and k < 0.7 and len(items) > 1:
            items = items[:-1]
        else:
            items = items + [['i', r.choice([0, 1, 2])]]
        return [t, self.fresh(), items]


def build(j, memo):
    t = j[0]
    if t == 'a':
        return None
    if t == 'i':
        return j[1]
    if t == 's':
        return ''.join(chr(c) for c in j[1])
    if j[1] in memo:
        return memo[j[1]]
    items = [build(x, memo) for x in j[2]]
    if t == 't':
        v = tuple(items)
    elif t == 'l':
        v = items
    elif t == 'd':
        v = dict(zip(items[0::2], items[1::2]))
    elif t == 'f':
        v = frozenset(items)
    elif t == 'o':
        v = Plain()
        for i, x in enumerate(items):
            setattr(v, f'a{i}', x)
    elif t == 'z':
        v = make_frozen(j[3], items, memo)
    elif t == 'u':
        v = make_uncopyable(j[3])
        _UNC[id(v)] = (j[1], v)
    else:
        v = set(items)
    memo[j[1]] = v
    return v


class NoDeep:
    """an object that refuses to be deep-copied"""

    def __deepcopy__(self, memo):
        raise TypeError('NoDeep objects cannot be deep-copied')


def _a_generator():
    yield 1


_UNC = {}        # id(object) -> (identity in the case, the object): uncopyable objects are told apart by identity, like the model's `Atom.unc id`


def make_uncopyable(variant):
    import threading
    if variant == 0:
        return threading.Lock()
    if variant == 1:
        return _a_generator()
    return NoDeep()


def unc_identity(v):
    """the case identity of an uncopyable object (None for anything else)"""
    e = _UNC.get(id(v))
    return e[0] if e is not None and e[1] is v else None


def make_frozen(cid, items, memo):
    """a real instance of a @frozen_dataclass class of the generated module the case runs in (`memo['__mod__']`)"""
    mod = memo['__mod__']
    if cid in ZHELP:
        k = getattr(mod, ZHELP[cid][0])
        if cid == 12:
            return k(*items)                                            # kw_only=False: positionally
        return k(**{f'g{i}': x for i, x in enumerate(items)})
    names = [fname(n) for (n, f, kwo) in resolved(memo['__cls__'])]      # the class under test: every field is an init field
    assert len(names) == len(items) and cid == memo['__cls__'][0]['cid']
    return getattr(mod, f'K{cid}')(**dict(zip(names, items)))


def is_frozen_inst(v):
    return dataclasses.is_dataclass(v) and not isinstance(v, type)


def frozen_items(v):
    """what an instance of a frozen dataclass holds: its field values in field order, then any other instance attribute"""
    names, out = set(), []
    for f in dataclasses.fields(v):
        names.add(f.name)
        x = getattr(v, f.name, _UNSET)
        if x is not _UNSET:
            out.append(x)
    for k, x in (getattr(v, '__dict__', None) or {}).items():
        if k not in names:
            out.append(x)
    return out


class Plain:
    """an ordinary user class: no __eq__ / __hash__ / __slots__ / __deepcopy__ — its instances are mutable, hashable by identity and
    compared by identity; copy.deepcopy rebuilds them with a deep copy of their __dict__"""


def plain_items(v):
    return [x for _, x in sorted(vars(v).items(), key=lambda kv: int(kv[0][1:]))]


def max_id(j):
    if j[0] in 'ais':
        return 0
    return max([j[1]] + [max_id(x) for x in j[2]])


# ------------------------------------------------------------------ class descriptions

KINDS = ['req', 'dv', 'df', 'nv', 'nf']


def mk_field(v, n, kind, cmp=True):
    d = {'req': ['none'], 'dv': ['value', None], 'df': ['factory', None], 'nv': ['value', None], 'nf': ['factory', None]}[kind]
    if d[0] == 'value':
        d = ['value', v.immutable_default()]
    elif d[0] == 'factory':
        d = ['factory', v.template()]
    return {'n': n, 'd': d, 'init': kind in ('req', 'dv', 'df'), 'cmp': cmp}


def mk_layer(cid, dec=True, ts=False, order=False, kw=True, slots=False, post=False, own=()):
    return {'cid': cid, 'dec': dec, 'ts': ts, 'order': order, 'kw': kw, 'slots': slots, 'post': post, 'own': list(own)}


def resolved(cls):
    """mirror of fieldsOf, used only to build inputs: [(name, fielddesc, kw_only)] base first"""
    out = []
    for l in reversed(cls):
        if not l['dec']:
            continue
        for f in l['own']:
            e = (f['n'], f, l['kw'])
            idx = [i for i, x in enumerate(out) if x[0] == f['n']]
            if idx:
                out[idx[0]] = e
            else:
                out.append(e)
    return out


def zself_of(cls):
    """(cid, number of fields) if instances of the class under test itself may be nested in field values: the model describes such an
    instance as a `Kind.fz` node — compared by (class, all fields), never ordered, built by passing every field — which is right iff no
    decorated layer has order=True and every field is an init field with compare=True"""
    fs = resolved(cls)
    if not fs or any(l['dec'] and l['order'] for l in cls):
        return None
    if any((not f['init']) or (not f['cmp']) for (_, f, _) in fs):
        return None
    return (cls[0]['cid'], len(fs))


SHAPES = ['single', 'decosub', 'plainsub', 'plain_of_deco', 'deco_of_plain', 'deco_of_deco']


def mk_class(rng, v, nf, kinds, opts, shape, sub_opts=None, ts=False, post=False, cmp_false=None, override=False):
    """class chain (most derived first) with `nf` fields of the given kinds distributed over the decorated layers"""
    slots, order, kw = opts
    so = sub_opts or opts
    fields = [mk_field(v, i, k, cmp=(cmp_false != i)) for i, k in enumerate(kinds)]
    if not kw:
        # keep most definitions valid: required positional fields first
        fields.sort(key=lambda f: (f['init'] and f['d'][0] != 'none'))
    if shape in ('single', 'plainsub'):
        base = mk_layer(0, True, ts, order, kw, slots, post, fields)
        return [base] if shape == 'single' else [mk_layer(1, False), base]
    cut = rng.randint(1, nf) if nf > 1 else 1
    base = mk_layer(0, True, ts, order, kw, slots, post, fields[:cut])
    own = fields[cut:]
    if override and fields[:cut]:
        o = rng.choice(fields[:cut])
        own = own + [dict(mk_field(v, o['n'], rng.choice(['dv', 'df'])), cmp=o['cmp'])]
    sub = mk_layer(2, True, ts and rng.random() < 0.5, so[1], so[2], so[0], post and rng.random() < 0.5, own)
    if shape == 'decosub':
        return [sub, base]
    if shape == 'plain_of_deco':
        return [mk_layer(3, False), sub, base]
    if shape == 'deco_of_deco':
        own3 = []
        if fields and rng.random() < 0.5:
            o = rng.choice(fields)
            own3 = [dict(mk_field(v, o['n'], rng.choice(['dv', 'df'])), cmp=o['cmp'])]
        o3 = rng.choice(OPTS)
        if any((not f['init']) and f['d'][0] == 'value' for f in fields):
            o3 = (slots, o3[1], o3[2])
        return [mk_layer(4, True, False, o3[1], o3[2], o3[0], False, own3), sub, base]
    return [sub, mk_layer(1, False), base]          # deco_of_plain


def ctor_for(rng, v, cls, npos=0, omit_defaults=True, comparable=False, hashable=False):
    """constructor arguments: the first `npos` positional-capable init fields positionally, the others by keyword;
    defaulted fields are sometimes omitted"""
    fs = [(n, f, kwo) for (n, f, kwo) in resolved(cls) if f['init']]
    std = [x for x in fs if not x[2]]
    pos, kw = [], []
    gen = (lambda: v.comparable(2, hashable)) if comparable else ((lambda: v.hashable(2)) if hashable else (lambda: v.value(3)))
    posnames = [x[0] for x in std[:npos]]
    for (n, f, kwo) in std[:npos]:
        pos.append(gen())
    for (n, f, kwo) in fs:
        if n in posnames:
            continue
        if f['d'][0] != 'none' and omit_defaults and rng.random() < 0.4:
            continue
        kw.append([n, gen()])
    return {'pos': pos, 'kw': kw}


def finish(cls, ctor, op, v, tag):
    return {'m': 'frozen', 'c': {'cls': cls, 'next': v.n + 1, 'ctor': ctor, 'op': op, 'zdeco': ZDECO}, 'x': {'tag': tag}}


# ------------------------------------------------------------------ case generation

def copy_cases(rng, v0, cls, shape_tag, all_subsets=True, extra_near=True):
    """one instance x every subset of init fields to replace x both methods (+ near misses)"""
    out = []
    fs = resolved(cls)
    init = [n for (n, f, k) in fs if f['init']]
    noninit = [n for (n, f, k) in fs if not f['init']]
    subsets = []
    for k in range(len(init) + 1):
        subsets += list(itertools.combinations(init, k))
    if not all_subsets and len(subsets) > 6:
        subsets = [subsets[0], subsets[-1]] + rng.sample(subsets[1:-1], 4)
    base_n = v0.n
    for sub in subsets:
        for deep in (False, True):
            v = Vals(rng, base_n, zself_of(cls))
            ctor = ctor_for(rng, v, cls)
            kw = [[n, v.value(3)] for n in sub]
            out.append(finish(cls, ctor, ['copy', deep, kw], v, f'copy/{shape_tag}'))
    if extra_near:
        for deep in (False, True):
            # unknown keyword / init=False keyword / both
            for names in ([NEW], noninit[:1], noninit[:1] + [NEW], init[:1] + [NEW]):
                if not names:
                    continue
                v = Vals(rng, base_n, zself_of(cls))
                ctor = ctor_for(rng, v, cls)
                out.append(finish(cls, ctor, ['copy', deep, [[n, v.value(2)] for n in names]], v, f'copy-badkw/{shape_tag}'))
            # replacement by the original's own object, or by another field's object (aliasing through kw)
            v = Vals(rng, base_n, zself_of(cls))
            ctor = ctor_for(rng, v, cls, omit_defaults=False)
            given = ctor['kw']
            if given:
                a = rng.choice(given)
                b = rng.choice(given)
                out.append(finish(cls, ctor, ['copy', deep, [[a[0], b[1]]]], v, f'copy-alias/{shape_tag}'))
                out.append(finish(cls, ctor, ['copy', deep, [[a[0], v.reid(a[1])]]], v, f'copy-equal-twin/{shape_tag}'))
    return out


def ctor_near_cases(rng, v0, cls, shape_tag):
    out = []
    fs = [(n, f, k) for (n, f, k) in resolved(cls) if f['init']]
    std = [x for x in fs if not x[2]]
    base_n = v0.n
    for npos in sorted({0, 1, len(std), len(std) + 1}):
        v = Vals(rng, base_n, zself_of(cls))
        ctor = ctor_for(rng, v, cls, npos=min(npos, len(std)))
        if npos > len(std):
            ctor['pos'].append(v.atom())           # one positional too many
        out.append(finish(cls, ctor, ['copy', bool(npos % 2), []], v, f'ctor-pos{npos}/{shape_tag}'))
    if fs:
        v = Vals(rng, base_n, zself_of(cls))
        ctor = ctor_for(rng, v, cls, omit_defaults=False)
        drop = rng.choice(fs)[0]
        ctor['kw'] = [p for p in ctor['kw'] if p[0] != drop]     # missing argument (an error iff it has no default)
        out.append(finish(cls, ctor, ['copy', True, []], v, f'ctor-missing/{shape_tag}'))
        v = Vals(rng, base_n, zself_of(cls))
        ctor = ctor_for(rng, v, cls)
        ctor['kw'].append([NEW + 1, v.atom()])                   # unexpected keyword
        out.append(finish(cls, ctor, ['copy', False, []], v, f'ctor-unexpected/{shape_tag}'))
        if std:
            v = Vals(rng, base_n, zself_of(cls))
            ctor = ctor_for(rng, v, cls, npos=1, omit_defaults=False)
            ctor['kw'].append([std[0][0], v.atom()])             # multiple values for an argument
            out.append(finish(cls, ctor, ['copy', False, []], v, f'ctor-dup/{shape_tag}'))
    return out


def attr_cases(rng, v0, cls, shape_tag):
    out = []
    fs = resolved(cls)
    base_n = v0.n
    seqs = []
    for (n, f, k) in fs:
        seqs.append([['set', n], ['del', n]])
        seqs.append([['del', n], ['set', n]])
    seqs += [[['set', NEW]], [['del', NEW]], [['set', NEW], ['del', NEW]], [['set', NEW], ['set', NEW], ['del', NEW], ['del', NEW]],
             [['set', NEW], ['set', NEW + 1], ['del', NEW + 1], ['set', fs[0][0] if fs else NEW]]]
    # names that are no fields but are not new either: added methods, special methods, __class__ (value: another class), __dict__
    f0 = fs[0][0] if fs else NEW
    sp = sorted(SPECIAL)
    for n in sp:
        seqs.append([['set', n], ['del', n], ['set', n]])
    k0 = rng.randrange(len(sp))
    for n in [sp[(k0 + 3 * i) % len(sp)] for i in range(4)]:
        seqs.append([['del', n], ['set', n], ['del', n], ['del', n]])
    seqs += [[['set', NAME_CLASS], ['set', f0], ['del', f0], ['del', f0], ['set', NEW]],       # once re-classed nothing is frozen any more
             [['set', NAME_DICT], ['del', f0], ['set', NEW], ['set', f0]],
             [['del', NAME_DICT], ['set', 200], ['del', 200], ['del', f0]],
             [['set', 200], ['set', NAME_CLASS], ['del', 200], ['set', NAME_DICT], ['del', NAME_CLASS]]]
    for s in seqs:
        v = Vals(rng, base_n, zself_of(cls))
        ctor = ctor_for(rng, v, cls)
        ops = [[o[0], o[1], v.value(2)] if o[0] == 'set' else o for o in s]
        out.append(finish(cls, ctor, ['attr', ops], v, f'attr/{shape_tag}'))
    return out


def cmp_cases(rng, v0, cls, shape_tag, comparable):
    out = []
    fs = [(n, f, k) for (n, f, k) in resolved(cls) if f['init']]
    base_n = v0.n

    def twin(v, ctor, drop, change=None):
        ok = {n for (n, f, k) in resolved(cls[drop:]) if f['init']}
        # now and then the twin holds the very same objects (instances with identity equality are equal only then)
        re = (lambda x: x) if rng.random() < 0.3 else v.reid
        c2 = {'pos': [re(x) for x in ctor['pos']] if drop == 0 else [],
              'kw': [[n, (v.mutate(x) if n == change else re(x))] for n, x in ctor['kw'] if n in ok]}
        if drop != 0:
            std = [n for (n, f, k) in resolved(cls) if f['init'] and not k]
            c2['kw'] += [[n, re(x)] for n, x in zip(std, ctor['pos']) if n in ok]
        return c2
    variants = [None] + [n for (n, f, k) in fs]
    for ch in variants:
        for drop in range(len(cls)):
            if drop and rng.random() < 0.6:
                continue
            v = Vals(rng, base_n, zself_of(cls))
            ctor = ctor_for(rng, v, cls, npos=rng.choice([0, 0, 1]), omit_defaults=False, comparable=comparable, hashable=rng.random() < 0.4)
            out.append(finish(cls, ctor, ['cmp', drop, twin(v, ctor, drop, ch)], v,
                              f"cmp{'-ord' if comparable else ''}/{shape_tag}"))
    # twin built with defaults on both sides (factories produce equal values, plain defaults the same object)
    v = Vals(rng, base_n, zself_of(cls))
    ctor = ctor_for(rng, v, cls, comparable=comparable, hashable=rng.random() < 0.4)
    out.append(finish(cls, ctor, ['cmp', 0, twin(v, ctor, 0)], v, f'cmp-defaults/{shape_tag}'))
    return out


OPTS = list(itertools.product([False, True], repeat=3))     # (slots, order, kw_only)


def grid(rng, nfs, shapes, per_cell, full=False):
    """options x shapes x field counts; per cell: a class with rotating / random field kinds, all copy subsets, and
    (for the first repetition, or always when `full`) the attribute, comparison and constructor near-miss cases"""
    out = []
    k = 0
    for nf in nfs:
        for opts in OPTS:
            for shape in shapes:
                for rep in range(per_cell):
                    k += 1
                    v = Vals(rng, 0)
                    # field kinds: rotate so that every kind appears at every position across the grid
                    kinds = [KINDS[(k + 2 * i + rep) % 5] if rng.random() < 0.7 else rng.choice(KINDS) for i in range(nf)]
                    if all(x in ('nv', 'nf') for x in kinds):
                        kinds[rng.randrange(nf)] = 'req'
                    sub_opts = opts if rng.random() < 0.6 else rng.choice(OPTS)
                    # an init=False plain default under mixed slots is outside the modelled class shapes
                    if 'nv' in kinds and sub_opts[0] != opts[0]:
                        sub_opts = (opts[0], sub_opts[1], sub_opts[2])
                    cmp_false = rng.randrange(nf) if rng.random() < 0.15 else None
                    cls = mk_class(rng, v, nf, kinds, opts, shape, sub_opts, ts=rng.random() < 0.2, post=rng.random() < 0.3,
                                   cmp_false=cmp_false, override=rng.random() < 0.2)
                    st = f"{shape}/s{int(opts[0])}o{int(opts[1])}k{int(opts[2])}"
                    out += copy_cases(rng, v, cls, st, all_subsets=(nf <= 3), extra_near=(rep == 0 or full))
                    if rep == 0 or full:
                        out += attr_cases(rng, v, cls, st)
                        out += cmp_cases(rng, v, cls, st, comparable=False)
                        out += cmp_cases(rng, v, cls, st, comparable=True)
                        out += ctor_near_cases(rng, v, cls, st)
    return out


def kinds_grid(rng, nfs, shapes):
    """every layout of field kinds (required / default / factory / init=False default / init=False factory) at every position
    x options x shapes x every subset of init fields x both copy methods"""
    out = []
    for nf in nfs:
        for kinds in itertools.product(KINDS, repeat=nf):
            for opts in OPTS:
                for shape in shapes:
                    v = Vals(rng, 0)
                    cls = mk_class(rng, v, nf, list(kinds), opts, shape, opts)
                    st = f"{shape}/s{int(opts[0])}o{int(opts[1])}k{int(opts[2])}"
                    out += copy_cases(rng, v, cls, 'K' + st, all_subsets=True, extra_near=False)
    return out


def hashmut_values(v):
    """every shape of a hashable-but-mutable value: an instance of the plain class directly, inside a tuple / frozenset (hashable all the way
    down), inside a list / dict (as value and as key) / set, inside another instance, aliased twice, next to plain immutable data"""
    def o(*items):
        return ['o', v.fresh(), list(items)]
    one = ['i', 1]
    shared = o(one, ['l', v.fresh(), []])
    return [o(one),
            o(['l', v.fresh(), [one]], ['s', [97]]),
            ['t', v.fresh(), [o(one), o(['i', 2])]],
            ['t', v.fresh(), [one, ['t', v.fresh(), [o()]]]],
            ['f', v.fresh(), [o(one)]],
            ['f', v.fresh(), [['t', v.fresh(), [one, o(one)]]]],
            ['l', v.fresh(), [o(one), one]],
            ['d', v.fresh(), [['s', [107]], o(one)]],
            ['d', v.fresh(), [o(one), ['l', v.fresh(), []]]],
            ['e', v.fresh(), [o(one)]],
            o(o(o())),
            ['t', v.fresh(), [shared, shared]],
            ['t', v.fresh(), [one, ['s', [97]]]],
            ['f', v.fresh(), [one]]]


def hashmut_cases(rng, shapes, opts_list):
    """directed: hashable-but-mutable values in every field position x options x shapes x every subset of fields to replace x both methods"""
    out = []
    k = 0
    for opts in opts_list:
        for shape in shapes:
            for nf in (1, 2, 3):
                v = Vals(rng, 0)
                cls = mk_class(rng, v, nf, ['req'] * nf, opts, shape, opts)
                st = f"{shape}/s{int(opts[0])}o{int(opts[1])}k{int(opts[2])}"
                names = [n for (n, f, kwo) in resolved(cls) if f['init']]
                subsets = []
                for m in range(len(names) + 1):
                    subsets += list(itertools.combinations(names, m))
                base_n = v.n
                for sub in subsets:
                    for deep in (False, True):
                        v = Vals(rng, base_n)
                        fam = hashmut_values(v)
                        ctor = {'pos': [], 'kw': [[n, fam[(k + 5 * i) % len(fam)]] for i, n in enumerate(names)]}
                        k += 1
                        kw = [[n, rng.choice(hashmut_values(v))] for n in sub]
                        out.append(finish(cls, ctor, ['copy', deep, kw], v, f'copy-hashmut/{st}'))
    return out


def frozen_nested_values(v, zself=None):
    """every shape of a value that holds an instance of a @frozen_dataclass class: the instance holding a list / dict / set / an object with
    a list, instances of different classes inside each other (depth 2 and 3), the instance inside a tuple / list / dict value, aliased twice,
    hashable instances as dict key / frozenset member / set member, an instance with nothing mutable behind it, and — where the class
    under test allows it (`zself_of`) — an instance of the class under test itself"""
    def z(cid, *items):
        ident = v.fresh()
        return ['z', ident, list(items), cid]

    def box(t, *items):
        ident = v.fresh()
        return [t, ident, list(items)]
    one, none, ka = ['i', 1], ['a'], ['s', [107]]
    shared = z(10, box('l', one))
    fam = [z(10, box('l', one)),                                                   # Z10([1])
           z(10, box('d', ka, one)),                                               # Z10({'k': 1})
           z(12, box('e', one), none),                                             # Z12({1}, None)
           z(11, z(10, box('l')), none),                                           # Z11(Z10([]), None)
           z(12, one, z(11, box('d', ka, box('l')), z(10, box('e')))),             # depth 3, three classes
           box('t', z(10, box('l', one)), one),                                    # (Z10([1]), 1)
           box('l', z(11, box('d', one, box('l')), one)),                          # [Z11({1: []}, 1)]
           box('d', ka, z(12, box('e', one), none)),                               # {'k': Z12({1}, None)}
           z(10, box('o', box('l', one))),                                         # Z10(obj holding a list)
           box('t', shared, shared),                                               # one instance referenced twice
           box('d', z(10, one), box('l', one)),                                    # hashable instance as dict key
           box('f', z(11, one, ['s', [97]])),                                      # … in a frozenset
           box('e', z(12, one, none)),                                             # … in a set
           z(10, one),                                                             # nothing mutable behind it
           box('f', z(10, box('o', box('l')))),                                    # hashable all the way down, yet a list behind it
           box('t', z(11, box('t', box('l', one)), box('f', one)))]                # tuple / frozenset inside the instance
    if zself:
        cid, ar = zself
        fam.append(z(cid, box('l', one), *[one] * (ar - 1)))                       # K(f0=[1], …): the class under test itself
        fam.append(box('t', z(cid, *([none] * (ar - 1) + [z(10, box('d', ka, box('e')))]))))
        fam.append(z(10, z(cid, *[one] * ar)))
    return fam


def frozen_nested_cases(rng, shapes, opts_list, rounds=2):
    """directed: values holding nested frozen-dataclass instances in every field position x options x shapes x every subset of fields to
    replace x both methods (1 field: every value of the family; 2..3 fields: the family rotates through the positions)"""
    out = []
    k = 0
    for opts in opts_list:
        for shape in shapes:
            for nf in (1, 2, 3):
                v = Vals(rng, 0)
                cls = mk_class(rng, v, nf, ['req'] * nf, opts, shape, opts)
                zs = zself_of(cls)
                st = f"{shape}/s{int(opts[0])}o{int(opts[1])}k{int(opts[2])}"
                names = [n for (n, f, kwo) in resolved(cls) if f['init']]
                subsets = []
                for m in range(len(names) + 1):
                    subsets += list(itertools.combinations(names, m))
                base_n = v.n
                nfam = len(frozen_nested_values(Vals(rng, base_n), zs))
                for sub in subsets:
                    for deep in (False, True):
                        for rnd in range(nfam if nf == 1 else rounds):
                            v = Vals(rng, base_n, zs)
                            fam = frozen_nested_values(v, zs)
                            ctor = {'pos': [], 'kw': [[n, fam[(k + 7 * i) % len(fam)]] for i, n in enumerate(names)]}
                            k += 1
                            kw = [[n, rng.choice(frozen_nested_values(v, zs))] for n in sub]
                            out.append(finish(cls, ctor, ['copy', deep, kw], v, f'copy-frozen-nested/{st}'))
    return out


def uncopyable_values(v):
    """every shape of a value that `copy.deepcopy` cannot duplicate: the uncopyable object itself (a lock / a generator / an object whose
    __deepcopy__ raises), and the object next to ordinary mutable data inside a list / dict (as value and as key) / tuple / set / frozenset /
    plain object / frozen instance, at depth 1..3"""
    def u(k=0):
        return ['u', v.fresh(), [], k]

    def box(t, *items):
        ident = v.fresh()
        return [t, ident, list(items)]

    def z(cid, *items):
        ident = v.fresh()
        return ['z', ident, list(items), cid]
    one, two = ['i', 1], ['i', 2]
    return [u(0), u(1), u(2),
            box('l', u(0), box('l', one)),                                              # [lock, [1]]
            box('d', ['s', [103]], u(0), ['s', [112]], box('l', one, two)),             # {'g': lock, 'p': [1, 2]}   (the seeded demo)
            box('t', box('l', one), u(1)),                                              # ([1], generator)
            box('o', u(2), box('l')),                                                   # object with an uncopyable attribute and a list attribute
            z(10, box('l', u(0), box('d', one, box('l')))),                             # Z10([lock, {1: []}])
            z(11, u(1), box('l', one)),                                                 # Z11(generator, [1])
            box('l', box('l', box('t', u(2), box('e', one)))),                          # three levels down
            box('d', u(0), box('l', one)),                                              # the lock as dict key
            box('f', u(2)),                                                             # frozenset({NoDeep()})
            box('e', u(0), one),                                                        # {lock, 1}
            box('d', ['s', [107]], z(12, box('l', one), u(0)))]                         # {'k': Z12([1], lock)}


def uncopyable_cases(rng, shapes, opts_list):
    """directed: values that cannot be deep-copied (at the top of a field, and nested next to ordinary lists / dicts / sets / objects) in every
    field position x options x shapes x every subset of fields to replace x both methods; the other fields hold ordinary mutable data; the
    keyword values are ordinary values or uncopyable ones (a keyword object is never copied)"""
    out = []
    k = 0
    for opts in opts_list:
        for shape in shapes:
            for nf in (1, 2, 3):
                v = Vals(rng, 0)
                cls = mk_class(rng, v, nf, ['req'] * nf, opts, shape, opts)
                st = f"{shape}/s{int(opts[0])}o{int(opts[1])}k{int(opts[2])}"
                names = [n for (n, f, kwo) in resolved(cls) if f['init']]
                subsets = []
                for m in range(len(names) + 1):
                    subsets += list(itertools.combinations(names, m))
                base_n = v.n
                nfam = len(uncopyable_values(Vals(rng, base_n)))
                for sub in subsets:
                    for deep in (False, True):
                        for rnd in range(nfam if nf == 1 else 3):
                            v = Vals(rng, base_n)
                            fam = uncopyable_values(v)
                            pos = k % len(names)                     # the field that holds the uncopyable value rotates
                            ctor = {'pos': [], 'kw': [[n, fam[(k // len(names)) % len(fam)] if i == pos else v.mutable(2)]
                                                      for i, n in enumerate(names)]}
                            k += 1
                            kw = [[n, rng.choice(uncopyable_values(v)) if rng.random() < 0.3 else v.value(2)] for n in sub]
                            out.append(finish(cls, ctor, ['copy', deep, kw], v, f'copy-uncopyable/{st}'))
    return out


# ---- histories

def nav_children(j):
    """[(index, child term)] the way a path enters a node: tuple / list / object / frozen instance items, dict *values* (odd indices)"""
    t = j[0]
    if t in 'tloz':
        return list(enumerate(j[2]))
    if t == 'd':
        return [(i, x) for i, x in enumerate(j[2]) if i % 2 == 1]
    return []


def mutable_paths(j, prefix=()):
    """paths to every list / dict / set / plain object that can be reached without passing through a set, a frozenset or a dict key"""
    out = [(prefix, j)] if j[0] in 'ldeo' else []
    for i, x in nav_children(j):
        out += mutable_paths(x, prefix + (i,))
    return out


class HistSim:
    """what the generator knows about the objects of a history: terms shared by reference exactly where the real objects are shared
    (a shallow copy holds the receiver's term objects, a deep copy a structural copy), so that an in-place change made through one
    instance is seen through every instance that shares the object; only used to choose valid paths and mutations"""

    def __init__(self, rng, v, fields0):
        self.r, self.v, self.insts, self.steps, self.k = rng, v, [dict(fields0)], [], 0

    def copy(self, deep, on, replace):
        kw = [[n, self.v.value(2)] for n in replace]
        new = {}
        for n, t in self.insts[on].items():
            new[n] = copy.deepcopy(t) if deep else t
        for n, t in kw:
            new[n] = copy.deepcopy(t)        # the step keeps the term as it is passed; the instance holds an object that may change later
        # the object passed IS the object held: share the reference, but send an unchanged snapshot to both sides
        self.steps.append(['copy', deep, [[n, copy.deepcopy(t)] for n, t in kw], on])
        self.insts.append(new)
        return len(self.insts) - 1

    def mutate(self, on, depth_pref=None):
        """change one mutable object reachable from instance `on` in place; False if there is none"""
        r = self.r
        cands = [(n, p, node) for n, t in self.insts[on].items() for p, node in mutable_paths(t)]
        if not cands:
            return False
        if depth_pref == 'deep':
            m = max(len(p) for _, p, _ in cands)
            cands = [c for c in cands if len(c[1]) == m]
        elif depth_pref == 'top':
            m = min(len(p) for _, p, _ in cands)
            cands = [c for c in cands if len(c[1]) == m]
        n, p, node = r.choice(cands)
        self.k += 1
        fresh = ['i', 900 + self.k]                # an atom no generated value contains: a new dict key / set member for sure
        t, items = node[0], node[2]
        kinds = ['push']
        if items and t in 'ldeo':
            kinds.append('clear')
        if items and t in 'lo':
            kinds.append('setAt')
        if t == 'd' and items:
            kinds.append('setAt')
        kind = r.choice(kinds)
        if kind == 'push':
            m = ['push', [fresh, ['s', [109]]]] if t == 'd' else ['push', [fresh]]
            items.extend(copy.deepcopy(m[1]))
        elif kind == 'setAt':
            i = r.choice([i for i in range(len(items)) if t != 'd' or i % 2 == 1])
            m = ['setAt', i, fresh]
            items[i] = fresh
        else:
            m = ['clear']
            del items[:]
        self.steps.append(['mut', on, n, list(p), m])
        return True


HIST_TEMPLATES = ['deep-mutcopy-deep', 'deep-mutorig-deep', 'deep-mutcopy-shallow-deep', 'shallow-mutorig-deep-mutcopy-deep', 'deep-deep',
                  'mutorig-deep-mutorig-deep', 'deep-deepofcopy-mut-deepofcopy', 'random']


def hist_cases(rng, shapes, opts_list, rounds=1):
    """directed + random histories on one original: copies (both methods, of the original and of earlier copies, with every kind of
    replacement) interleaved with in-place changes of the lists / dicts / sets / objects the fields refer to — through the original,
    through a copy, at the top of a field value and deep inside it (also behind tuples and frozen instances)"""
    out = []
    for opts in opts_list:
        for shape in shapes:
            for nf in (1, 2, 3):
                for tpl in HIST_TEMPLATES:
                    for rnd in range(rounds):
                        v = Vals(rng, 0, alias=False)
                        # init=False fields may be present (a copy recomputes them), but nothing below them is changed in place
                        kinds = [rng.choice(['req', 'req', 'req', 'df', 'dv', 'nv', 'nf']) for _ in range(nf)]
                        if all(k in ('nv', 'nf') for k in kinds):
                            kinds[rng.randrange(nf)] = 'req'
                        cls = mk_class(rng, v, nf, kinds, opts, shape, opts, ts=rng.random() < 0.15, post=rng.random() < 0.2)
                        st = f"{shape}/s{int(opts[0])}o{int(opts[1])}k{int(opts[2])}"
                        names = [n for (n, f, kwo) in resolved(cls) if f['init']]
                        # every field is passed, and at least one holds something that can be changed in place
                        vals = {n: v.value(3) for n in names}
                        if not any(mutable_paths(t) for t in vals.values()):
                            vals[rng.choice(names)] = v.mutable(2)
                        ctor = {'pos': [], 'kw': [[n, copy.deepcopy(vals[n])] for n in names]}
                        h = HistSim(rng, v, vals)

                        def sub():
                            return rng.sample(names, rng.randint(0, len(names) - 1)) if rng.random() < 0.5 else []
                        pref = rng.choice([None, 'deep', 'top'])
                        if tpl == 'deep-mutcopy-deep':
                            c1 = h.copy(True, 0, []); h.mutate(c1, pref); h.copy(True, 0, sub())
                        elif tpl == 'deep-mutorig-deep':
                            h.copy(True, 0, []); h.mutate(0, pref); h.copy(True, 0, sub())
                        elif tpl == 'deep-mutcopy-shallow-deep':
                            c1 = h.copy(True, 0, []); h.mutate(c1, pref); c2 = h.copy(False, 0, sub()); h.copy(True, c2, [])
                        elif tpl == 'shallow-mutorig-deep-mutcopy-deep':
                            c1 = h.copy(False, 0, sub()); h.mutate(0, pref); c2 = h.copy(True, c1, []); h.mutate(c2, pref); h.copy(True, 0, [])
                        elif tpl == 'deep-deep':
                            h.copy(True, 0, sub()); h.copy(True, 0, []); h.copy(True, 0, sub())
                        elif tpl == 'mutorig-deep-mutorig-deep':
                            h.mutate(0, pref); h.copy(True, 0, []); h.mutate(0, pref); h.copy(True, 0, []); h.copy(False, 0, [])
                        elif tpl == 'deep-deepofcopy-mut-deepofcopy':
                            c1 = h.copy(True, 0, sub()); h.copy(True, c1, []); h.mutate(c1, pref); h.copy(True, c1, []); h.copy(True, 0, [])
                        else:
                            for _ in range(rng.randint(3, 7)):
                                if rng.random() < 0.45:
                                    h.mutate(rng.randrange(len(h.insts)), rng.choice([None, 'deep', 'top']))
                                else:
                                    h.copy(rng.random() < 0.65, rng.randrange(len(h.insts)), sub())
                        out.append(finish(cls, ctor, ['hist', h.steps], v, f'hist-{tpl}/{st}'))
    return out


def invalid_defs(rng):
    """near misses at class-definition time"""
    out = []
    for slots in (False, True):
        v = Vals(rng, 0)
        # required positional field after a defaulted one (kw_only=False)
        cls = [mk_layer(0, True, False, False, False, slots, False, [mk_field(v, 0, 'dv'), mk_field(v, 1, 'req')])]
        out.append(finish(cls, {'pos': [], 'kw': [[0, v.atom()], [1, v.atom()]]}, ['copy', False, []], v, 'deferr/order'))
        # ... the same across a decorated subclass
        v = Vals(rng, 0)
        cls = [mk_layer(2, True, False, False, False, slots, False, [mk_field(v, 1, 'req')]),
               mk_layer(0, True, False, False, False, slots, False, [mk_field(v, 0, 'df')])]
        out.append(finish(cls, {'pos': [], 'kw': [[0, v.atom()], [1, v.atom()]]}, ['copy', True, []], v, 'deferr/order-sub'))
        # ... fine when the subclass is kw_only
        v = Vals(rng, 0)
        cls = [mk_layer(2, True, False, False, True, slots, False, [mk_field(v, 1, 'req')]),
               mk_layer(0, True, False, False, False, slots, False, [mk_field(v, 0, 'df')])]
        out.append(finish(cls, {'pos': [], 'kw': [[0, v.value(2)], [1, v.value(2)]]}, ['copy', True, []], v, 'def/kwonly-sub'))
        # mutable plain default
        v = Vals(rng, 0)
        f = mk_field(v, 0, 'dv')
        f['d'] = ['value', ['l', v.fresh(), []]]
        cls = [mk_layer(0, True, False, False, True, slots, False, [f])]
        out.append(finish(cls, {'pos': [], 'kw': []}, ['copy', False, []], v, 'deferr/mutable-default'))
    return out


def hazard_cases(rng):
    """class statements `dataclasses.dataclass` refuses for the options the decorator hands over - the decoration must raise, no class may come
    back whose instances accept an assignment: a root class that derives from an ordinary NON-frozen @dataclass (refused whatever the options:
    frozen=True is always passed), a `__lt__` in the class body next to order=True, a `__slots__` in the class body next to slots=True - on the
    root class and on a decorated subclass, x options x 1..2 fields; each followed by the operations a returned class would have to withstand
    (set / del of every field and of a new name, both copy methods); plus the benign twins (`__lt__` without order=True)"""
    out = []
    for hz in ('dcbase', 'userlt', 'ownslots'):
        for opts in OPTS:
            slots, order, kw = opts
            if hz == 'ownslots' and not slots:
                continue                        # a `__slots__ = ()` without slots=True leaves no room for the fields: not a dataclass one can instantiate
            for shape in ('single', 'decosub', 'plainsub'):
                for where in ((0,) if shape != 'decosub' else (0, 2)):        # the class statement (cid) that carries the hazard
                    if hz == 'dcbase' and where != 0:
                        continue                # only the root class statement can get another base
                    for nf in (1, 2):
                        v = Vals(rng, 0)
                        cls = mk_class(rng, v, nf, ['req'] * nf, opts, shape, opts)
                        for l in cls:
                            if l['cid'] == where:
                                l['hz'] = hz
                        st = f"{shape}/s{int(slots)}o{int(order)}k{int(kw)}"
                        fs = resolved(cls)
                        base_n = v.n
                        seqs = [[['set', n], ['del', n]] for (n, f, k) in fs] + [[['set', NEW], ['del', NEW]]]
                        for sq in seqs:
                            v = Vals(rng, base_n)
                            ctor = ctor_for(rng, v, cls, omit_defaults=False)
                            ops = [[o[0], o[1], v.value(1)] if o[0] == 'set' else o for o in sq]
                            out.append(finish(cls, ctor, ['attr', ops], v, f'hazard-{hz}/{st}'))
                        for deep in (False, True):
                            v = Vals(rng, base_n)
                            ctor = ctor_for(rng, v, cls, omit_defaults=False)
                            out.append(finish(cls, ctor, ['copy', deep, []], v, f'hazard-{hz}/{st}'))
    return out


def corpus_seed(rng):
    """the failing inputs of the regions repaired by 37ecc33 (fixes/demo_C11_deep_copy_with.py) — must satisfy the property now"""
    out = []
    for slots in (False, True):
        v = Vals(rng, 0)
        cls = [mk_layer(1, False), mk_layer(0, True, False, False, True, slots, False, [mk_field(v, 0, 'req')])]
        out.append(finish(cls, {'pos': [], 'kw': [[0, ['i', 1]]]}, ['copy', True, []], v, 'fixed/deep-copy-on-undecorated-subclass'))
        v = Vals(rng, 0)
        f1 = mk_field(v, 1, 'nv')
        f1['d'] = ['value', ['i', 5]]
        cls = [mk_layer(0, True, False, False, True, slots, False, [mk_field(v, 0, 'req'), f1])]
        out.append(finish(cls, {'pos': [], 'kw': [[0, ['i', 1]]]}, ['copy', True, [[0, ['i', 2]]]], v, 'fixed/deep-copy-init-false-field'))
    return out


def cases(rng, tier):
    out = invalid_defs(rng)          # (the repaired regions' failing inputs live in harness/corpus/C11.jsonl, see corpus_seed)
    out += hazard_cases(rng)
    if tier == 'quick':
        out += hashmut_cases(rng, SHAPES, [(False, False, True), (True, True, False)])
        out += uncopyable_cases(rng, SHAPES[:4], [(False, False, True), (True, True, False)])
        out += frozen_nested_cases(rng, SHAPES, [(False, False, True), (True, False, False), (True, True, True)])
        out += hist_cases(rng, SHAPES, [(False, False, True), (True, True, False), (False, True, True)])
        out += grid(rng, [1, 2, 3], SHAPES[:3], 2)
        out += grid(rng, [2, 3], SHAPES[3:], 1)
        out += grid(rng, [4, 5], SHAPES, 1)[::3]
        out += kinds_grid(rng, [1, 2], SHAPES[:3])
    else:
        out += hashmut_cases(rng, SHAPES, OPTS)
        out += uncopyable_cases(rng, SHAPES, OPTS)
        out += frozen_nested_cases(rng, SHAPES, OPTS, rounds=4)
        out += hist_cases(rng, SHAPES, OPTS, rounds=6)
        out += grid(rng, [1, 2, 3], SHAPES, 12, full=True)
        out += grid(rng, [4, 5], SHAPES, 4, full=True)
        out += kinds_grid(rng, [1, 2, 3], SHAPES)
    return out


def search(rng, tier, near):
    return hazard_cases(rng) + hist_cases(rng, SHAPES, OPTS, rounds=2) + frozen_nested_cases(rng, SHAPES, OPTS) + hashmut_cases(rng, SHAPES, OPTS) + uncopyable_cases(rng, SHAPES, OPTS) + grid(rng, [1, 2, 3], SHAPES, 2, full=True)


# ------------------------------------------------------------------ implementation side

_MODS = {}
_TMP = [None]
_J = []


def fname(n):
    return f'f{n}' if n < NEW else SPECIAL.get(n, f'zzz{n}')


def module_source(cls):
    lines = ['import dataclasses', 'from typing import Any', 'from pedantic import frozen_dataclass', '',
             'class Other:', '    """an ordinary class with the layout of a slot-free instance: the value assigned to __class__"""', '',
             '@dataclasses.dataclass', 'class PlainDC:', '    """an ordinary, NON-frozen dataclass (no fields): the base of a class statement with the hazard `dcbase`"""', ''] + ZSOURCE
    for i in range(len(cls) - 1, -1, -1):
        l = cls[i]
        base = f"(K{cls[i + 1]['cid']})" if i + 1 < len(cls) else ('(PlainDC)' if l.get('hz') == 'dcbase' else '')
        if l['dec']:
            lines.append(f"@frozen_dataclass(type_safe={l['ts']}, order={l['order']}, kw_only={l['kw']}, slots={l['slots']})")
        lines.append(f"class K{l['cid']}{base}:")
        body = []
        for f in l['own']:
            key = f"{l['cid']}_{f['n']}"
            args = []
            if f['d'][0] == 'value':
                args.append(f"default=DV['{key}']")
            elif f['d'][0] == 'factory':
                args.append(f"default_factory=FA['{key}']")
            if not f['init']:
                args.append('init=False')
            if not f['cmp']:
                args.append('compare=False')
            if args == [f"default=DV['{key}']"]:
                body.append(f"    {fname(f['n'])}: Any = DV['{key}']")
            elif args:
                body.append(f"    {fname(f['n'])}: Any = dataclasses.field({', '.join(args)})")
            else:
                body.append(f"    {fname(f['n'])}: Any")
        if l['post']:
            body += ['    def __post_init__(self):', "        J.append('post')"]
        if l.get('hz') == 'userlt':
            body += ['    def __lt__(self, other):', '        return NotImplemented']
        if l.get('hz') == 'ownslots':
            body = ['    __slots__ = ()'] + body
        lines += body or ['    pass']
        lines.append('')
    return '\n'.join(lines)


class LazyDefaults:
    """DV['<cid>_<field>'] inside a generated class body: the default object is built when the class body asks for it, i.e. after the
    frozen helper classes of the module exist (a default may be an instance of one of them); one object per key"""

    def __init__(self):
        self.terms = {}

    def __getitem__(self, key):
        term, memo = self.terms[key]
        return build(term, memo)          # memoised by identity in the module's memo


def get_module(cls):
    key = json.dumps(cls, sort_keys=True)
    if key in _MODS:
        return _MODS[key]
    if _TMP[0] is None:
        _TMP[0] = tempfile.mkdtemp(prefix='pedverif_c11_')
    name = f'pv_c11_m{len(_MODS)}'
    path = os.path.join(_TMP[0], name + '.py')
    with open(path, 'w') as f:
        f.write(module_source(cls))
    spec = importlib.util.spec_from_file_location(name, path)
    mod = importlib.util.module_from_spec(spec)
    memo, dv, fa = {'__mod__': mod, '__cls__': cls}, LazyDefaults(), {}
    for l in cls:
        for f in l['own']:
            key2 = f"{l['cid']}_{f['n']}"
            if f['d'][0] == 'value':
                dv.terms[key2] = (f['d'][1], memo)
            elif f['d'][0] == 'factory':
                fa[key2] = (lambda t: (lambda: build(t, {'__mod__': mod, '__cls__': cls})))(f['d'][1])
    mod.DV, mod.FA, mod.J = dv, fa, _J
    entry = {'err': None, 'mod': mod, 'memo': memo}
    tr = FT.tracer()
    tr.begin()
    try:
        try:
            spec.loader.exec_module(mod)
        finally:
            entry['decoTrace'] = tr.end()
        for l in cls:
            if l['dec']:
                k = getattr(mod, f"K{l['cid']}")
                orig = k.__dict__.get('validate_types')
                if orig is None:            # a tree that does not attach the method to the class it returns: the operations will say so
                    continue

                def wrapped(self, *, _context=None, _orig=orig):
                    _J.append('validate')
                    return _orig(self, _context=_context if _context is not None else {})
                k.validate_types = wrapped
    except BaseException as e:
        entry['err'] = type(e).__name__
    _MODS[key] = entry
    return entry


def is_atom(x):
    return x is None or type(x) in (int, str)


def same(a, b):
    if is_atom(a) or is_atom(b):
        return type(a) is type(b) and a == b
    return a is b


def mut_ids(v, acc=None):
    """id() of every mutable object — list / dict / set / instance of the plain class — reachable from v (through tuples, frozensets and
    instances of frozen dataclasses too)"""
    if acc is None:
        acc = {}
    if is_frozen_inst(v):
        # not mutable itself, but whatever its fields (and other attributes) hold is reachable through it
        for x in frozen_items(v):
            mut_ids(x, acc)
    elif isinstance(v, Plain):
        if id(v) in acc:
            return acc
        acc[id(v)] = v
        for x in plain_items(v):
            mut_ids(x, acc)
    elif isinstance(v, (list, set, tuple, frozenset)):
        if not isinstance(v, (tuple, frozenset)):
            if id(v) in acc:
                return acc
            acc[id(v)] = v
        for x in v:
            mut_ids(x, acc)
    elif isinstance(v, dict):
        if id(v) in acc:
            return acc
        acc[id(v)] = v
        for k, x in v.items():
            mut_ids(k, acc)
            mut_ids(x, acc)
    return acc


def canon(v):
    if isinstance(v, tuple):
        return ['t', [canon(x) for x in v]]
    if isinstance(v, list):
        return ['l', [canon(x) for x in v]]
    if isinstance(v, dict):
        return ['d', sorted(([canon(k), canon(x)] for k, x in v.items()), key=json.dumps)]
    if isinstance(v, set):
        return ['e', sorted((canon(x) for x in v), key=json.dumps)]
    if isinstance(v, frozenset):
        return ['f', sorted((canon(x) for x in v), key=json.dumps)]
    if isinstance(v, Plain):
        return ['o', type(v).__name__, [[k, canon(x)] for k, x in sorted(vars(v).items())]]
    if is_frozen_inst(v):
        return ['z', type(v).__name__, [[f.name, canon(getattr(v, f.name, None))] for f in dataclasses.fields(v)]]
    u = unc_identity(v)
    if u is not None:
        return ['u', u]
    return [type(v).__name__, v]


_UNSET = object()


def snapshot(inst, names):
    return {n: getattr(inst, n, _UNSET) for n in names}


def exc_name(e):
    return type(e).__name__


def inst_state(inst, allnames):
    """what must not change when an instance is only read: identities and values of its fields, the names in its __dict__"""
    snap = snapshot(inst, allnames)
    return (snap, {n: json.dumps(canon(x)) for n, x in snap.items() if x is not _UNSET}, set(getattr(inst, '__dict__', {})))


def state_same(inst, allnames, st):
    before, before_c, extra = st
    after = snapshot(inst, allnames)
    return (all((after[n] is before[n]) or (after[n] is not _UNSET and before[n] is not _UNSET and same(after[n], before[n])) for n in allnames)
            and all(json.dumps(canon(after[n])) == before_c[n] for n in before_c)
            and set(getattr(inst, '__dict__', {})) == extra)


def safe_eq(a, b):
    """`a == b` as a fact of the run; a tree that copies wrongly may hand out half-built objects whose `==` raises"""
    try:
        return bool(a == b)
    except BaseException as e:
        return 'ERR:' + exc_name(e)


def run_copy(inst, allnames, deep, kwj, memo, live=None, made=None):
    """`live`: every instance alive when the copy is made (default: the receiver alone); `made`: list that receives the copy"""
    tr = FT.tracer()
    kw = {fname(n): build(j, memo) for n, j in kwj}
    others = [(x, inst_state(x, allnames)) for x in (live or []) if x is not inst]
    before = snapshot(inst, allnames)
    before_c = {n: json.dumps(canon(x)) for n, x in before.items() if x is not _UNSET}
    extra_before = dict(getattr(inst, '__dict__', {}))
    del _J[:]
    res = {}
    tr.begin()
    try:
        c = (inst.deep_copy_with if deep else inst.copy_with)(**kw)
        res['out'] = 'ok'
    except BaseException as e:
        c = None
        res['out'] = exc_name(e)
    finally:
        res['trace'] = tr.end()
    journal = list(_J)
    after = snapshot(inst, allnames)
    self_same = (all((after[n] is before[n]) or (after[n] is not _UNSET and before[n] is not _UNSET and same(after[n], before[n])) for n in allnames)
                 and all(json.dumps(canon(after[n])) == before_c[n] for n in before_c)
                 and set(getattr(inst, '__dict__', {})) == set(extra_before))
    res['selfSame'] = self_same
    if c is None:
        return res
    if made is not None:
        made.append(c)
    res['othersSame'] = all(state_same(x, allnames, st) for x, st in others)
    res['journal'] = journal
    res['sameClass'] = type(c) is type(inst)
    self_mut = {}
    for n in allnames:
        if before[n] is not _UNSET:
            mut_ids(before[n], self_mut)
    live_mut = dict(self_mut)
    for x, st in others:
        for n in allnames:
            if st[0][n] is not _UNSET:
                mut_ids(st[0][n], live_mut)
    fl = []
    for n in allnames:
        r = getattr(c, n, _UNSET)
        idx = int(n[1:])
        if r is _UNSET:
            fl.append([idx, False])
            continue
        s = before[n]
        has_s = s is not _UNSET
        k = kw.get(n, _UNSET)
        has_k = k is not _UNSET
        rm = mut_ids(r)
        fl.append([idx, True,
                   same(r, s) if has_s else None, safe_eq(s, r) if has_s else None,
                   same(r, k) if has_k else None, safe_eq(k, r) if has_k else None,
                   len(set(rm) & set(mut_ids(s))) if has_s else 0,
                   len(set(rm) & set(self_mut)),
                   (canon(s) == canon(r)) if has_s else None,
                   len(set(rm) & set(live_mut))])
    res['fields'] = fl
    return res


# ---- histories: several copies of the same objects, field objects changed in place in between

def child_items(v):
    """children by index, as the model numbers them (dict: k0, v0, k1, v1, … in insertion order); sets / frozensets are not entered"""
    if isinstance(v, (tuple, list)):
        return list(v)
    if isinstance(v, dict):
        return [x for kv in v.items() for x in kv]
    if isinstance(v, Plain):
        return plain_items(v)
    if is_frozen_inst(v):
        return frozen_items(v)
    return None


def resolve_path(v, path):
    for i in path:
        items = child_items(v)
        if items is None or i >= len(items):
            return _UNSET
        v = items[i]
    return v


def apply_mut(v, m, memo):
    """in-place change of a list / dict / set / plain object"""
    kind = m[0]
    if kind == 'push':
        xs = [build(j, memo) for j in m[1]]
        if isinstance(v, list):
            v.extend(xs)
        elif isinstance(v, set):
            assert len(xs) == 1 and xs[0] not in v
            v.add(xs[0])
        elif isinstance(v, dict):
            assert len(xs) == 2 and xs[0] not in v
            v[xs[0]] = xs[1]
        elif isinstance(v, Plain):
            setattr(v, f'a{len(vars(v))}', xs[0])
        else:
            raise TypeError('not a mutable node')
    elif kind == 'setAt':
        i, x = m[1], build(m[2], memo)
        if isinstance(v, list):
            v[i] = x
        elif isinstance(v, dict):
            assert i % 2 == 1
            v[list(v)[i // 2]] = x
        elif isinstance(v, Plain):
            assert f'a{i}' in vars(v)
            setattr(v, f'a{i}', x)
        else:
            raise TypeError('not a mutable node')
    else:
        if isinstance(v, (list, dict, set)):
            v.clear()
        elif isinstance(v, Plain):
            vars(v).clear()
        else:
            raise TypeError('not a mutable node')


def run_hist(inst, allnames, steps, memo):
    insts, outs = [inst], []
    for st in steps:
        if st[0] == 'copy':
            _, deep, kwj, on = st
            if on >= len(insts):
                outs.append({'out': 'noinst'})
                continue
            outs.append(run_copy(insts[on], allnames, deep, kwj, memo, live=list(insts), made=insts))
        else:
            _, on, n, path, m = st
            tgt = resolve_path(getattr(insts[on], fname(n), _UNSET), path) if on < len(insts) else _UNSET
            if tgt is _UNSET or not isinstance(tgt, (list, dict, set, Plain)):
                outs.append({'out': 'nopath'})
                continue
            before = [{nm: json.dumps(canon(x)) for nm, x in snapshot(i, allnames).items() if x is not _UNSET} for i in insts]
            try:
                apply_mut(tgt, m, memo)
            except BaseException as e:           # the object is not what the history expects there (only on a tree that copies wrongly)
                outs.append({'out': 'mutation-' + exc_name(e)})
                continue
            after = [{nm: json.dumps(canon(x)) for nm, x in snapshot(i, allnames).items() if x is not _UNSET} for i in insts]
            outs.append({'out': 'ok', 'changed': [[[int(nm[1:]), a.get(nm) != b[nm]] for nm in allnames if nm in b] for b, a in zip(before, after)]})
    return {'steps': outs}


def run_attr(inst, ops, memo):
    outs = []
    for op in ops:
        try:
            if op[0] == 'set':
                val = build(op[2], memo)
                if op[1] == NAME_CLASS:
                    val = memo['__mod__'].Other       # re-classing needs a class
                elif op[1] == NAME_DICT:
                    val = {}                          # … and a new __dict__ a dict
                setattr(inst, fname(op[1]), val)
            else:
                delattr(inst, fname(op[1]))
            outs.append('ok')
        except BaseException as e:
            outs.append(exc_name(e))
    return {'outs': outs}


def tri(f):
    try:
        r = f()
        return bool(r) if r is not NotImplemented else 'NotImplemented'
    except BaseException as e:
        return exc_name(e)


def run_cmp(mod, cls, a, drop, ctor2, memo):
    k2 = getattr(mod, f"K{cls[drop]['cid']}")
    pos2 = [build(j, memo) for j in ctor2['pos']]
    kw2 = {fname(n): build(j, memo) for n, j in ctor2['kw']}
    # a short-lived instance of the same class with other field values is hashed and dropped first: what the instances made afterwards
    # report (hash, ==) must not depend on objects that no longer exist (CPython hands the freed memory to the next instance)
    try:
        t = k2(*[-7 for _ in pos2], **{n: -7 for n in kw2})
        hash(t)
        del t
    except BaseException:
        pass
    try:
        b = k2(*pos2, **kw2)
    except BaseException as e:
        return {'ctor2': exc_name(e)}

    def tup(i):
        return tuple(getattr(i, f.name) for f in dataclasses.fields(i) if f.compare)
    res = {'ctor2': 'ok', 'eq': tri(lambda: a == b), 'eqRev': tri(lambda: b == a), 'eqSelf': tri(lambda: a == a),
           'ne': tri(lambda: a != b), 'lt': tri(lambda: a < b), 'gt': tri(lambda: a > b), 'le': tri(lambda: a <= b), 'ge': tri(lambda: a >= b)}
    for key, i in (('hash', a), ('hash2', b)):
        try:
            h = hash(i)
            res[key] = 'ok'
            res[key + 'EqTuple'] = (h == hash(tup(i)))
        except BaseException as e:
            res[key] = exc_name(e)
    if res['hash'] == 'ok' and res['hash2'] == 'ok':
        res['hashEq'] = hash(a) == hash(b)
    # Python's own comparison of the field tuples (validates the spec's value order)
    res['eqTuple'] = tri(lambda: tup(a) == tup(b))
    res['ltTuple'] = tri(lambda: tup(a) < tup(b))
    res['gtTuple'] = tri(lambda: tup(a) > tup(b))
    res['leTuple'] = tri(lambda: tup(a) <= tup(b))
    res['geTuple'] = tri(lambda: tup(a) >= tup(b))
    return res


def run_one(case):
    c = case['c']
    cls = c['cls']
    ent = get_module(cls)
    out = {}
    deco_trace = ent.pop('decoTrace', None)          # only the case that made the module be loaded carries the trace of its decorations
    if ent['err'] is not None:
        return {'def': 'deferr', 'deferr': ent['err'], 'decoTrace': deco_trace}
    out['def'] = 'ok'
    out['decoTrace'] = deco_trace
    mod = ent['mod']
    k = getattr(mod, f"K{cls[0]['cid']}")
    fl = dataclasses.fields(k)
    out['fields'] = [[int(f.name[1:]), f.init, f.compare, f.kw_only] for f in fl]
    allnames = [f.name for f in fl]
    memo = dict(ent['memo'])
    # the arguments are built first: building a nested instance of the class under test runs its __post_init__ / validate_types
    try:
        apos = [build(j, memo) for j in c['ctor']['pos']]
        akw = {fname(n): build(j, memo) for n, j in c['ctor']['kw']}
    except BaseException as e:          # only on a tree whose decorated classes cannot even be instantiated for the argument values
        out['ctor'] = 'arguments-' + exc_name(e)
        return out
    del _J[:]
    tr = FT.tracer()
    tr.begin()
    try:
        inst = k(*apos, **akw)
        out['ctor'] = 'ok'
    except BaseException as e:
        out['ctor'] = exc_name(e)
        return out
    finally:
        out['ctorTrace'] = tr.end()
    out['journal'] = list(_J)
    out['set'] = [int(n[1:]) for n in allnames if getattr(inst, n, _UNSET) is not _UNSET]
    op = c['op']
    if op[0] == 'copy':
        out['op'] = run_copy(inst, allnames, op[1], op[2], memo)
    elif op[0] == 'hist':
        out['op'] = run_hist(inst, allnames, op[1], memo)
    elif op[0] == 'attr':
        out['op'] = run_attr(inst, op[1], memo)
    elif op[0] == 'cmp':
        out['op'] = run_cmp(mod, cls, inst, op[1], op[2], memo)
    return out


def run_impl(cases):
    out = []
    try:
        for case in cases:
            out.append(run_one(case))
    finally:
        if _TMP[0] is not None:
            shutil.rmtree(_TMP[0], ignore_errors=True)
            _TMP[0] = None
        for e in _MODS.values():
            sys.modules.pop(getattr(e['mod'], '__name__', ''), None)
        _MODS.clear()
    return out


# ------------------------------------------------------------------ verdict

def head_undecorated(case):
    return not case['c']['cls'][0]['dec']


def judge(case, impl, model):
    m, s = model['model'], model.get('spec') or {}
    c = case['c']
    op = c['op']
    tag = case['x'].get('tag', op[0])
    why = []
    # ---- correspondence R: the fact vectors agree
    for key in ('def', 'fields', 'ctor', 'journal', 'set'):
        if key == 'fields' and impl.get('def') != 'ok':
            continue
        if impl.get(key) != m.get(key):
            why.append(f'{key}: impl {impl.get(key)} model {m.get(key)}')
    io, mo = impl.get('op'), m.get('op')
    if (io is None) != (mo is None):
        why.append('operation reached on one side only')
    elif io is not None:
        keys = {'copy': ['out', 'sameClass', 'journal', 'fields'], 'attr': ['outs'], 'hist': [],
                'cmp': ['ctor2', 'eq', 'eqRev', 'eqSelf', 'hash', 'hash2', 'lt', 'gt', 'le', 'ge']}[op[0]]
        if op[0] == 'hist':
            # step by step: outcome, class, journal and per-field fact vector of every copy; which fields of which live instance a mutation changed
            isteps, msteps = io.get('steps', []), mo.get('steps', [])
            if len(isteps) != len(msteps):
                why.append(f'history: {len(isteps)} impl steps, {len(msteps)} model steps')
            for k, (a, b) in enumerate(zip(isteps, msteps)):
                for key in ('out', 'sameClass', 'journal', 'fields', 'othersSame', 'changed'):
                    if a.get(key) != b.get(key):
                        why.append(f'step {k} {key}: impl {a.get(key)} model {b.get(key)}')
                if a.get('out') == 'ok' and 'fields' in a and b.get('selfSame') is not True:
                    why.append(f"step {k} selfSame: model {b.get('selfSame')}")
            if mo.get('histOk') is not True:
                why.append('generator produced a history outside the modelled ones (mutation below an init=False field, aliasing inside a value, re-used keyword object)')
        for key in keys:
            if io.get(key) != mo.get(key):
                why.append(f'op.{key}: impl {io.get(key)} model {mo.get(key)}')
        if op[0] == 'copy' and io.get('out') == 'ok' and mo.get('selfSame') is not True:
            why.append(f"op.selfSame: model {mo.get('selfSame')}")
        if op[0] == 'cmp' and io.get('ctor2') == 'ok':
            # the spec's value order / equality against Python's own comparison of the field tuples
            if io.get('eqTuple') is not None and s.get('eq') is not None and c['op'][1] == 0 and io['eqTuple'] != s['eq']:
                why.append(f"spec.eq {s['eq']} vs Python tuple == {io['eqTuple']}")
            for k2 in ('lt', 'gt', 'le', 'ge'):
                if s.get(k2) is not None and io.get(k2 + 'Tuple') != s[k2]:
                    why.append(f"spec.{k2} {s[k2]} vs Python tuple comparison {io.get(k2 + 'Tuple')}")
    why += trace_why(case, impl, model)
    if not m.get('wf', True) and impl.get('def') == 'ok':
        why.append('generator produced a class shape outside wfCls')
    if not m.get('live', True):
        why.append('generator produced an identity above the allocator')
    corr = not why
    # ---- property P on the implementation, decided with the spec values
    pfail, finding = None, None
    nontrivial = False
    refused = bool(s.get('refused')) and any(l.get('hz') for l in c['cls'])
    if refused and impl.get('def') == 'ok':
        # dataclasses refuses this class statement for the options the decorator must hand over (frozen=True, …): no class may exist
        acc = [f"{o[0]}attr('{fname(o[1])}')" for o, r in zip(op[1], (io or {}).get('outs', [])) if r == 'ok'] if op[0] == 'attr' else []
        pfail = ('the decoration handed back a class for a definition that dataclass(frozen=True, …) refuses (' +
                 ', '.join(sorted({l['hz'] for l in c['cls'] if l.get('hz')})) + ')' +
                 (f"; its instance accepted {', '.join(acc)}" if acc else '; it can be instantiated' if impl.get('ctor') == 'ok' else ''))
    if pfail is None and io is not None and impl.get('ctor') == 'ok':
        if op[0] == 'copy':
            meth = 'deep_copy_with' if op[1] else 'copy_with'
            nontrivial = any(f[1] and len(f) > 6 for f in io.get('fields', [])) and any(_has_mutable(j) for _, j in c['ctor']['kw'])
            pfail = copy_pfail(meth, io, s)
            if pfail and pfail.startswith('REGION:'):
                _, fid, pfail = pfail.split(':', 2)
                finding = fid if corr else None
        elif op[0] == 'hist':
            nontrivial = True
            for k, (st, a, sp) in enumerate(zip(op[1], io.get('steps', []), s.get('steps', []))):
                if st[0] != 'copy' or a.get('out') == 'noinst' or sp is None:
                    continue
                meth = 'deep_copy_with' if st[1] else 'copy_with'
                pf = copy_pfail(meth, a, sp)
                if pf and pf.startswith('REGION:'):
                    _, fid, pf = pf.split(':', 2)
                    finding = fid if corr else None
                if pf:
                    pfail = f'step {k} of the history ({meth} on instance {st[3]}, receiver taken as it is at that moment): {pf}'
                    break
        elif op[0] == 'attr':
            nontrivial = True
            for k, (o, r) in enumerate(zip(op[1], io['outs'])):
                if r == 'ok':
                    pfail = f"{o[0]}attr('{fname(o[1])}') on an instance succeeded (operation {k} of the sequence)"
                    if head_undecorated(case) and o[1] >= NEW and io == mo:
                        finding = FINDING
                    elif head_undecorated(case) and io == mo and all(x[1] >= NEW for x in op[1][:k + 1]):
                        finding = FINDING
                    break
                if STRICT_EXCEPTION_CLASS and r != 'FrozenInstanceError':
                    pfail = f"{o[0]}attr('{fname(o[1])}') raised {r} instead of FrozenInstanceError"
                    if io == mo and o[1] >= NEW and any(l['dec'] and l['slots'] for l in c['cls']):
                        finding = FINDING_CLASS
                    break
        elif op[0] == 'cmp' and io.get('ctor2') == 'ok':
            nontrivial = True
            if io['eq'] != s['eq'] or io['eqRev'] != s['eq'] or io.get('ne') != (not s['eq']):
                pfail = f"== is {io['eq']} / {io['eqRev']} but (class, field tuple) equality is {s['eq']}"
            elif io['eqSelf'] is not True:
                pfail = 'an instance is not equal to itself'
            else:
                for key, sk in (('hash', 'hashable'), ('hash2', 'hashable2')):
                    if s[sk] and (io[key] != 'ok' or io.get(key + 'EqTuple') is not True):
                        pfail = f"hash is not the hash of the field tuple ({io[key]})"
                    elif not s[sk] and io[key] == 'ok':
                        pfail = 'an instance with an unhashable field tuple is hashable'
                if not pfail and s['eq'] and io.get('hashEq') is False:
                    pfail = 'equal instances have different hashes'
                for k2 in ('lt', 'gt', 'le', 'ge'):
                    if not pfail and s.get(k2) is not None and io[k2] != s[k2]:
                        pfail = f"order=True: {k2} gives {io[k2]}, the field tuples give {s[k2]}"
    sub = ''
    if io is not None:
        if op[0] == 'copy':
            sub = ('deep' if op[1] else 'shallow') + ':' + str(io.get('out'))
        elif op[0] == 'hist':
            sub = ','.join(('D' if st[1] else 'S') if st[0] == 'copy' else 'm' for st in op[1])[:24]
        elif op[0] == 'attr':
            sub = ','.join(sorted(set(io['outs'])))
        else:
            sub = f"eq={io.get('eq')},lt={io.get('lt')},hash={io.get('hash')}"
    else:
        sub = impl.get('def') if impl.get('def') != 'ok' else 'ctor:' + str(impl.get('ctor'))
    return {'corr': corr, 'pfail': pfail, 'finding': finding, 'nontrivial': nontrivial,
            'tag': f"{tag.split('/')[0]}/{tag.split('/')[1] if '/' in tag else ''}/{sub}", 'why': '; '.join(why[:4])}


def trace_pairs(case, impl, model):
    """[(what, observed statement trace, path of the IR interpreter)] of one case: the decorations of the module (first use only), the
    constructor call, every copy call"""
    m = model.get('model') or {}
    out = [('decoration of the module', impl.get('decoTrace'), m.get('irDeco')),
           ('constructor', impl.get('ctorTrace'), m.get('irCtor') if impl.get('ctor') == 'ok' and m.get('ctor') == 'ok' else None)]
    io, mo = impl.get('op') or {}, m.get('op') or {}
    if case['c']['op'][0] == 'copy':
        out.append(('copy', io.get('trace'), (mo.get('ir') or {}).get('path')))
    elif case['c']['op'][0] == 'hist':
        for k, (a, b) in enumerate(zip(io.get('steps', []), mo.get('steps', []))):
            if 'trace' in a:
                out.append((f'step {k}', a.get('trace'), (b.get('ir') or {}).get('path')))
    return out


def trace_why(case, impl, model):
    why = []
    for what, obs, pred in trace_pairs(case, impl, model):
        r = FT.compare(obs, pred)
        if r:
            why.append(f'{what}: {r}')
    m = model.get('model') or {}
    mo = m.get('op') or {}
    irs = [mo.get('ir')] if case['c']['op'][0] == 'copy' else [st.get('ir') for st in mo.get('steps', [])] if case['c']['op'][0] == 'hist' else []
    for ir in irs:
        if ir and (ir.get('agrees') is False or ir.get('journalAgrees') is False):
            why.append('the interpreted statement program of the copy method does not return what the hand model returns')
    return why


def copy_pfail(meth, io, s):
    """the copy clauses of the property on one observed call (`io`), decided with the spec values `s` for that call"""
    if not io.get('selfSame', True):
        return f'{meth} changed the original instance'
    if io.get('othersSame') is False:
        return f'{meth} changed another live instance'
    if s.get('valid'):
        if io['out'] != 'ok' and s.get('copyable', True) is False:
            return None          # an init field holds something copy.deepcopy cannot duplicate: no instance, nothing shared, nothing demanded
        if io['out'] != 'ok':
            return f"{meth} raised {io['out']} for keyword arguments that name init fields"
        if not io['sameClass']:
            return f'{meth} returned an instance of another class'
        exp = dict((n, e) for n, e in s['expect'])
        for f in io['fields']:
            e = exp.get(f[0])
            if not f[1]:
                return f'field f{f[0]} of the copy is unset'
            if e == 'replaced' and f[4] is not True:
                return f'{meth}: field f{f[0]} is not the object passed as keyword argument'
            if e == 'sameObject' and f[2] is not True:
                return f'{meth}: un-replaced field f{f[0]} is not the object held by the original (not shallow)'
            if e == 'deepEqual' and f[8] is not True:
                return f'{meth}: un-replaced field f{f[0]} differs from the original value'
            if e == 'deepEqual' and f[7] != 0:
                return f'{meth}: un-replaced field f{f[0]} shares {f[7]} mutable object(s) with the original (not deep)'
            if e == 'deepEqual' and f[9] != 0:
                return f'{meth}: un-replaced field f{f[0]} shares {f[9]} mutable object(s) with an instance that existed before (original / earlier copy)'
            if e == 'equalOnly' and f[8] is not True:
                return f'{meth}: init=False field f{f[0]} differs from the original value'
        # the literal reading of "deep_copy_with shares no mutable field object" for init=False fields with a plain default (last: only when
        # nothing else is wrong with the copy)
        for f in io['fields']:
            if f[0] in (s.get('sharedDefault') or []) and f[1] and f[7] != 0:
                return (f'REGION:{FINDING_SHARED_DEFAULT}:{meth}: the init=False field f{f[0]} (plain default) of the copy is the object the original '
                        f'holds: {f[7]} mutable object(s) shared (the default is one object for all instances)')
    elif s.get('valid') is False and io['out'] == 'ok':
        return f'{meth} accepted a keyword that is not an init field'
    return None


def _has_mutable(j):
    if j[0] in 'ais':
        return False
    return j[0] in 'ldeo' or any(_has_mutable(x) for x in j[2])


def extra_coverage(results):
    shapes, outs = {}, {}
    for (c, i, m, j) in results:
        t = c['x'].get('tag', '')
        shapes[t.split('/')[0]] = shapes.get(t.split('/')[0], 0) + 1
        o = (i.get('op') or {})
        for x in ([o.get('out')] if 'out' in o else o.get('outs', []) + [st.get('out') for st in o.get('steps', [])]):
            outs[str(x)] = outs.get(str(x), 0) + 1
    rej = {}
    for (c, i, m, j) in results:
        if c['c']['op'][0] == 'attr' and i.get('op'):
            for o, r in zip(c['c']['op'][1], i['op']['outs']):
                key = ('field' if o[1] < NEW else 'new-name') + ('/slots' if any(l['dec'] and l['slots'] for l in c['c']['cls']) else '/dict') \
                    + ('/undecorated-head' if not c['c']['cls'][0]['dec'] else '') + ':' + r
                rej[key] = rej.get(key, 0) + 1
    pairs = []
    for (c, i, m, j) in results:
        pairs += [(obs, pred, what.split()[0] + ':' + j.get('tag', '')) for what, obs, pred in trace_pairs(c, i, m)]
    return {'case_kinds': shapes, 'operation_outcomes': outs, 'rejections_by_exception': rej, **FT.coverage(pairs)}
