"""C07 — TypeVar binding: generated modules (a generic @pedantic_class class, a class with __init__, a two-parameter class, a
non-generic twin, a directly decorated twin, plain functions, static and class methods, all with the same generated
signatures, and methods whose generated bodies call other checked methods / functions before they return) are driven through call
histories of call trees; the outcome class of every call made is compared with the Lean model (correspondence) and with the Lean
specification (property)."""
import os, sys, json, hashlib, itertools, tempfile, shutil, importlib.util, io, contextlib

RULE = ('signatures: a fixed catalogue (T, method-level S, constrained TC/TCP, bound TB/TBI, forward-ref bound TF, co/contravariant, '
        'List/Dict/Tuple/Tuple[..., ...]/Optional/Union/Type nestings, T-typed results) plus seeded random signatures from the annotation '
        'grammar (depth <= 3); values: per TypeVar position identical class / subclass / superclass / unrelated / bool-int, containers of '
        'these, wrong containers and lengths. Enumerated exhaustively: every catalogue signature with one TypeVar x all pairs of the '
        'probe values on a plain function, the non-generic twin and the directly decorated twin; every X of the instance vocabulary x '
        'every single-parameter catalogue method x every probe value on Box[X](); every ordered pair of probe values for a method-level '
        'TypeVar on one instance and across two instances; parameters with a DEFAULT value (an omitted parameter is checked with its default): '
        'histories default-relied / default-relied / default passed explicitly on nine store kinds and across Box[int] / Box[str]; '
        ' hand-picked values for the order-sensitive parts of _check_union (split of bound / '
        'unbound TypeVars computed at entry, every non-TypeVar member evaluated) on eight store kinds. Seeded: histories of 1..12 calls over 1..3 instances (Box[X], BoxI[X](a=v) '
        'with a T-typed __init__, Pair[X, Y], unparametrised, non-generic, directly decorated, plain / static / class methods), the '
        'constructor-scan stream. NESTED CALLS: methods / functions whose generated body calls other checked methods / functions before it returns '
        '(`self.<m>(...)`, another instance, a plain @pedantic function, a static / class method; the body catches and journals what the nested call '
        'raises), to depth 4: a directed family outer kind (9 store kinds) x outer signature (method-level S / class-level T in parameters and result, '
        'Optional, List, defaults, no parameter at all) x 22 bodies x values that agree / clash with the outer bindings (quick: a seeded 1/12 slice), and '
        'seeded histories of call trees instantiated from a pool of generated bodies (1..3 nested calls per body, depth <= 4, over 1..4 instances); '
        'the outermost call AND every journalled nested call are compared with the model (call tree), the specification of that call, and the same call '
        'made alone with an empty body on a fresh instance. OVERLAPPING CALLS OF ONE FUNCTION OBJECT: (a) recursion - the generated body calls the very same '
        'function / method again (plain, static, class method, same instance) with other values, to depth 3, chains and two recursive calls per body; (b) 1..3 LIVE GENERATORS '
        'of one generator function / method (-> Iterator[T] / Generator[S, None, None] / Iterable[S], with and without parameters, on Box[X], Pair, NG, Direct, Raw, plain, '
        'static, class methods, through self and from a plain function), made and advanced with next() by a generated body in sequential / alternating / late-start / reversed / '
        'shuffled order until exhausted, yielding conforming and non-conforming values at every position; (c) 1..3 coroutines of one coroutine function gathered on one event '
        'loop (1..2 awaits each); directed family (every store kind x signature x value pattern x order; quick: a seeded 1/4 slice) + seeded random signatures / values; each call '
        'in flight is compared with the model (schedule of check events over per-call dicts), judged by the specification of that call (yielded values are checks of the call) '
        'and against the same call seen through alone. Every instance is created in generated module source. non-trivial = some step checks a value '
        'against a TypeVar. OBJECT LIFETIMES: every Cls[X]() is created right after an instance Cls[object]() of the same class was used once and discarded '
        '(the creation is repeated, with one more discarded instance each time, until the new instance has the address of a dead one - a handful of rounds at most: '
        'what is remembered per address would be inherited from the dead instance). UNION ALTERNATIVES: unions whose members are containers with a '
        'constrained / bound / plain TypeVar inside next to TypeVar-free containers (16 catalogue signatures: the TypeVar alternative first / last, the '
        'TypeVar tied before / after the union is reached, in the result, at a nested position, Optional, three members, two TypeVar alternatives) x nine '
        'store kinds x values for the union position (no / one / two elements from classes that pass / fail the constraint or bound, both orders, the '
        'wrong container, None) x values for the other occurrence of the TypeVar - an alternative that fails at its first element, half-way (after it '
        'tied the TypeVar) or for its container class while another alternative accepts; the same shapes in the random annotation grammar, values built '
        'for one alternative with classes that do not follow the call. VARIADIC PARAMETERS annotated with TypeVars (*args: T, **kwargs: T, **options: '
        'List[T], Optional[T], Dict[str, T], constrained, method-level, with and without named parameters / a T-typed result): every store kind x the '
        'keyword used for an extra keyword argument drawn from a pool that contains the names of the * / ** parameters themselves (args, kwargs, kw, '
        'options, entries, args_), names of parameters of other functions and neutral names x agreeing / clashing values; values collected by *args '
        '(the named parameters are then passed by position); the same in the random signatures and histories. The checks of a ** parameter are DERIVED '
        'by the model (translated filter of not_yet_check_kwargs) and by the specification (every keyword that names no named parameter) from the '
        'keyword arguments of the call. CLASS SHAPES (shared with C08: generic_shape_cases): 16 class statements - Generic[T], Generic[T, S], List[T], '
        'Dict[T, S], Sequence[T], List[List[T]], UBase[T] with / without re-listing Generic[T], a plain mixin before / after Generic[T] / List[T], '
        'Dict[str, T] before / after Generic[T], Dict[T, S] with Generic[T, S] / Generic[S, T] - each with and without __init__ (which makes a checked '
        'call on the instance under construction and journals what it raises), created with several X and without type arguments, then 2..3 method '
        'calls (class-level / method-level / no TypeVars, T-typed result, **entries: T, a union alternative) with values that conform / do not conform to X; '
        'the model DERIVES the store kind and the bindings T -> X from the class statement as typing presents it (__bases__, __parameters__, __orig_bases__) and '
        'the type arguments of the creating expression; the specification reads "created as Cls[X]" off the same declarations; every outcome that is '
        'not a return / PedanticTypeVarMismatchException / PedanticTypeCheckException is a failure')
EXHAUSTIVE = {'quick': False, 'thorough': False}
ASSUMPTIONS = ['annotations and X come from the modelled vocabulary: classes without __annotations__ tricks (no NamedTuple values), Any, TypeVars '
               '(bare, constrained by classes, bound by a class or by its name), List / Dict / Tuple / Tuple[x, ...] / Optional / Union / Type; '
               'unions have >= 2 distinct members and are not nested directly (typing flattens them); claimed: TypeVar-free unions, Optional[a], and unions whose '
               'TypeVars sit inside ONE container alternative (only an alternative that accepts the value ties TypeVars; a failed one contributes nothing); other '
               'unions that mention a TypeVar are modelled and compared, not claimed',
               'an instance is "created as Cls[X](...)" when the creating expression carries type arguments - whatever makes the class generic, and from the first '
               'check on: the parameters of __init__ and the calls __init__ makes are claimed (CPython sets __orig_class__ only after __init__ has returned: finding '
               'initOfGenericInstanceUnchecked); what __init__ leaves in the per-instance store is modelled',
               'constrained TypeVars: the runtime class of a value must BE one of the constraints (a bool at TypeVar(\'TC\', int, str) is rejected) - the reading '
               'of the library, stated as a choice of the specification (Spec.walkTV)',
               'every keyword argument that names no named parameter is a value of the ** parameter, whatever it is called; *args values are passed by position '
               'together with the named parameters (the library allows positional arguments only for functions whose source mentions *args)',
               'unparametrised instances of a generic class, and Type[T] positions (the code never compares the class object with T), are modelled and compared but not claimed',
               'keyword calls only; the values are checked, not consumed, by the method bodies; a body makes its nested calls in order, catches and journals whatever '
               'they raise, and then returns the value prepared for it (the outcome of a nested call reaches its caller through the journal only)',
               'nested calls under a root reached through the constructor-scan stream are not generated (the source scan looks at the caller of the OUTERMOST checked call)',
               'generator functions (-> Iterator / Generator[.., None, None] / Iterable) yield the items of a list they are handed and are driven with next() until they are exhausted '
               'or raise (no send / throw / close: the GenWrap check); coroutine functions await asyncio.sleep(0) once or twice and are gathered on one event loop; a body keeps only '
               'calls WITHOUT nested calls in flight']
TRUSTED = ['typing introspection of the generated annotations (get_type_arguments, __constraints__, __bound__, __orig_class__, __orig_bases__) is exercised, not modelled: '
           'what typing makes of a class statement (Generic in __bases__, __parameters__, the entries of __orig_bases__) is read off undecorated twins of the '
           'class shapes, sent to the model as facts of the program and compared with the decorated classes of every generated module',
           'issubclass on the harness class table is sent to the model as the relation `sub`',
           'the constructor-call source scan (_assert_constructor_called_with_generics) is a flag of the generated program, modelled as "the accessor raises"',
           'GeneratorWrapper (which annotation argument is the yield / send / return type, when send / return are checked: the GenWrap check) and asyncio (round-robin '
           'stepping of gathered coroutines) are exercised, not modelled: the harness turns a generator / coroutine call into its sequence of check events, the model '
           'interleaves these events and keeps the dicts']

# ------------------------------------------------------------------ vocabulary

CL = ['object', 'NoneType', 'int', 'str', 'bool', 'float', 'list', 'dict', 'tuple', 'type', 'P', 'C1', 'C2', 'G', 'U', 'set', 'frozenset']
BASE = {'object': None, 'NoneType': 'object', 'int': 'object', 'str': 'object', 'bool': 'int', 'float': 'object', 'list': 'object',
        'dict': 'object', 'tuple': 'object', 'type': 'object', 'P': 'object', 'C1': 'P', 'C2': 'P', 'G': 'C1', 'U': 'object',
        'set': 'object', 'frozenset': 'object'}
IDX = {n: i for i, n in enumerate(CL)}
CLS_SRC = {'NoneType': 'None'}
BARE = ['list', 'dict', 'tuple', 'type', 'set', 'frozenset']
INST = ['object', 'NoneType', 'int', 'str', 'bool', 'float', 'P', 'C1', 'C2', 'G', 'U']     # classes of `["inst", c]` values


def _sub(a, b):
    while a is not None:
        if a == b:
            return True
        a = BASE[a]
    return False


SUB = [[1 if _sub(a, b) else 0 for b in CL] for a in CL]

# TypeVars of the generated module: id -> (name, source, model description)
TVS = [
    ('T', "TypeVar('T')", {'cs': [], 'b': None, 'fwd': False, 'var': 'inv'}),
    ('S', "TypeVar('S')", {'cs': [], 'b': None, 'fwd': False, 'var': 'inv'}),
    ('TC', "TypeVar('TC', int, str)", {'cs': [IDX['int'], IDX['str']], 'b': None, 'fwd': False, 'var': 'inv'}),
    ('TB', "TypeVar('TB', bound=P)", {'cs': [], 'b': IDX['P'], 'fwd': False, 'var': 'inv'}),
    ('TF', "TypeVar('TF', bound='P')", {'cs': [], 'b': IDX['P'], 'fwd': True, 'var': 'inv'}),
    ('TCN', "TypeVar('TCN', contravariant=True)", {'cs': [], 'b': None, 'fwd': False, 'var': 'contra'}),
    ('TCO', "TypeVar('TCO', covariant=True)", {'cs': [], 'b': None, 'fwd': False, 'var': 'co'}),
    ('V', "TypeVar('V')", {'cs': [], 'b': None, 'fwd': False, 'var': 'inv'}),
    ('TCP', "TypeVar('TCP', P, U)", {'cs': [IDX['P'], IDX['U']], 'b': None, 'fwd': False, 'var': 'inv'}),
    ('TBI', "TypeVar('TBI', bound=int)", {'cs': [], 'b': IDX['int'], 'fwd': False, 'var': 'inv'}),
]
TV = {n: i for i, (n, _, _) in enumerate(TVS)}
ENV = {'sub': SUB, 'none': IDX['NoneType'], 'list': IDX['list'], 'dict': IDX['dict'], 'tuple': IDX['tuple'], 'type': IDX['type'],
       'object': IDX['object'], 'bare': [IDX[b] for b in BARE], 'tvs': [d for (_, _, d) in TVS]}

# annotation constructors (JSON terms shared with the Lean driver)
def cls(n): return ['cls', IDX[n]]
def tv(n): return ['tv', TV[n]]
ANY = ['any']
NONE = cls('NoneType')
OBJ = cls('object')
def lst(a): return ['list', a]
def dct(k, v): return ['dict', k, v]
def tup(*items): return ['tuple', list(items)]
def tupv(a): return ['tuplevar', a]
def uni(*ms): return ['union', list(ms)]
def opt(a): return ['union', [a, NONE]]
def typ(a): return ['type', a]


def ann_src(a):
    k = a[0]
    if k == 'cls':
        n = CL[a[1]]
        return CLS_SRC.get(n, n)
    if k == 'any':
        return 'Any'
    if k == 'tv':
        return TVS[a[1]][0]
    if k == 'list':
        return f'List[{ann_src(a[1])}]'
    if k == 'dict':
        return f'Dict[{ann_src(a[1])}, {ann_src(a[2])}]'
    if k == 'tuple':
        return 'Tuple[' + ', '.join(ann_src(x) for x in a[1]) + ']'
    if k == 'tuplevar':
        return f'Tuple[{ann_src(a[1])}, ...]'
    if k == 'union':
        return 'Union[' + ', '.join(ann_src(x) for x in a[1]) + ']'
    if k == 'type':
        return f'Type[{ann_src(a[1])}]'
    raise ValueError(a)


def ann_tvs(a, below_type=False):
    k = a[0]
    if k == 'tv':
        return [] if below_type else [a[1]]
    if k in ('cls', 'any'):
        return []
    if k in ('list', 'tuplevar'):
        return ann_tvs(a[1], below_type)
    if k == 'type':
        return ann_tvs(a[1], True)
    if k == 'dict':
        return ann_tvs(a[1], below_type) + ann_tvs(a[2], below_type)
    return [t for x in a[1] for t in ann_tvs(x, below_type)]


# values (JSON terms shared with the Lean driver)
def inst(n): return ['inst', IDX[n]]
def vlist(*xs): return ['list', list(xs)]
def vdict(*kvs): return ['dict', [list(kv) for kv in kvs]]
def vtup(*xs): return ['tuple', list(xs)]
def clsobj(n): return ['clsobj', IDX[n]]
VNONE = inst('NoneType')


def val_class(v):
    return {'inst': lambda: v[1], 'list': lambda: IDX['list'], 'dict': lambda: IDX['dict'], 'tuple': lambda: IDX['tuple'],
            'clsobj': lambda: IDX['type']}[v[0]]()


# ------------------------------------------------------------------ signatures and cases

def sig(ps, ret=None, defs=None, flav=None, awaits=1, va=None, vk=None):
    """ps: [(param name, annotation)]; ret: annotation of the result (None: `-> None`, the body returns nothing).
    va: annotation of a variadic positional parameter `*args: va` (always named `args`: the library allows positional values only for a
    function whose source mentions `*args`); vk: (name, annotation) of a variadic keyword parameter `**name: annotation`.  A call passes
    `pos` (values collected by *args; the named parameters are then passed by position as well) and `xkw` ([key, value] pairs collected
    by **name, in call order).  Both stand after the named parameters (and after `r`).
    With a result annotation the method gets an extra parameter `r: object` and returns it.
    defs: {param name: value} — these parameters (a suffix of ps) have that DEFAULT value; a call may omit them.  With defaults
    the parameter `r` stands first (a parameter without default cannot follow one with a default).
    flav: None — an ordinary function; 'rec' — the body calls THE SAME function again as often as the journal node of the running call
    says (scripted recursion) before it returns r; 'iter' / 'gen' / 'itb' — a generator function `-> Iterator[ret]` /
    `-> Generator[ret, None, None]` / `-> Iterable[ret]` that yields the items of the list it receives as `r`; 'async' — a coroutine
    function that awaits `awaits` times (asyncio.sleep(0)) and then returns r."""
    s = {'ps': [[n, a] for n, a in ps], 'ret': ret}
    if defs:
        s['defs'] = dict(defs)
    if va is not None:
        s['va'] = va
    if vk is not None:
        s['vk'] = [vk[0], vk[1]]
    if (va is not None or vk is not None) and (defs or flav):
        raise ValueError('variadic signatures are ordinary functions without defaults')
    if flav:
        s['flav'] = flav
        if flav == 'async':
            s['awaits'] = awaits
        if flav in GEN_FLAVS and (ret is None or defs):
            raise ValueError('a generator signature needs a yield annotation and has no defaults')
    return s


GEN_FLAVS = ('iter', 'gen', 'itb')


def sig_name(s):
    return 'm' + hashlib.sha1(json.dumps(s, sort_keys=True).encode()).hexdigest()[:12]


def sig_checks(s, vals, r=None, pos=None, xkw=None):
    """the checks of a call in the order they are made; an omitted parameter is checked with its default value"""
    return [c for seg in sig_segs(s, vals, r, pos, xkw) for c in seg]


def variadic(s):
    return 'va' in s or 'vk' in s


def sig_segs(s, vals, r=None, pos=None, xkw=None, with_vk=True):
    """the checks of a call grouped by the moments they are made: an ordinary function — the parameters, [the body], the result;
    a generator function (r = the list of values it yields) — the parameters when the call is made, then per next(): the None sent in
    (not for the first one) and the yielded value, last the None sent in and the None returned; a coroutine function — the parameters
    when it is first stepped, nothing at each further resumption, the result when the body ends"""
    defs = s.get('defs') or {}
    flav = s.get('flav')
    if flav in GEN_FLAVS:
        ys = r
        segs = [[[a, vals[n]] for n, a in s['ps']] + [[OBJ, vlist(*ys)]]]
        for k, y in enumerate(ys):
            segs.append(([[NONE, VNONE]] if k else []) + [[s['ret'], y]])
        segs.append(([[NONE, VNONE]] if ys else []) + [[NONE, VNONE]])
        return segs
    out = [[OBJ, r]] if (s['ret'] is not None and defs) else []
    out += [[a, vals[n] if n in vals else defs[n]] for n, a in s['ps']]
    if s['ret'] is not None and not defs:
        out.append([OBJ, r])
    # what *args collected (in order), then what **kwargs collected (every keyword that names no parameter, in call order)
    out += [[s['va'], v] for v in (pos or [])] if 'va' in s else []
    out += [[s['vk'][1], v] for _, v in (xkw or [])] if ('vk' in s and with_vk) else []
    last = [[s['ret'], r]] if s['ret'] is not None else [[NONE, VNONE]]
    if flav == 'async':
        return [out] + [[] for _ in range(s.get('awaits', 1) - 1)] + [last]
    return [out, last]


def val_src(v):
    """source text of a default value"""
    k = v[0]
    if k == 'inst':
        return {'object': 'object()', 'NoneType': 'None', 'int': '2', 'str': "'d'", 'bool': 'True', 'float': '1.5'}.get(CL[v[1]], CL[v[1]] + '()')
    if k == 'list':
        return '[' + ', '.join(val_src(x) for x in v[1]) + ']'
    if k == 'tuple':
        return '(' + ''.join(val_src(x) + ', ' for x in v[1]) + ')'
    if k == 'dict':
        return '{' + ', '.join(val_src(a) + ': ' + val_src(b) for a, b in v[1]) + '}'
    return CL[v[1]]


WARM = sig([])      # `def warm(self) -> None: pass` under its generated name
INIT = {'ps': [['a', tv('T')]], 'ret': None}

# instance descriptions: {'cls': 'Box'|'BoxI'|'Pair'|'Raw'|'NG'|'Direct'|'plain'|'static'|'classm', 'X': [annotations], 'warm': bool}
GENERIC = ('Box', 'BoxI', 'Pair', 'Raw')


def inst_model(d):
    c = d['cls']
    if c == 'Shape':
        return dict(shape_table()[d['shape']], k='shape', act=d.get('X'))
    # the generic classes of the module as class statements (shape) + the type arguments of the creating expression: the model derives
    # the store kind and the bindings T -> X from them, the specification reads "created as Cls[X]" off them
    if c in ('Box', 'BoxI'):
        return dict(shape_table()['G'], k='shape', act=list(d['X']))
    if c == 'Pair':
        return dict(shape_table()['GG'], k='shape', act=list(d['X']))
    if c == 'Raw':
        return dict(shape_table()['G'], k='shape', act=None)
    if c == 'NG':
        return {'k': 'reset'}
    if c == 'Direct':
        return {'k': 'direct'}
    return {'k': 'plain'}


INSTANCE_KINDS = ('Box', 'BoxI', 'Pair', 'Raw', 'NG', 'Direct', 'Shape')

# ---- class shapes: how a @pedantic_class class comes by its type parameters.  {'cls': 'Shape', 'shape': id, 'init': bool, 'X': [annotations] | None}
#      (`init`: the class defines __init__, which may call a method before it returns; X None: created without type arguments)
SHAPES = {
    'G': 'Generic[T]', 'GG': 'Generic[T, S]',                                   # an explicit Generic[...]
    'L': 'List[T]', 'D': 'Dict[T, S]', 'Sq': 'Sequence[T]', 'LL': 'List[List[T]]',  # a typing alias base (typing adds Generic to __bases__; no Generic[...] entry)
    'UB': 'UBase[T]', 'UBG': 'UBase[T], Generic[T]',                            # a user generic base, without / with re-listing Generic[T]
    'MG': 'Mixin, Generic[T]', 'GM': 'Generic[T], Mixin', 'LM': 'List[T], Mixin', 'ML': 'Mixin, List[T]',     # several bases, either order
    'DsG': 'Dict[str, T], Generic[T]', 'GDs': 'Generic[T], Dict[str, T]', 'DG': 'Dict[T, S], Generic[T, S]', 'DGr': 'Dict[T, S], Generic[S, T]',
}
SHAPE_PRELUDE = 'class Mixin: pass\n'
# (`Gga`, `GGga`, `Lga`: the class defines an ordinary `__getattr__` - in a pedantic class a CHECKED method: what the library reads from the
#  instance before it has stored it there must not fall back to it, or the wrapper re-enters itself without end)
_GETATTR = '    def __getattr__(self, name: str) -> object:\n        raise AttributeError(name)\n'
SHAPES.update({'Gga': 'Generic[T]', 'GGga': 'Generic[T, S]', 'Lga': 'List[T]'})
SHAPE_EXTRA = {'Sq': '    def __getitem__(self, i: int) -> object: return None\n    def __len__(self) -> int: return 0\n',
               'Gga': _GETATTR, 'GGga': _GETATTR, 'Lga': _GETATTR}


def _typing_ann(x):
    """a type argument as it stands in __orig_bases__ -> annotation term"""
    import typing
    if isinstance(x, typing.TypeVar):
        return tv(x.__name__)
    if isinstance(x, type) and x.__name__ in IDX:
        return cls(x.__name__)
    if typing.get_origin(x) is list:
        return lst(_typing_ann(typing.get_args(x)[0]))
    raise ValueError(f'type argument {x!r} of a base is outside the vocabulary')


def shape_facts(c):
    """what typing made of the class statement: (Generic in __bases__, names of __parameters__, per entry of __orig_bases__: is it Generic[...], its arguments)"""
    import typing
    return {'gen': typing.Generic in c.__bases__, 'p': [TV[t.__name__] for t in getattr(c, '__parameters__', ())],
            'ob': [[typing.get_origin(b) is typing.Generic, [_typing_ann(a) for a in typing.get_args(b)]] for b in getattr(c, '__orig_bases__', ())]}


_SHAPE_TABLE = {}


def shape_table():
    """the facts of every shape, read off undecorated twins of the classes (the generated module checks them against the decorated ones)"""
    if not _SHAPE_TABLE:
        ns = {}
        exec('from typing import *\n' + ''.join(f'{n} = {src}\n' for n, src, _ in TVS[:2]) + SHAPE_PRELUDE + 'class UBase(Generic[T]): pass\n'
             + ''.join(f'class Sh{sid}({bases}):\n' + SHAPE_EXTRA.get(sid, '    pass\n') for sid, bases in SHAPES.items()), ns)
        for sid in SHAPES:
            _SHAPE_TABLE[sid] = shape_facts(ns['Sh' + sid])
    return _SHAPE_TABLE


def shape_x(d):
    return ', '.join(ann_src(x) for x in d['X'])


def shape_variant(d):
    return f"Sh{d['shape']}{int(bool(d.get('init')))}"

HOWS = ('self', 'obj', 'plain', 'static', 'classm')


def node_name(st):
    """name of the generated function of a call: a call without nested calls uses the method of its signature (empty body); a
    call whose body makes nested calls gets a method of its own — signature + the nested calls written out in the body.  A function
    with scripted recursion ('rec') is one function whatever the depth; a body that keeps several calls in flight ('order': live
    generators advanced in that order, 'aio': coroutines gathered) is named after the calls it makes, not after the order."""
    if not st.get('kids') or st['sig'].get('flav') == 'rec':
        return sig_name(st['sig'])
    shape = [st['sig'], [[k['how'], node_name(k)] for k in st['kids']]]
    mode = ('aio:' + ('gather' if st['aio'] is True else st['aio'])) if st.get('aio') else ('sched' if 'order' in st else '')
    if mode:
        shape.append(mode)
    return 'n' + hashlib.sha1(json.dumps(shape, sort_keys=True).encode()).hexdigest()[:12]


def walk_nodes(st):
    """the calls below a call, pre-order (the order of the journal)"""
    for k in st.get('kids') or []:
        yield k
        yield from walk_nodes(k)


def mk_case(insts, steps, origin):
    """steps: {'i': instance index, 'sig': signature, 'vals': {param: value}, 'r': value or None, 'op': 'call'|'init'|'scan',
               'kids': [nested calls made by the body: the same fields + 'how': 'self'|'obj'|'plain'|'static'|'classm']}.
    A BoxI instance must be created by an 'init' step (sig INIT) before it is used; instances with 'warm' get a leading warm() call."""
    msteps, xsteps, fns = [], [], {}
    started = set()

    def fn_id(i, st):
        key = (variant_of(insts[i]), node_name(st))
        return fns.setdefault(key, len(fns))

    def mstep(st, op, job=False):
        i = st['i']
        sg = st['sig']
        segs = sig_segs(sg, st['vals'], st.get('r'), st.get('pos'), st.get('xkw'), with_vk=False)
        m = {'i': i, 'f': fn_id(i, st), 'init': op == 'init', 'scan': op == 'scan', 'checks': [c for seg in segs for c in seg]}
        if 'vk' in sg:
            # the checks of the `**` parameter are derived by the model / the specification from ALL keyword arguments of the call (in call order)
            named = [n for n, _ in sg['ps']] + (['r'] if sg['ret'] is not None else [])
            items = ([] if st.get('pos') else [[n, st['vals'][n]] for n, _ in sg['ps'] if n in st['vals']] + ([['r', st.get('r')]] if sg['ret'] is not None else [])) \
                + [[k, v] for k, v in st.get('xkw') or []]
            m['vkw'] = {'named': named, 'vnames': (['args'] if 'va' in sg else []) + [sg['vk'][0]], 'ann': sg['vk'][1], 'items': items, 'pos': len(segs[0])}
        if job:
            m['segs'] = [len(seg) for seg in segs]
            m['eager'] = st['sig'].get('flav') in GEN_FLAVS
        elif st['sig'].get('flav') in GEN_FLAVS + ('async',):
            raise ValueError('a generator / coroutine call is made by a body that keeps it in flight (a step with "order")')
        if st.get('kids'):
            sched = 'order' in st
            for k in st['kids']:
                c = insts[k['i']]['cls']
                if k['how'] == 'rec':
                    if sched or k['i'] != i or k['sig'] != st['sig'] or st['sig'].get('flav') != 'rec':
                        raise ValueError('recursion: the nested call is not a call of the same function on the same instance')
                    continue
                if k['how'] not in HOWS or (c in INSTANCE_KINDS) != (k['how'] in ('self', 'obj')) or (c not in INSTANCE_KINDS and c != k['how']):
                    raise ValueError(f'nested call: how={k["how"]} on an instance of kind {c}')
                if k['how'] == 'self' and insts[i]['cls'] in INSTANCE_KINDS and k['i'] != i:
                    raise ValueError('nested call on self names another instance')
                if sched and k.get('kids'):
                    raise ValueError('a call in flight makes no nested calls')
            m['kids'] = [mstep(k, 'init' if op == 'init' else 'call', job=sched) for k in st['kids']]
            if sched:
                if any(not (0 <= n < len(st['kids'])) for n in st['order']):
                    raise ValueError('order names a call that is not there')
                m['order'] = list(st['order'])
        return m
    for st in steps:
        op = st.get('op', 'call')
        for i in [st['i']] + [k['i'] for k in walk_nodes(st)]:
            d = insts[i]
            if d.get('warm') and i not in started and d['cls'] in ('Box', 'Pair') and op == 'call':
                w = {'i': i, 'sig': WARM, 'vals': {}, 'r': None}
                msteps.append(mstep(w, 'call'))
                xsteps.append({'i': i, 'op': 'warm', 'sig': WARM, 'vals': {}, 'r': None})
            started.add(i)
        msteps.append(mstep(st, op))
        x = {'i': st['i'], 'op': op, 'sig': st['sig'], 'vals': st['vals'], 'r': st.get('r')}
        if st.get('kids'):
            x['kids'] = st['kids']
        for key in ('order', 'aio', 'pos', 'xkw'):
            if key in st:
                x[key] = st[key]
        xsteps.append(x)
    return {'m': 'typevars', 'c': {'env': ENV, 'insts': [inst_model(d) for d in insts], 'steps': msteps},
            'x': {'insts': insts, 'steps': xsteps, 'origin': origin}}


# ---- catalogue
T, S, TC, TB, TF, TCN, TCO, V, TCP, TBI = (tv(n) for n in ('T', 'S', 'TC', 'TB', 'TF', 'TCN', 'TCO', 'V', 'TCP', 'TBI'))
INT, STR, PP = cls('int'), cls('str'), cls('P')

CATALOGUE = {
    'm_T': sig([('a', T)]),
    'm_TT': sig([('a', T), ('b', T)]),
    'm_LT': sig([('a', lst(T))]),
    'm_OT': sig([('a', opt(T))]),
    'm_TOT': sig([('a', T), ('b', opt(T))]),
    'm_ret': sig([('a', T)], ret=T),
    'm_retonly': sig([], ret=T),
    'm_DT': sig([('a', dct(STR, T))]),
    'm_TDT': sig([('a', T), ('b', dct(STR, T))]),
    'm_TupTT': sig([('a', tup(T, T))]),
    'm_TTupIT': sig([('a', T), ('b', tup(INT, T))]),
    'm_TupV': sig([('a', tupv(T))]),
    'm_TyT': sig([('a', typ(T)), ('b', T)]),
    'm_LOT': sig([('a', T), ('b', lst(opt(T)))]),
    'm_OLT': sig([('a', opt(lst(T))), ('b', T)]),
    'm_UTI': sig([('a', T), ('b', uni(T, INT))]),
    'm_S': sig([('a', S)]),
    'm_SS': sig([('a', S), ('b', S)]),
    'm_Sret': sig([('a', S)], ret=S),
    'm_LS': sig([('a', lst(S)), ('b', S)]),
    'm_TS': sig([('a', T), ('b', S)]),
    'm_UTS': sig([('a', T), ('b', S), ('c', uni(T, S))]),
    'm_V': sig([('a', V)]),
    'm_VOV': sig([('a', V), ('b', opt(V))]),
    'm_TC': sig([('a', TC)]),
    'm_TCTC': sig([('a', TC), ('b', TC)]),
    'm_TCO_': sig([('a', TC), ('b', opt(TC))]),
    'm_LTC': sig([('a', lst(TC))]),
    'm_TCP': sig([('a', TCP), ('b', TCP)]),
    'm_TB': sig([('a', TB)]),
    'm_TBTB': sig([('a', TB), ('b', TB)]),
    'm_TBO': sig([('a', TB), ('b', opt(TB))]),
    'm_DTB': sig([('a', dct(STR, TB))]),
    'm_TBI': sig([('a', TBI), ('b', TBI)]),
    'm_TF': sig([('a', TF)]),
    'm_TFTF': sig([('a', TF), ('b', TF)]),
    'm_TFO': sig([('a', TF), ('b', opt(TF))]),
    'm_CN': sig([('a', TCN), ('b', TCN)]),
    'm_CNL': sig([('a', lst(TCN))]),
    'm_CO': sig([('a', TCO), ('b', TCO)]),
    'm_COret': sig([('a', TCO)], ret=TCO),
    'm_int': sig([('a', INT)]),
    'd_T': sig([('a', T)], defs={'a': inst('int')}),
    'd_TT': sig([('a', T), ('b', T)], defs={'b': inst('int')}),
    'd_TTret': sig([('a', T), ('b', T)], ret=T, defs={'b': inst('str')}),
    'd_TLT': sig([('a', T), ('b', lst(T))], defs={'b': vlist(inst('int'), inst('bool'))}),
    'd_TOT': sig([('a', T), ('b', opt(T))], defs={'b': VNONE}),
    'd_TOT2': sig([('a', T), ('b', opt(T))], defs={'b': inst('C1')}),
    'd_SS': sig([('a', S), ('b', S)], defs={'b': inst('str')}),
    'd_TS': sig([('a', T), ('b', S), ('c', S)], defs={'b': inst('int'), 'c': inst('int')}),
    'd_TCTC': sig([('a', TC), ('b', TC)], defs={'b': inst('str')}),
    'd_TBTB': sig([('a', TB), ('b', TB)], defs={'b': inst('C1')}),
    'd_both': sig([('a', T), ('b', T)], defs={'a': inst('int'), 'b': inst('str')}),
    'm_UTSu': sig([('a', uni(T, S))]),
    'm_UTSb': sig([('a', T), ('b', uni(T, S))]),
    'm_UTupT': sig([('a', uni(tup(T, INT), T))]),
    'm_ULoLT': sig([('a', uni(lst(OBJ), lst(T))), ('b', T)]),
    'm_TULoLT': sig([('a', T), ('b', uni(lst(OBJ), lst(T)))]),
    'm_TyP': sig([('a', typ(PP)), ('b', typ(ANY))]),
    'm_DTT': sig([('a', dct(T, T))]),
    'm_LLT': sig([('a', lst(lst(T)))]),
    'm_OTupTT': sig([('a', T), ('b', opt(tup(T, T)))]),
}
# ---- unions whose alternatives are containers with TypeVars inside: an alternative fails (constraint / bound / class / shape) while
#      another one accepts, and the same TypeVar occurs again in the call.  `a` is the union position.
FLT = cls('float')
UNION = {
    'u_LTCLf': sig([('a', uni(lst(TC), lst(FLT))), ('b', TC)], ret=TC),                 # constrained, the failing alternative first
    'u_LfLTC': sig([('a', uni(lst(FLT), lst(TC))), ('b', TC)], ret=TC),                 # ... last
    'u_bLTCLf': sig([('b', TC), ('a', uni(lst(TC), lst(FLT)))]),                        # the TypeVar is tied before the union is reached
    'u_LTCLo': sig([('a', uni(lst(TC), lst(OBJ))), ('b', TC)]),                         # the other alternative accepts everything
    'u_DTBDi': sig([('a', uni(dct(STR, TB), dct(STR, INT))), ('b', TB)], ret=TB),       # bound
    'u_LTBILs': sig([('a', uni(lst(TBI), lst(STR))), ('b', TBI)], ret=TBI),             # bound=int (bool is a subclass)
    'u_LTFLi': sig([('a', uni(lst(TF), lst(INT))), ('b', TF)]),                         # bound given by name
    'u_TupTC': sig([('a', uni(tup(TC, TC), tup(OBJ, OBJ))), ('b', TC)]),                # fixed-length tuple alternatives
    'u_LLTLs': sig([('a', uni(lst(T), lst(STR))), ('b', T)], ret=T),                    # unconstrained (a class parameter on Box / Pair)
    'u_LSLs': sig([('a', uni(lst(S), dct(STR, INT))), ('b', S)], ret=S),                # method-level, alternatives of different containers
    'u_nest': sig([('a', lst(uni(lst(TBI), lst(STR)))), ('b', TBI)]),                   # the union at a nested position
    'u_OLTC': sig([('a', opt(lst(TC))), ('b', TC)], ret=TC),                            # Optional
    'u_3': sig([('a', uni(lst(TC), lst(FLT), NONE)), ('b', TC)]),                       # three members
    'u_ret': sig([('b', TC)], ret=uni(lst(TC), lst(FLT))),                              # the union is the result
    'u_two': sig([('a', uni(lst(TC), dct(STR, TC))), ('b', TC)]),                       # two TypeVar alternatives (modelled, not claimed)
    'u_TCP': sig([('a', uni(lst(TCP), lst(INT))), ('b', TCP)], ret=TCP),                # constrained by user classes
}

# ---- variadic parameters annotated with TypeVars
VARIADIC = {
    'v_kT': sig([('a', T)], ret=T, vk=('kwargs', T)),
    'v_kLT': sig([('a', T)], ret=T, vk=('options', lst(T))),
    'v_aT': sig([], va=T),
    'v_aTkT': sig([], va=T, vk=('kwargs', T)),
    'v_TaT': sig([('a', T)], va=T),
    'v_k0T': sig([], vk=('entries', T)),
    'v_kS': sig([('a', S)], vk=('kw', S)),
    'v_kOT': sig([('a', T)], vk=('kwargs', opt(T))),
    'v_kTC': sig([('a', TC)], vk=('kwargs', TC)),
    'v_kDT': sig([], vk=('kwargs', dct(STR, T))),
    'v_aLSkS': sig([('a', S)], va=lst(S), vk=('args_', S)),
    'v_kTret': sig([], ret=T, vk=('kwargs', T)),
}
# keys of extra keyword arguments: the names of the variadic parameters themselves, of other parameters of the catalogue, neutral ones
KEY_POOL = ['args', 'kwargs', 'kw', 'options', 'entries', 'args_', 'other', 'x', 'b', 'item', 'key', 'value']


def free_keys(s):
    """keyword names a call may use for extra keyword arguments: every name that is not a named parameter of the function"""
    taken = {n for n, _ in s['ps']} | {'r', 'self', 'cls'}
    return [k for k in KEY_POOL if k not in taken]


def fill_with(a, v):
    """a value built along the annotation with `v` at every TypeVar position"""
    k = a[0]
    if k == 'tv':
        return v
    if k == 'cls':
        return inst(CL[a[1]]) if CL[a[1]] in INST else vlist()
    if k == 'any':
        return inst('int')
    if k in ('list',):
        return vlist(fill_with(a[1], v))
    if k == 'tuplevar':
        return vtup(fill_with(a[1], v))
    if k == 'dict':
        return vdict([fill_with(a[1], v), fill_with(a[2], v)])
    if k == 'tuple':
        return vtup(*[fill_with(x, v) for x in a[1]])
    if k == 'union':
        tvm = [x for x in a[1] if ann_tvs(x)]
        return fill_with(tvm[0] if tvm else a[1][0], v)
    return clsobj('C1')


ONE_TV_TWO_POS = ['m_TT', 'm_TOT', 'm_ret', 'm_LT', 'm_TDT', 'm_TupTT', 'm_TTupIT', 'm_LOT', 'm_OLT', 'm_UTI', 'm_TCTC', 'm_TCO_', 'm_TCP',
                  'm_TBTB', 'm_TBO', 'm_TBI', 'm_TFTF', 'm_TFO', 'm_CN', 'm_CO', 'm_COret', 'm_VOV', 'm_SS', 'm_Sret']
SINGLE_PARAM = ['m_T', 'm_LT', 'm_OT', 'm_DT', 'm_TupTT', 'm_TupV', 'm_retonly', 'm_S', 'm_TC', 'm_TB', 'm_TF']

PROBE = [inst('int'), inst('bool'), inst('str'), inst('float'), VNONE, inst('object'), inst('P'), inst('C1'), inst('C2'), inst('G'), inst('U'),
         vlist(), vlist(inst('int')), vtup(inst('int'), inst('str')), vdict([inst('str'), inst('int')]), clsobj('C1')]
XS = [INT, STR, cls('bool'), PP, cls('C1'), OBJ, NONE, cls('float'), uni(INT, STR), opt(INT), opt(PP), lst(INT), lst(PP), dct(STR, INT),
      tup(INT, STR), tupv(INT), ANY, cls('list'), lst(opt(INT)), typ(PP)]


def value_pair_for(s, v1, v2):
    """fill a catalogue signature with two values for its two TypeVar positions (containers built around them)"""
    vals, r = {}, None
    pos = [v1, v2]

    def fill(a):
        k = a[0]
        if k == 'tv':
            return pos.pop(0) if pos else v2
        if k == 'cls':
            return {'int': inst('int'), 'str': inst('str'), 'NoneType': VNONE, 'object': inst('object')}.get(CL[a[1]], inst(CL[a[1]]) if CL[a[1]] in INST else vlist())
        if k == 'any':
            return inst('int')
        if k == 'list':
            return vlist(fill(a[1]), fill(a[1])) if len(pos) >= 2 and a[1][0] == 'tv' else vlist(fill(a[1]))
        if k == 'tuplevar':
            return vtup(fill(a[1]))
        if k == 'dict':
            return vdict([fill(a[1]), fill(a[2])])
        if k == 'tuple':
            return vtup(*[fill(x) for x in a[1]])
        if k == 'union':
            tvm = [x for x in a[1] if ann_tvs(x)]
            return fill(tvm[0]) if tvm else fill(a[1][0])
        if k == 'type':
            return clsobj('C1')
        raise ValueError(a)
    for n, a in s['ps']:
        vals[n] = fill(a)
    if s['ret'] is not None:
        r = fill(s['ret'])
    return vals, r


# ---- random generation

def related(rng, c, how):
    """a class name related to class name c as requested"""
    if how == 'same':
        return c
    subs = [d for d in INST if d != c and _sub(d, c)]
    sups = [d for d in INST if d != c and _sub(c, d)]
    unrel = [d for d in INST if not _sub(d, c) and not _sub(c, d)]
    pool = {'sub': subs, 'sup': sups, 'unrel': unrel}[how]
    return rng.choice(pool) if pool else c


def rand_value(rng, depth=2):
    r = rng.random()
    if depth <= 0 or r < 0.6:
        return inst(rng.choice(INST + ['int', 'str', 'P', 'C1']))
    if r < 0.75:
        return vlist(*[rand_value(rng, depth - 1) for _ in range(rng.randint(0, 3))])
    if r < 0.85:
        return vtup(*[rand_value(rng, depth - 1) for _ in range(rng.randint(0, 3))])
    if r < 0.95:
        ks = rng.sample(['int', 'str', 'NoneType', 'P', 'float'], rng.randint(0, 2))
        return vdict(*[[inst(k), rand_value(rng, depth - 1)] for k in ks])
    return clsobj(rng.choice(['int', 'P', 'C1', 'U', 'bool', 'list']))


def value_of_class(rng, cid):
    n = CL[cid]
    if n in INST:
        return inst(n)
    if n == 'list':
        return vlist(*[rand_value(rng, 1) for _ in range(rng.randint(0, 2))])
    if n == 'tuple':
        return vtup(*[rand_value(rng, 1) for _ in range(rng.randint(0, 2))])
    if n == 'dict':
        return vdict(*[[inst('str'), rand_value(rng, 1)] for _ in range(rng.randint(0, 1))])
    if n == 'type':
        return clsobj(rng.choice(['int', 'P', 'C1', 'U']))
    return inst('object')


def conforming(rng, a, sigma, depth=3, gx=None):
    """a value built along the annotation; sigma: TypeVar id -> runtime class id chosen for this call; gx: class parameter ->
    annotation X of the instance.  Mostly conforming, with near misses at every position."""
    k = a[0]
    miss = rng.random() < 0.07
    if miss and depth > 0:
        return rand_value(rng, 1)
    if k == 'tv' and gx and a[1] in gx:
        return conforming(rng, gx[a[1]], {}, max(depth - 1, 0)) if rng.random() < 0.85 else rand_value(rng, 1)
    if k == 'tv':
        t = a[1]
        if t not in sigma:
            d = TVS[t][2]
            if d['cs'] and rng.random() < 0.85:
                sigma[t] = rng.choice(d['cs'])
            elif d['b'] is not None and rng.random() < 0.85:
                sigma[t] = IDX[related(rng, CL[d['b']], rng.choice(['same', 'sub', 'sub']))]
            else:
                sigma[t] = rng.choice([IDX[n] for n in INST] + [IDX['int'], IDX['P'], IDX['C1'], IDX['list'], IDX['tuple'], IDX['type']])
        c = sigma[t]
        how = rng.choice(['same'] * 7 + ['sub', 'sup', 'unrel'])
        if how == 'same' or CL[c] not in INST:
            return value_of_class(rng, c) if how == 'same' or rng.random() < 0.5 else rand_value(rng, 1)
        return inst(related(rng, CL[c], how))
    if k == 'cls':
        n = CL[a[1]]
        if n in INST:
            return inst(related(rng, n, rng.choice(['same', 'same', 'sub'])))
        return value_of_class(rng, a[1])
    if k == 'any':
        return rand_value(rng, 1)
    if k == 'list':
        return vlist(*[conforming(rng, a[1], sigma, depth - 1, gx) for _ in range(rng.choice([0, 1, 2, 2, 3]))])
    if k == 'tuplevar':
        return vtup(*[conforming(rng, a[1], sigma, depth - 1, gx) for _ in range(rng.choice([0, 1, 2, 3]))])
    if k == 'dict':
        n = rng.choice([0, 1, 1, 2])
        keys = []
        for _ in range(n):
            kv = conforming(rng, a[1], sigma, depth - 1, gx)
            if kv[0] == 'inst' and CL[kv[1]] != 'object' and kv not in keys:
                keys.append(kv)
        return vdict(*[[kv, conforming(rng, a[2], sigma, depth - 1, gx)] for kv in keys])
    if k == 'tuple':
        items = [conforming(rng, x, sigma, depth - 1, gx) for x in a[1]]
        r = rng.random()
        if r < 0.06:
            items = items[:-1]
        elif r < 0.1:
            items.append(rand_value(rng, 0))
        return vtup(*items)
    if k == 'union':
        if rng.random() < 0.1:
            return rand_value(rng, 1)
        if rng.random() < 0.3 and any(ann_tvs(x) for x in a[1]):
            # a value for one alternative whose elements do not follow the classes chosen for this call: the alternative may fail on a
            # constraint / bound / class half-way while another alternative accepts
            return conforming(rng, rng.choice(a[1]), {}, depth - 1, gx)
        return conforming(rng, rng.choice(a[1]), sigma, depth - 1, gx)
    if k == 'type':
        return clsobj(rng.choice(['int', 'P', 'C1', 'U', 'G', 'bool']))
    raise ValueError(a)


def rand_ann(rng, tvs, depth):
    r = rng.random()
    if depth <= 0 or r < 0.35:
        return tv(rng.choice(tvs)) if rng.random() < 0.7 else rng.choice([INT, STR, PP, OBJ, cls('C1'), ANY, NONE, cls('float')])
    if r < 0.5:
        return lst(rand_ann(rng, tvs, depth - 1))
    if r < 0.6:
        return dct(rng.choice([STR, INT, tv(rng.choice(tvs))]), rand_ann(rng, tvs, depth - 1))
    if r < 0.7:
        return tup(*[rand_ann(rng, tvs, depth - 1) for _ in range(rng.randint(1, 3))])
    if r < 0.75:
        return tupv(rand_ann(rng, tvs, depth - 1))
    if r < 0.88:
        a = rand_ann(rng, tvs, depth - 1)
        return a if a[0] in ('union', 'any') or a == NONE else opt(a)
    if r < 0.91 and depth >= 1:
        # alternatives that are containers: one with a TypeVar inside, the others TypeVar-free (sometimes a second one with TypeVars)
        t = tv(rng.choice(tvs))
        mk = rng.choice([lst, lst, tupv, lambda x: dct(STR, x), lambda x: tup(x, x)])
        ms = [mk(t)]
        for _ in range(rng.randint(1, 2)):
            other = rng.choice([lst, lst, tupv, lambda x: dct(STR, x), lambda x: tup(x, x)])(
                rng.choice([INT, STR, OBJ, PP, cls('float'), cls('C1')] + ([tv(rng.choice(tvs))] if rng.random() < 0.2 else [])))
            if other not in ms:
                ms.append(other)
        if rng.random() < 0.15:
            ms.append(NONE)
        rng.shuffle(ms)
        return uni(*ms) if len(ms) >= 2 else ms[0]
    if r < 0.96:
        ms = []
        for _ in range(rng.randint(2, 3)):
            a = rand_ann(rng, tvs, depth - 1)
            if a[0] not in ('union', 'any') and a not in ms:
                ms.append(a)
        return uni(*ms) if len(ms) >= 2 else (ms[0] if ms else INT)
    return typ(rng.choice([tv(rng.choice(tvs)), PP, ANY, INT]))


def rand_sig(rng):
    pool = rng.choice([['T'], ['T', 'S'], ['T', 'V'], ['S'], ['T', 'TC'], ['TB', 'T'], ['TF'], ['TCN', 'T'], ['TCO'], ['TC'], ['TB'], ['TCP', 'T'], ['TBI'],
                       ['T', 'S', 'V']])
    n = rng.choice([1, 2, 2, 3])
    ps = [('abc'[i], rand_ann(rng, pool, rng.choice([0, 1, 1, 2, 3]))) for i in range(n)]
    ret = rand_ann(rng, pool, rng.choice([0, 0, 1, 2])) if rng.random() < 0.3 else None
    defs = None
    r = rng.random()
    if r < 0.3:
        sigma = {}
        defs = {nm: conforming(rng, a, sigma) for nm, a in ps[n - rng.randint(1, n):]}
    elif r < 0.45:
        # variadic parameters annotated with the TypeVars of the signature (bare or one container deep)
        va = rand_ann(rng, pool, rng.choice([0, 0, 1])) if rng.random() < 0.5 else None
        vk = (rng.choice(['kwargs', 'kwargs', 'kw', 'options', 'entries', 'args_']), rand_ann(rng, pool, rng.choice([0, 0, 1]))) if (va is None or rng.random() < 0.6) else None
        return sig(ps[:rng.choice([0, 1, 1, n])], ret, va=va, vk=vk)
    return sig(ps, ret, defs)


def rand_call(rng, i, s, gx=None, kind=None):
    if variadic(s):
        sigma = {}
        vals = {n: conforming(rng, a, sigma, 3, gx) for n, a in s['ps']}
        st = {'i': i, 'sig': s, 'vals': vals, 'r': None}
        if 'va' in s and kind not in ('static', 'classm') and rng.random() < 0.7:
            # static and class methods are called without the positional arguments by the library: keyword calls only there
            pos = [conforming(rng, s['va'], sigma, 2, gx) for _ in range(rng.choice([1, 1, 2, 3]))]
            st['pos'] = pos
        if 'vk' in s:
            keys = free_keys(s)
            own = [k for k in ('args', s['vk'][0]) if k in keys]
            picked = []
            for _ in range(rng.choice([0, 1, 1, 2, 3])):
                k = rng.choice(own) if rng.random() < 0.4 else rng.choice(keys)
                if k not in picked:
                    picked.append(k)
            if picked:
                st['xkw'] = [[k, conforming(rng, s['vk'][1], sigma, 2, gx)] for k in picked]
        st['r'] = conforming(rng, s['ret'], sigma, 3, gx) if s['ret'] is not None else None
        return st
    sigma = {}
    defs = s.get('defs') or {}
    omitted = {n for n in defs if rng.random() < 0.6}
    for n, a in s['ps']:
        if n in omitted and a[0] == 'tv' and not (gx and a[1] in gx):
            sigma.setdefault(a[1], val_class(defs[n]))      # the other values of the call mostly follow the default
    vals = {n: conforming(rng, a, sigma, 3, gx) for n, a in s['ps'] if n not in omitted}
    r = conforming(rng, s['ret'], sigma, 3, gx) if s['ret'] is not None else None
    return {'i': i, 'sig': s, 'vals': vals, 'r': r}


def class_params(rng, d):
    """class parameter -> X for a parametrised instance (sometimes withheld: then the values are drawn per call)"""
    if d['cls'] not in ('Box', 'BoxI', 'Pair') or rng.random() < 0.15:
        return None
    gx = {TV['T']: d['X'][0]}
    if d['cls'] == 'Pair':
        gx[TV['S']] = d['X'][1]
    return gx


def rand_inst(rng):
    c = rng.choice(['Box'] * 6 + ['BoxI'] * 2 + ['Pair'] * 2 + ['Raw', 'NG', 'NG', 'Direct', 'plain', 'plain', 'static', 'classm'])
    d = {'cls': c}
    if c in ('Box', 'BoxI'):
        d['X'] = [rng.choice(XS)]
    elif c == 'Pair':
        d['X'] = [rng.choice(XS), rng.choice(XS)]
    if c in ('Box', 'Pair'):
        d['warm'] = rng.random() < 0.9
    return d


def rand_history(rng, sigs, nmax=12):
    insts = [rand_inst(rng) for _ in range(rng.choice([1, 1, 2, 3]))]
    steps = []
    inited = set()
    local = [rng.choice(sigs) for _ in range(rng.randint(1, 4))]     # few signatures per history: repeated calls of the same method
    for _ in range(rng.randint(1, nmax)):
        i = rng.randrange(len(insts))
        d = insts[i]
        if d['cls'] == 'BoxI' and i not in inited:
            inited.add(i)
            steps.append({'i': i, 'sig': INIT, 'vals': {'a': rand_value(rng, 1)}, 'op': 'init'})
            continue
        s = rng.choice(local)
        steps.append(rand_call(rng, i, s, class_params(rng, d), d['cls']))
    return insts, steps


# ---- nested calls: a method body that calls other checked methods / functions before it returns

def pick_target(rng, insts, how, parent):
    """index of the instance a nested call goes to (appended to `insts` when there is none of the wanted kind yet)"""
    if how == 'self' and insts[parent]['cls'] in INSTANCE_KINDS:
        return parent
    if how in ('self', 'obj'):
        pool = [j for j, e in enumerate(insts) if e['cls'] in INSTANCE_KINDS]
        if not pool:
            insts.append({'cls': 'Box', 'X': [rng.choice(XS)], 'warm': True})
            return len(insts) - 1
        return rng.choice(pool)
    for j, e in enumerate(insts):
        if e['cls'] == how:
            return j
    insts.append({'cls': how})
    return len(insts) - 1


def rand_shape(rng, sigs, lower, leaves):
    """signature + the nested calls of the body: [(how, shape)]"""
    kids = []
    for _ in range(rng.choice([1, 1, 2, 2, 3])):
        how = rng.choice(['self'] * 5 + ['obj'] * 3 + ['plain', 'plain', 'static', 'classm'])
        kids.append((how, rng.choice(lower) if rng.random() < 0.65 else rng.choice(leaves)))
    return {'sig': rng.choice(sigs), 'kids': kids}


def shape_pool(rng, sigs, sizes):
    """bodies are written out in the generated module, so the shapes come from a pool: level k calls shapes of level < k"""
    leaves = [{'sig': s_, 'kids': []} for s_ in sigs]
    levels, lower = [], leaves
    for n in sizes:
        cur = [rand_shape(rng, sigs, lower, leaves) for _ in range(n)]
        levels.append(cur)
        lower = cur
    return [x for lv in levels for x in lv]


def instantiate(rng, shape, insts, i, how=None):
    d = insts[i]
    st = rand_call(rng, i, shape['sig'], class_params(rng, d), d['cls'])
    if how:
        st['how'] = how
    kids = [instantiate(rng, sub, insts, pick_target(rng, insts, h, i), h) for h, sub in shape['kids']]
    if kids:
        st['kids'] = kids
    return st


def rand_nested_history(rng, pool, leaf_sigs):
    insts = [rand_inst(rng) for _ in range(rng.choice([1, 2, 2, 3]))]
    steps = [{'i': i, 'sig': INIT, 'vals': {'a': rand_value(rng, 1)}, 'op': 'init'} for i, d in enumerate(insts) if d['cls'] == 'BoxI']
    for _ in range(rng.choice([1, 1, 2, 3])):
        i = rng.randrange(len(insts))
        if rng.random() < 0.8:
            steps.append(instantiate(rng, rng.choice(pool), insts, i))
        else:
            steps.append(rand_call(rng, i, rng.choice(leaf_sigs), class_params(rng, insts[i]), insts[i]['cls']))
    return insts, steps


def nested_directed(rng, quick):
    """the outer call binds / re-uses a TypeVar in its parameters and in its result; in between its body calls another checked
    function — on the same instance, on another instance, a plain function, a static / class method, to depth 2 — with values that
    agree or clash with the outer bindings.  Every outer kind x outer signature x body x value combination (quick: a seeded slice)."""
    cat = CATALOGUE
    I, Sx = inst('int'), inst('str')
    outer_sigs = ['m_Sret', 'm_ret', 'm_SS', 'm_TT', 'm_TOT', 'm_retonly', 'm_COret', 'm_LS', 'd_SS', None]     # None: no parameter at all
    outer_vals = [I, Sx, inst('bool'), inst('C1')]
    kinds = [{'cls': 'NG'}, {'cls': 'Box', 'X': [INT], 'warm': True}, {'cls': 'Box', 'X': [STR], 'warm': False}, {'cls': 'Pair', 'X': [STR, INT], 'warm': True},
             {'cls': 'Direct'}, {'cls': 'Raw'}, {'cls': 'plain'}, {'cls': 'static'}, {'cls': 'classm'}]
    others = [{'cls': 'Box', 'X': [STR], 'warm': True}, {'cls': 'NG'}, {'cls': 'Box', 'X': [INT], 'warm': True}, {'cls': 'Raw'}]

    def leaf(how, name, v):
        sg = cat[name] if name else WARM
        vals, r = value_pair_for(sg, v, v) if name else ({}, None)
        return (how, sg, vals, r, [])
    bodies = []
    for v in (I, Sx):
        bodies += [[leaf('self', 'm_S', v)], [leaf('self', 'm_T', v)], [leaf('obj', 'm_S', v)], [leaf('plain', 'm_S', v)],
                   [leaf('static', 'm_S', v)], [leaf('classm', 'm_T', v)], [leaf('self', 'm_int', I), leaf('self', 'm_SS', v)],
                   [('self', cat['m_Sret'], {'a': v}, v, [leaf('self', 'm_S', Sx if v is I else I)])],          # depth 2, same instance
                   [('obj', cat['m_ret'], {'a': v}, v, [leaf('plain', 'm_T', I), leaf('self', 'm_S', v)])],      # depth 2, other instance
                   [('self', cat['m_SS'], {'a': v, 'b': v}, None, [('self', cat['m_Sret'], {'a': Sx}, Sx, [leaf('self', 'm_S', I)])])]]   # depth 3
    bodies += [[leaf('self', None, None)], [leaf('obj', None, None)]]
    out = []
    n = 0
    stride = 12 if quick else 1
    off = rng.randrange(stride)
    for name in outer_sigs:
        for bi, body in enumerate(bodies):
            for ki, kd in enumerate(kinds):
                for v1 in outer_vals:
                    for v2 in outer_vals:
                        n += 1
                        if (n + off) % stride:
                            continue
                        sg = cat[name] if name else WARM
                        if name is None:
                            vals, r = {}, None
                        elif sg.get('defs'):
                            vals, r = {'a': v1}, None
                            if v2 is not v1:
                                vals['b'] = v2
                        else:
                            vals, r = value_pair_for(sg, v1, v2)
                        insts = [dict(kd), dict(others[(bi + ki) % len(others)])]

                        def build(parent, spec):
                            how, ksg, kvals, kr, sub = spec
                            j = parent if (how == 'self' and insts[parent]['cls'] in INSTANCE_KINDS) else (1 if how in ('self', 'obj') else None)
                            if j is None:
                                j = next((x for x, e in enumerate(insts) if e['cls'] == how), None)
                                if j is None:
                                    insts.append({'cls': how})
                                    j = len(insts) - 1
                            st = {'i': j, 'how': how, 'sig': ksg, 'vals': dict(kvals), 'r': kr}
                            ks = [build(j, x) for x in sub]
                            if ks:
                                st['kids'] = ks
                            return st
                        root = {'i': 0, 'sig': sg, 'vals': vals, 'r': r, 'kids': [build(0, x) for x in body]}
                        # the same outer call once more afterwards: what the nested calls left behind must not matter either
                        again = {'i': 0, 'sig': sg, 'vals': dict(vals), 'r': r}
                        out.append(mk_case(insts, [root, again] if n % 3 == 0 else [root], 'nest'))
    return out + overlap_directed(rng, quick)


# ---- overlapping calls of ONE function: recursion, live generators, coroutines in flight

OVERLAP = {
    'r_Sret': sig([('a', S)], ret=S, flav='rec'),
    'r_ret': sig([('a', T)], ret=T, flav='rec'),
    'r_SS': sig([('a', S), ('b', S)], flav='rec'),
    'r_TOT': sig([('a', T), ('b', opt(T))], flav='rec'),
    'r_LSret': sig([('a', lst(S))], ret=S, flav='rec'),
    'g_S': sig([('a', S)], ret=S, flav='iter'),
    'g_T': sig([('a', T)], ret=T, flav='iter'),
    'g_T0': sig([], ret=T, flav='iter'),
    'g_S0': sig([], ret=S, flav='iter'),
    'g_Sgen': sig([('a', S)], ret=S, flav='gen'),
    'g_Tgen': sig([], ret=T, flav='gen'),
    'g_LS': sig([('a', lst(S))], ret=S, flav='itb'),
    'g_OT': sig([('a', T)], ret=opt(T), flav='iter'),
    'g_int': sig([], ret=INT, flav='iter'),
    'c_Sret': sig([('a', S)], ret=S, flav='async'),
    'c_ret': sig([('a', T)], ret=T, flav='async', awaits=2),
    'c_SS': sig([('a', S), ('b', S)], flav='async'),
    'c_T0': sig([], ret=T, flav='async'),
    'g_TF': sig([('a', TF)], ret=TF, flav='iter'),          # bound given by name: resolved when the value is yielded (fixed 173abdd)
    'c_TF': sig([('a', TF)], ret=TF, flav='async'),         # ... when the event loop steps the coroutine
}


def sched_step(i, kids, order=None, aio=None):
    """a step whose body (an ordinary checked function `() -> None` on instance / kind i) keeps the calls `kids` in flight: generator calls
    made and advanced in `order`, or (aio) coroutine calls on one event loop: 'gather' - asyncio.gather; 'tasks' - asyncio.create_task for
    each, then awaited (both: round robin of the loop, every coroutine is stepped once before the first one goes on); 'await' - awaited one
    after the other from a coroutine of the generated module (no overlap)"""
    if aio:
        aio = 'gather' if aio is True else aio
        lens = [len(sig_segs(k['sig'], k['vals'], k.get('r'))) for k in kids]
        order = [n for n, ln in enumerate(lens) for _ in range(ln)] if aio == 'await' else [n for _ in range(max(lens)) for n in range(len(kids))]
    st = {'i': i, 'sig': WARM, 'vals': {}, 'r': None, 'kids': kids, 'order': list(order)}
    if aio:
        st['aio'] = aio
    return st


def gen_orders(rng, lens):
    """orders in which generators that need lens[k] advances each (the call, one per yielded value, the final one) can be driven"""
    seq = [k for k, n in enumerate(lens) for _ in range(n)]
    left = list(lens)
    rr = []
    while any(left):
        for k in range(len(lens)):
            if left[k]:
                rr.append(k)
                left[k] -= 1
    # late: the first one is made and asked once before the others exist
    late = [0, 0] + [k for n, k in enumerate(rr) if not (k == 0 and rr[:n + 1].count(0) <= 2)]
    shuffled = list(seq)
    rng.shuffle(shuffled)
    return {'seq': seq, 'zip': rr, 'late': late, 'rev': list(reversed(seq)), 'mix': shuffled}


def overlap_directed(rng, quick):
    """calls of ONE function object that overlap in time, each with its own binding of the TypeVars: (a) recursion to depth 1..3 (the body
    calls the same function again before it returns; chains and two recursive calls in one body); (b) 2..3 live generators of one generator
    function / method (`-> Iterator[T]`, `-> Generator[S, None, None]`, `-> Iterable[S]`, with and without parameters) advanced in
    sequential / alternating / late-start / reversed / shuffled order, yielding conforming and non-conforming values at every position;
    (c) 2..3 coroutines of one coroutine function in flight on one event loop (1..2 awaits).  Every store kind; for methods both through
    `self` and from a plain function.  quick: a seeded slice."""
    cat = OVERLAP
    I, Sx, Cx = inst('int'), inst('str'), inst('C1')
    kinds = [{'cls': 'plain'}, {'cls': 'static'}, {'cls': 'classm'}, {'cls': 'NG'}, {'cls': 'Direct'}, {'cls': 'Box', 'X': [INT], 'warm': True},
             {'cls': 'Box', 'X': [STR], 'warm': False}, {'cls': 'Pair', 'X': [STR, INT], 'warm': True}, {'cls': 'Raw'},
             {'cls': 'Box', 'X': [OBJ], 'warm': True}, {'cls': 'Box', 'X': [uni(INT, STR)], 'warm': False}]     # X that several classes conform to
    out = []
    n = 0
    stride = 4 if quick else 1
    off = rng.randrange(stride)

    def keep():
        nonlocal n
        n += 1
        return (n + off) % stride == 0

    def how_of(d):
        return 'self' if d['cls'] in INSTANCE_KINDS else d['cls']
    # (a) recursion
    rot = [I, Sx, Cx]
    for name in [k for k in cat if k.startswith('r_')]:
        sg = cat[name]
        for kd in kinds:
            for depth in (1, 2, 3):
                for base in range(3):
                    for bad in (None, 0, depth):
                        if not keep():
                            continue
                        node = None
                        for lvl in range(depth, -1, -1):
                            v = rot[(base + lvl) % 3]
                            vals, r = value_pair_for(sg, v, rot[(base + lvl + 1) % 3] if bad == lvl else v)
                            cur = {'i': 0, 'how': 'rec', 'sig': sg, 'vals': vals, 'r': r}
                            if node is not None:
                                cur['kids'] = [node]
                                if lvl == 0 and depth == 2 and base == 1:            # two recursive calls in one body
                                    twin = json.loads(json.dumps(node))
                                    cur['kids'].append(twin)
                            node = cur
                        node.pop('how')
                        out.append(mk_case([dict(kd)], [node], 'rec'))
    # (b) live generators, (c) coroutines in flight
    patterns = [((I, [I, I]), (Sx, [Sx, Sx])), ((I, [I, Sx]), (Sx, [Sx])), ((Sx, [I]), (I, [I, I, I])), ((Cx, [Cx, inst('G')]), (I, [])),
                ((I, [I]), (I, [I, I]), (Sx, [Sx, Sx]))]
    for name in [k for k in cat if k[0] in 'gc']:
        sg = cat[name]
        aio = sg['flav'] == 'async'
        for kd in kinds:
            for via_self in (True, False):
                if not via_self and kd['cls'] not in INSTANCE_KINDS:
                    continue
                for pat in patterns:
                    for oname in (['gather', 'tasks', 'await'] if aio else ['seq', 'zip', 'late', 'rev', 'mix']):
                        if not keep():
                            continue
                        insts = [dict(kd)] if via_self else [{'cls': 'plain'}, dict(kd)]
                        tgt = 0 if via_self else 1
                        kids = []
                        for (a, ys) in pat:
                            vals = {n_: (vlist(a) if an[0] == 'list' else a) for n_, an in sg['ps']}
                            kids.append({'i': tgt, 'how': how_of(kd) if via_self else 'obj', 'sig': sg, 'vals': vals,
                                         'r': (list(ys) if not aio else (ys[0] if ys else a)) if sg['ret'] is not None else None})
                        order = None if aio else gen_orders(rng, [len(k['r']) + 2 for k in kids])[oname]
                        out.append(mk_case(insts, [sched_step(0, kids, order, oname if aio else None)], 'aio' if aio else 'gens'))
    return out


def overlap_pool(rng, sigs, n):
    """(what, signature) pairs for the seeded overlap stream — a bounded pool, since every signature and every body is written out in
    the generated module: a random signature turned into a recursive function / a generator function / a coroutine function"""
    pool = []
    for _ in range(n):
        base = rng.choice(sigs)
        what = rng.choice(['rec', 'gens', 'gens', 'aio'])
        if what == 'rec':
            pool.append((what, dict(base, flav='rec')))
        elif what == 'gens':
            ret = base['ret'] if base['ret'] is not None else rng.choice([tv(t[0]) for t in TVS[:2]] + [INT])
            pool.append((what, sig([(n_, a) for n_, a in base['ps']], ret=ret, flav=rng.choice(GEN_FLAVS))))
        else:
            pool.append((what, sig([(n_, a) for n_, a in base['ps']], ret=base['ret'], flav='async', awaits=rng.choice([1, 1, 2]))))
    return pool


def rand_overlap_history(rng, pool):
    """seeded: recursion trees, generator schedules and coroutine groups over random signatures, values and instances"""
    insts = [rand_inst(rng) for _ in range(rng.choice([1, 1, 2]))]
    steps = [{'i': i, 'sig': INIT, 'vals': {'a': rand_value(rng, 1)}, 'op': 'init'} for i, d in enumerate(insts) if d['cls'] == 'BoxI']
    for _ in range(rng.choice([1, 1, 2])):
        i = rng.randrange(len(insts))
        d = insts[i]
        what, sg = rng.choice(pool)
        if what == 'rec':
            def grow(depth):
                st = rand_call(rng, i, sg, class_params(rng, d))
                if depth > 0:
                    ks = [dict(grow(depth - 1), how='rec') for _ in range(rng.choice([1, 1, 1, 2]))]
                    st['kids'] = ks
                return st
            steps.append(grow(rng.choice([1, 2, 2, 3])))
            continue
        how = 'self' if d['cls'] in INSTANCE_KINDS else d['cls']
        kids = []
        for _k in range(rng.choice([1, 2, 2, 3])):
            gx = class_params(rng, d)
            sigma = {}
            vals = {n: conforming(rng, a, sigma, 3, gx) for n, a in sg['ps']}
            if what == 'gens':
                r = [conforming(rng, sg['ret'], sigma, 2, gx) for _ in range(rng.choice([0, 1, 2, 2, 3]))]
            else:
                r = conforming(rng, sg['ret'], sigma, 3, gx) if sg['ret'] is not None else None
            kids.append({'i': i, 'how': how, 'sig': sg, 'vals': vals, 'r': r})
        order = None if what == 'aio' else rng.choice(list(gen_orders(rng, [len(k['r']) + 2 for k in kids]).values()))
        steps.append(sched_step(i, kids, order, rng.choice(['gather', 'gather', 'tasks', 'await']) if what == 'aio' else None))
    return insts, steps


# ------------------------------------------------------------------ corpus of recorded regions (fixed ones must pass)

def corpus():
    out = []
    one = lambda d, name, vals, r=None: {'i': 0, 'sig': CATALOGUE[name], 'vals': vals, 'r': r}
    plain = [{'cls': 'plain'}]
    box = lambda x: [{'cls': 'Box', 'X': [x], 'warm': True}]
    # fixed d69d53e nestedTypeVarRebinding
    out.append(mk_case(box(PP), [one(0, 'm_LT', {'a': vlist(inst('C1'), inst('C2'))})], 'corpus:fixed:nestedTypeVarRebinding'))
    # fixed 4bcc23b typeVarBoundToBareBuiltin
    out.append(mk_case(plain, [one(0, 'm_TT', {'a': vlist(inst('int')), 'b': vlist(inst('int'))})], 'corpus:fixed:typeVarBoundToBareBuiltin'))
    out.append(mk_case(plain, [one(0, 'm_TT', {'a': vtup(inst('int')), 'b': vtup(inst('str'))})], 'corpus:fixed:typeVarBoundToBareBuiltin'))
    out.append(mk_case(plain, [one(0, 'm_TT', {'a': clsobj('int'), 'b': clsobj('str')})], 'corpus:fixed:typeVarBoundToBareBuiltin'))
    # fixed c00e0a8 boundTypeVarInUnionIgnoresVerdict
    out.append(mk_case(plain, [one(0, 'm_TCO_', {'a': inst('int'), 'b': inst('float')})], 'corpus:fixed:boundTypeVarInUnionIgnoresVerdict'))
    out.append(mk_case(plain, [one(0, 'm_TBO', {'a': inst('C1'), 'b': inst('str')})], 'corpus:fixed:boundTypeVarInUnionIgnoresVerdict'))
    # fixed 411608f anyBindingUsesIsinstance
    out.append(mk_case(box(ANY), [one(0, 'm_T', {'a': inst('int')}), one(0, 'm_OT', {'a': inst('str')})], 'corpus:fixed:anyBindingUsesIsinstance'))
    # fixed 791c0ba forwardRefBoundNeverBinds
    out.append(mk_case(plain, [one(0, 'm_TFTF', {'a': inst('C1'), 'b': inst('C2')})], 'corpus:fixed:forwardRefBoundNeverBinds'))
    out.append(mk_case(plain, [one(0, 'm_TFTF', {'a': inst('C1'), 'b': inst('U')})], 'corpus:fixed:forwardRefBoundNeverBinds'))
    # open regions
    out.append(mk_case(box(INT), [one(0, 'm_S', {'a': inst('int')}), one(0, 'm_S', {'a': inst('str')})], 'corpus:open:methodLevelTypeVarLeaks'))
    out.append(mk_case([{'cls': 'NG'}], [one(0, 'm_TT', {'a': inst('int'), 'b': inst('str')})], 'corpus:open:nonGenericPedanticClassResetsBindings'))
    out.append(mk_case([{'cls': 'NG'}], [one(0, 'm_ret', {'a': inst('int')}, inst('str'))], 'corpus:open:nonGenericPedanticClassResetsBindings'))
    out.append(mk_case(plain, [one(0, 'm_TOT', {'a': inst('int'), 'b': inst('str')})], 'corpus:open:mismatchInsideUnionIsTypeCheck'))
    # nested calls (seeded change w3-C07-1: the dict of a call re-read from the instance attribute on every access).
    # echo(value: S) -> S gets an int and returns a str, its body calls another method of the same instance in between: mismatch required
    kid = lambda how, i, name, vals, r=None, kids=None: dict({'i': i, 'how': how, 'sig': CATALOGUE[name] if name else WARM, 'vals': vals, 'r': r},
                                                            **({'kids': kids} if kids else {}))
    for d in ({'cls': 'NG'}, {'cls': 'Box', 'X': [INT], 'warm': True}, {'cls': 'Pair', 'X': [STR, INT], 'warm': False}):
        out.append(mk_case([dict(d)], [{'i': 0, 'sig': CATALOGUE['m_Sret'], 'vals': {'a': inst('int')}, 'r': inst('str'), 'kids': [kid('self', 0, None, {})]}],
                           'corpus:nested:outerMismatchSurvivesNestedCall'))
        # the nested call binds S to str; the outer call (int in, int out) must still be accepted
        out.append(mk_case([dict(d)], [{'i': 0, 'sig': CATALOGUE['m_Sret'], 'vals': {'a': inst('int')}, 'r': inst('int'),
                                        'kids': [kid('self', 0, 'm_S', {'a': inst('str')})]}], 'corpus:nested:nestedBindingStaysNested'))
    # depth 3 over two instances and a plain function; class-level T of Box[int] next to method-level S
    out.append(mk_case([{'cls': 'Box', 'X': [INT], 'warm': True}, {'cls': 'NG'}, {'cls': 'plain'}],
                       [{'i': 0, 'sig': CATALOGUE['m_TS'], 'vals': {'a': inst('int'), 'b': inst('str')}, 'r': None, 'kids': [
                           kid('obj', 1, 'm_Sret', {'a': inst('float')}, inst('float'), [kid('plain', 2, 'm_SS', {'a': inst('int'), 'b': inst('int')}),
                                                                                        kid('obj', 0, 'm_ret', {'a': inst('int')}, inst('str'))]),
                           kid('self', 0, 'm_S', {'a': inst('C1')})]}], 'corpus:nested:depth3'))
    # overlapping calls of ONE function (seeded change w4-C04-2: one binding dict per decorated function, emptied when a call starts)
    I_, S_ = inst('int'), inst('str')
    rec = OVERLAP['r_ret']
    out.append(mk_case([{'cls': 'plain'}], [{'i': 0, 'sig': rec, 'vals': {'a': I_}, 'r': I_, 'kids': [
        {'i': 0, 'how': 'rec', 'sig': rec, 'vals': {'a': S_}, 'r': S_}]}], 'corpus:overlap:recursionWithAnotherBinding'))
    g = OVERLAP['g_T']
    two = [{'i': 0, 'how': 'plain', 'sig': g, 'vals': {'a': I_}, 'r': [I_, I_]}, {'i': 0, 'how': 'plain', 'sig': g, 'vals': {'a': S_}, 'r': [S_, S_]}]
    out.append(mk_case([{'cls': 'plain'}], [sched_step(0, two, [0, 1, 0, 1, 0, 1, 0, 1])], 'corpus:overlap:twoLiveGenerators'))
    co = OVERLAP['c_Sret']
    out.append(mk_case([{'cls': 'plain'}], [sched_step(0, [{'i': 0, 'how': 'plain', 'sig': co, 'vals': {'a': I_}, 'r': I_},
                                                          {'i': 0, 'how': 'plain', 'sig': co, 'vals': {'a': S_}, 'r': S_}], aio='gather')],
                       'corpus:overlap:twoCoroutinesInFlight'))
    # generator methods use the store of their call / instance (seeded change w4-C07-2: the wrapper was handed the private dict)
    box = {'cls': 'Box', 'X': [INT], 'warm': True}
    each = OVERLAP['g_T0']
    out.append(mk_case([dict(box)], [sched_step(0, [{'i': 0, 'how': 'self', 'sig': each, 'vals': {}, 'r': [S_]}], [0, 0, 0])], 'corpus:generator:boxIntYieldsStr'))
    out.append(mk_case([dict(box)], [sched_step(0, [{'i': 0, 'how': 'self', 'sig': each, 'vals': {}, 'r': [I_, I_]}], [0, 0, 0, 0])], 'corpus:generator:boxIntYieldsInts'))
    conv = OVERLAP['g_S']
    out.append(mk_case([{'cls': 'NG'}], [sched_step(0, [{'i': 0, 'how': 'self', 'sig': conv, 'vals': {'a': I_}, 'r': [S_]}], [0, 0, 0])],
                       'corpus:generator:methodLevelTypeVarSharedWithYields'))
    # fixed 173abdd forwardRefBoundInDeferredCheck: a TypeVar bound given by name in a generator function (the yielded value was checked
    # without any context) and in a coroutine stepped by the event loop (the context was the frame of the loop): conforming values
    C1_ = inst('C1')
    out.append(mk_case([{'cls': 'plain'}], [sched_step(0, [{'i': 0, 'how': 'plain', 'sig': OVERLAP['g_TF'], 'vals': {'a': C1_}, 'r': [C1_]}], [0, 0, 0])],
                       'corpus:fixed:forwardRefBoundInDeferredCheck'))
    out.append(mk_case([{'cls': 'plain'}], [sched_step(0, [{'i': 0, 'how': 'plain', 'sig': OVERLAP['c_TF'], 'vals': {'a': C1_}, 'r': C1_}], aio='gather')],
                       'corpus:fixed:forwardRefBoundInDeferredCheck'))
    out.append(mk_case([{'cls': 'plain'}], [sched_step(0, [{'i': 0, 'how': 'plain', 'sig': OVERLAP['c_TF'], 'vals': {'a': C1_}, 'r': C1_}], aio='tasks')],
                       'corpus:fixed:forwardRefBoundInDeferredCheck'))
    # fixed (generic_params_from_parameters): genericParamsFromFirstBase - the accessor zipped the type arguments of the FIRST original base with
    # the arguments of __orig_class__ (raw IndexError / X never read / swapped); genericSubclassNotRecognised - generic only through a user base
    put = lambda v: {'i': 0, 'sig': CATALOGUE['m_T'], 'vals': {'a': v}, 'r': None}
    shp = lambda sid, X, init=False: [{'cls': 'Shape', 'shape': sid, 'init': init, 'X': X}]
    for sid in ('DsG', 'MG', 'ML', 'LL'):
        out.append(mk_case(shp(sid, [INT]), [put(inst('int'))], 'corpus:fixed:genericParamsFromFirstBase'))
        out.append(mk_case(shp(sid, [INT]), [put(inst('str'))], 'corpus:fixed:genericParamsFromFirstBase'))
    out.append(mk_case(shp('DGr', [STR, INT]), [{'i': 0, 'sig': CATALOGUE['m_S'], 'vals': {'a': inst('str')}, 'r': None}], 'corpus:fixed:genericParamsFromFirstBase'))
    out.append(mk_case(shp('DGr', [STR, INT]), [{'i': 0, 'sig': CATALOGUE['m_S'], 'vals': {'a': inst('int')}, 'r': None}], 'corpus:fixed:genericParamsFromFirstBase'))
    out.append(mk_case(shp('DsG', [INT], True), [{'i': 0, 'op': 'init', 'sig': WARM, 'vals': {}, 'kids': [{'i': 0, 'how': 'self', 'sig': WARM, 'vals': {}, 'r': None}]},
                                               put(inst('int'))], 'corpus:fixed:genericParamsFromFirstBase'))
    out.append(mk_case(shp('UB', [INT]), [put(inst('str'))], 'corpus:fixed:genericSubclassNotRecognised'))
    out.append(mk_case(shp('UB', [INT]), [put(inst('int')), put(inst('str')), put(inst('int'))], 'corpus:fixed:genericSubclassNotRecognised'))
    return out


# ------------------------------------------------------------------ case streams

def cases(rng, tier):
    out = []
    quick = tier == 'quick'
    cat = CATALOGUE
    # (1) one TypeVar at two positions x all pairs of probe values, on the three per-call / per-access stores
    for name in ONE_TV_TWO_POS:
        for k, (v1, v2) in enumerate(itertools.product(PROBE, PROBE)):
            vals, r = value_pair_for(cat[name], v1, v2)
            kinds = ['plain', 'NG', 'Direct', 'static', 'classm']
            for c in (kinds if not quick else [kinds[(k + k // 16) % 5]]):
                out.append(mk_case([{'cls': c}], [{'i': 0, 'sig': cat[name], 'vals': vals, 'r': r}], f'pairs/{c}'))
    # (2) Box[X]() x single-parameter methods x probe values; every method twice in a row (history of 2)
    for xi, x in enumerate(XS):
        for name in SINGLE_PARAM:
            for k, v in enumerate(PROBE):
                if quick and (xi + k) % 3:
                    continue
                vals, r = value_pair_for(cat[name], v, v)
                st = {'i': 0, 'sig': cat[name], 'vals': vals, 'r': r}
                out.append(mk_case([{'cls': 'Box', 'X': [x], 'warm': k % 4 != 0}], [st, dict(st)], 'boxX'))
    # (3) method-level TypeVar on one instance / across two instances: all ordered pairs
    for name in ['m_S', 'm_LS', 'm_V', 'm_VOV']:
        for k, (v1, v2) in enumerate(itertools.product(PROBE[:12], PROBE[:12])):
            if quick and k % 2:
                continue
            a1, r1 = value_pair_for(cat[name], v1, v1)
            a2, r2 = value_pair_for(cat[name], v2, v2)
            two = [{'cls': 'Box', 'X': [INT], 'warm': True}, {'cls': 'Box', 'X': [INT], 'warm': True}]
            out.append(mk_case(two[:1], [{'i': 0, 'sig': cat[name], 'vals': a1, 'r': r1}, {'i': 0, 'sig': cat[name], 'vals': a2, 'r': r2}], 'leak/same'))
            out.append(mk_case(two, [{'i': 0, 'sig': cat[name], 'vals': a1, 'r': r1}, {'i': 1, 'sig': cat[name], 'vals': a2, 'r': r2}], 'leak/other'))
            out.append(mk_case([{'cls': 'plain'}], [{'i': 0, 'sig': cat[name], 'vals': a1, 'r': r1}, {'i': 0, 'sig': cat[name], 'vals': a2, 'r': r2}], 'repeat/plain'))
    # (4) BoxI[X](a=v): what __init__ leaves behind never decides a later call
    for xi, x in enumerate(XS):
        for k, (v0, v) in enumerate(itertools.product(PROBE[:11], PROBE[:11])):
            if (xi * 7 + k) % (11 if quick else 2):
                continue
            name = ['m_T', 'm_OT', 'm_LT', 'm_ret'][k % 4]
            vals, r = value_pair_for(cat[name], v, v)
            out.append(mk_case([{'cls': 'BoxI', 'X': [x]}], [{'i': 0, 'sig': INIT, 'vals': {'a': v0}, 'op': 'init'},
                                                           {'i': 0, 'sig': cat[name], 'vals': vals, 'r': r}], 'boxI'))
    # (5) the constructor-scan stream and unparametrised instances
    for k, v in enumerate(PROBE[:6]):
        out.append(mk_case([{'cls': 'Raw'}], [{'i': 0, 'sig': cat['m_T'], 'vals': {'a': v}, 'op': 'scan'}], 'scan'))
        out.append(mk_case([{'cls': 'Raw'}], [{'i': 0, 'sig': cat['m_T'], 'vals': {'a': v}}, {'i': 0, 'sig': cat['m_T'], 'vals': {'a': PROBE[(k + 1) % 6]}}], 'raw'))
    # (5b) hand-picked values for the order-sensitive parts of _check_union (split computed at entry, every member evaluated)
    I, Sx, Ux = inst('int'), inst('str'), inst('U')
    special = [
        ('m_UTupT', {'a': vtup(I, Sx)}), ('m_UTupT', {'a': vtup(I, I)}), ('m_UTupT', {'a': I}), ('m_UTupT', {'a': vtup(I)}),
        ('m_ULoLT', {'a': vlist(I), 'b': Sx}), ('m_ULoLT', {'a': vlist(I), 'b': I}), ('m_ULoLT', {'a': vlist(), 'b': Sx}), ('m_ULoLT', {'a': vlist(I, Sx), 'b': I}),
        ('m_TULoLT', {'a': I, 'b': vlist(Sx)}), ('m_TULoLT', {'a': I, 'b': vlist(I)}), ('m_TULoLT', {'a': I, 'b': vlist(I, Ux)}), ('m_TULoLT', {'a': I, 'b': Sx}),
        ('m_UTSu', {'a': I}), ('m_UTSb', {'a': I, 'b': Sx}), ('m_UTSb', {'a': I, 'b': I}), ('m_UTS', {'a': I, 'b': Sx, 'c': Ux}), ('m_UTS', {'a': I, 'b': Sx, 'c': Sx}),
        ('m_TyP', {'a': clsobj('C1'), 'b': clsobj('int')}), ('m_TyP', {'a': clsobj('U'), 'b': clsobj('int')}), ('m_TyP', {'a': inst('P'), 'b': clsobj('int')}),
        ('m_TyP', {'a': clsobj('P'), 'b': I}), ('m_DTT', {'a': vdict([I, I], [Sx, Sx])}), ('m_DTT', {'a': vdict([I, Sx])}), ('m_LLT', {'a': vlist(vlist(I), vlist(Sx))}),
        ('m_LLT', {'a': vlist(vlist(I), vlist(), vlist(I, I))}), ('m_OTupTT', {'a': I, 'b': vtup(I, Sx)}), ('m_OTupTT', {'a': I, 'b': VNONE}), ('m_OTupTT', {'a': I, 'b': vtup(I, I)}),
    ]
    for name, vals in special:
        for d in ({'cls': 'plain'}, {'cls': 'Direct'}, {'cls': 'NG'}, {'cls': 'static'}, {'cls': 'Box', 'X': [INT], 'warm': True}, {'cls': 'Box', 'X': [OBJ], 'warm': False},
                  {'cls': 'Pair', 'X': [STR, INT], 'warm': True}, {'cls': 'Raw'}):
            st = {'i': 0, 'sig': cat[name], 'vals': vals, 'r': None}
            out.append(mk_case([dict(d)], [st, dict(st)], 'special'))
    # (5c) parameters with a DEFAULT value: calls that omit them, repeated on the same function / method and across instances
    dnames = [n for n in cat if n.startswith('d_')]
    dkinds = [{'cls': 'plain'}, {'cls': 'NG'}, {'cls': 'Direct'}, {'cls': 'static'}, {'cls': 'classm'}, {'cls': 'Box', 'X': [INT], 'warm': True},
              {'cls': 'Box', 'X': [STR], 'warm': True}, {'cls': 'Pair', 'X': [STR, INT], 'warm': True}, {'cls': 'Raw'}]
    for name in dnames:
        sg = cat[name]
        free = [n for n, _ in sg['ps'] if n not in sg['defs']]
        for k, (v1, v2) in enumerate(itertools.product(PROBE[:11], PROBE[:11])):
            if quick and (k % 5):
                continue
            r1 = v1 if sg['ret'] is not None else None
            r2 = v2 if sg['ret'] is not None else None
            first = {'sig': sg, 'vals': {n: v1 for n in free}, 'r': r1}
            second = {'sig': sg, 'vals': {n: v2 for n in free}, 'r': r2}
            third = {'sig': sg, 'vals': dict({n: v2 for n in free}, **sg['defs']), 'r': r2}          # the default passed explicitly
            for d in (dkinds if not quick else [dkinds[k % len(dkinds)], dkinds[(k // 5) % len(dkinds)]]):
                out.append(mk_case([dict(d)], [dict(first, i=0), dict(second, i=0), dict(third, i=0)], 'defaults/same'))
            out.append(mk_case([dict(dkinds[5]), dict(dkinds[6])], [dict(first, i=0), dict(second, i=1), dict(first, i=1), dict(second, i=0)], 'defaults/two'))
    out += union_directed(rng, quick)
    out += variadic_directed(rng, quick)
    out += generic_shape_cases(rng, tier)
    # (6) seeded histories over catalogue + random signatures
    cat_sigs = list(cat.values()) + list(UNION.values()) + list(VARIADIC.values())
    sigs = cat_sigs + [rand_sig(rng) for _ in range(60 if quick else 600)]
    for _ in range(1500 if quick else 100000):
        insts, steps = rand_history(rng, sigs)
        if steps:
            out.append(mk_case(insts, steps, 'history'))
    # (7) seeded single calls with random signatures on every store kind
    for _ in range(1500 if quick else 60000):
        s = rng.choice(sigs)
        d = rand_inst(rng)
        if d['cls'] == 'BoxI':
            d['cls'] = 'Box'; d['warm'] = True
        out.append(mk_case([d], [rand_call(rng, 0, s, class_params(rng, d), d['cls'])], 'single'))
    # (8) nested calls, directed: outer kind x outer signature x body (same instance / other instance / plain / static / class method,
    #     depth 1..3) x values that agree or clash with the outer bindings
    out += nested_directed(rng, quick)
    # (9) nested calls, seeded: call trees instantiated from a pool of generated bodies (depth <= 3, 1..3 nested calls per body)
    small = [cat[n] for n in ('m_T', 'm_S', 'm_Sret', 'm_ret', 'm_SS', 'm_TT', 'm_TS', 'm_LT', 'm_OT', 'm_TOT', 'm_retonly', 'm_int', 'm_TC', 'm_TB',
                              'm_CN', 'm_COret', 'm_UTS', 'd_SS', 'd_TT', 'd_TTret')] + [WARM, UNION['u_LTCLf'], UNION['u_LLTLs'], VARIADIC['v_kT'], VARIADIC['v_TaT']] \
        + sigs[len(cat_sigs):len(cat_sigs) + (8 if quick else 40)]
    pool = shape_pool(rng, small, (24, 16, 8) if quick else (160, 100, 50))
    for _ in range(1500 if quick else 60000):
        insts, steps = rand_nested_history(rng, pool, small)
        out.append(mk_case(insts, steps, 'nesthist'))
    # (10) overlapping calls of one function, seeded (the directed family is part of nested_directed): recursion trees, generator
    #      schedules, coroutine groups over catalogue + random signatures
    nodef = [s_ for s_ in small + sigs[len(cat_sigs):] if not s_.get('defs') and not variadic(s_)]
    opool = overlap_pool(rng, nodef, 60 if quick else 400)
    for _ in range(800 if quick else 40000):
        insts, steps = rand_overlap_history(rng, opool)
        out.append(mk_case(insts, steps, 'overlap'))
    return out


def union_directed(rng, quick):
    """(5d) unions with container alternatives: every catalogue signature of UNION x store kinds x values for the union position (no / one /
    two elements from classes that pass or fail the constraint / bound of the TypeVar, in both orders; the wrong container; None) x values
    for the other occurrence of the TypeVar.  An alternative that fails half-way (after it tied the TypeVar), at its first element, or for
    its container class, next to an alternative that accepts; followed / preceded by a parameter and the result with the same TypeVar."""
    I, Sx, Fl, Bo, Px, C1x, Ux = inst('int'), inst('str'), inst('float'), inst('bool'), inst('P'), inst('C1'), inst('U')
    elems = {'TC': [I, Sx, Fl, Bo], 'TB': [C1x, Px, I, Ux], 'TBI': [I, Bo, Sx, Fl], 'TF': [C1x, Px, I, Sx], 'T': [I, Sx, Fl, C1x], 'S': [I, Sx, Fl, C1x],
             'TCP': [Px, Ux, I, C1x]}
    kinds = [{'cls': 'plain'}, {'cls': 'NG'}, {'cls': 'Direct'}, {'cls': 'static'}, {'cls': 'classm'}, {'cls': 'Box', 'X': [INT], 'warm': True},
             {'cls': 'Box', 'X': [FLT], 'warm': False}, {'cls': 'Pair', 'X': [STR, INT], 'warm': True}, {'cls': 'Raw'}]
    out = []
    n = 0
    stride = 11 if quick else 1
    off = rng.randrange(stride)
    for name, sg in UNION.items():
        t = TVS[ann_tvs(dict(sg['ps']).get('b') or sg['ret'])[0]][0]
        E = elems[t]
        ua = dict((n_, a) for n_, a in sg['ps']).get('a') or sg['ret']
        nest = name == 'u_nest'
        seqs = [[]] + [[x] for x in E] + [[x, y] for x in E for y in E]
        avals = []
        for q in seqs:
            forms = [vlist(*q), vtup(*q), vdict(*[[inst('str'), x] for x in q[:1]])] if name in ('u_DTBDi', 'u_LSLs', 'u_two', 'u_TupTC') else [vlist(*q)]
            for f_ in forms:
                if f_ not in avals:
                    avals.append(f_)
        avals += [VNONE, I]
        if nest:
            avals = [vlist(v) for v in avals] + [vlist(vlist(E[0]), vlist(E[2])), vlist(vlist(E[2]), vlist(E[0])), vlist(vlist(E[0], E[2]), vlist(E[1]))]
        for av in avals:
            for bv in E:
                for kd in kinds:
                    n += 1
                    if (n + off) % stride:
                        continue
                    vals = {'b': bv}
                    r = None
                    if 'a' in dict(sg['ps']):
                        vals['a'] = av
                        r = bv if sg['ret'] is not None else None
                    else:
                        r = av
                    st = {'i': 0, 'sig': sg, 'vals': vals, 'r': r}
                    out.append(mk_case([dict(kd)], [st, dict(st)] if n % 4 == 0 else [st], 'unionalt'))
    return out


def variadic_directed(rng, quick):
    """(5e) variadic parameters annotated with TypeVars: every catalogue signature of VARIADIC x store kinds x the keyword used for one extra
    keyword argument (every name of the pool that is not a named parameter: the names of the `*` / `**` parameters themselves, `args`, `kwargs`,
    names of parameters of other functions, neutral names) x values that agree / clash with the other values of the call; a second extra keyword;
    values collected by *args (then the named parameters are passed by position as well)."""
    I, Sx, Bo, C1x = inst('int'), inst('str'), inst('bool'), inst('C1')
    kinds = [{'cls': 'plain'}, {'cls': 'NG'}, {'cls': 'Direct'}, {'cls': 'static'}, {'cls': 'classm'}, {'cls': 'Box', 'X': [INT], 'warm': True},
             {'cls': 'Box', 'X': [STR], 'warm': False}, {'cls': 'Pair', 'X': [STR, INT], 'warm': True}, {'cls': 'Raw'}]
    pairs = [(I, I), (I, Sx), (Sx, I), (I, Bo), (C1x, I)]
    out = []
    n = 0
    stride = 7 if quick else 1
    off = rng.randrange(stride)
    for name, sg in VARIADIC.items():
        keys = free_keys(sg)
        for kd in kinds:
            posable = 'va' in sg and kd['cls'] not in ('static', 'classm')
            for (v1, v2) in pairs:
                base = {'i': 0, 'sig': sg, 'vals': {n_: fill_with(a, v1) for n_, a in sg['ps']}, 'r': v1 if sg['ret'] is not None else None}
                variants = []
                if 'vk' in sg:
                    for k in keys:
                        variants.append({'xkw': [[k, fill_with(sg['vk'][1], v2)]]})
                    own = sg['vk'][0]
                    variants.append({'xkw': [['other', fill_with(sg['vk'][1], v1)], [own, fill_with(sg['vk'][1], v2)]]})
                    variants.append({'xkw': [[own, fill_with(sg['vk'][1], v1)], ['args', fill_with(sg['vk'][1], v2)]]})
                if posable:
                    variants.append({'pos': [fill_with(sg['va'], v1), fill_with(sg['va'], v2)]})
                    variants.append({'pos': [fill_with(sg['va'], v2)]})
                    if 'vk' in sg:
                        variants.append({'pos': [fill_with(sg['va'], v1)], 'xkw': [['args', fill_with(sg['vk'][1], v2)]]})
                        variants.append({'pos': [fill_with(sg['va'], v1)], 'xkw': [[sg['vk'][0], fill_with(sg['vk'][1], v2)]]})
                variants.append({})
                for var in variants:
                    n += 1
                    if (n + off) % stride:
                        continue
                    st = dict(base, **var)
                    out.append(mk_case([dict(kd)], [st, dict(st)] if n % 5 == 0 else [st], 'variadic'))
    return out


def generic_shape_cases(rng, tier):
    """(5f) class shapes: @pedantic_class classes that are generic through an explicit Generic[...], a typing alias base (List[T], Dict[T, S],
    Sequence[T], List[List[T]]), a user generic base (with / without re-listing Generic[T]), several bases in either order (a plain mixin, an
    alias with other arguments than the class has parameters, Generic[...] with the parameters in another order); with / without __init__
    (which makes a checked call before it returns: no __orig_class__ yet); created with / without type arguments; then method calls with
    class-level, method-level and no TypeVars, `**entries: T`, a union alternative - values that conform / do not conform to X.
    Every call must end in a return, PedanticTypeVarMismatchException or PedanticTypeCheckException as the specification of `Cls[X]` says;
    any other exception out of the wrapper is a failure (the stream is shared with C08)."""
    quick = tier == 'quick'
    cat = CATALOGUE
    I, Sx, C1x, Fl = inst('int'), inst('str'), inst('C1'), inst('float')
    probes = [I, Sx, C1x, VNONE, vlist(I), Fl]
    X1 = [[INT], [STR], [PP], [opt(INT)], [lst(INT)], None]
    X2 = [[STR, INT], [INT, INT], [PP, lst(INT)], None]
    names = ['m_T', 'm_ret', 'm_TT', 'm_LT', 'm_OT', 'm_S', 'm_SS', 'm_TS', 'm_int', 'm_retonly', None]
    extra = [VARIADIC['v_k0T'], VARIADIC['v_kT'], UNION['u_LLTLs']]
    out = []
    n = 0
    stride = 17 if quick else 1
    off = rng.randrange(stride)
    for sid in SHAPES:
        two = len(shape_table()[sid]['p']) == 2
        for has_init in (False, True):
            for X in (X2 if two else X1):
                d = {'cls': 'Shape', 'shape': sid, 'init': has_init, 'X': X}
                calls = []
                for nm in names:
                    sg = cat[nm] if nm else WARM
                    for k, v in enumerate(probes if ann_tvs_sig(sg) else probes[:1]):
                        vals, r = value_pair_for(sg, v, v)
                        calls.append({'i': 0, 'sig': sg, 'vals': vals, 'r': r})
                        if len(sg['ps']) + (sg['ret'] is not None) >= 2 and k < 3:
                            vals, r = value_pair_for(sg, v, probes[(k + 1) % 3])
                            calls.append({'i': 0, 'sig': sg, 'vals': vals, 'r': r})
                for sg in extra:
                    for v in probes[:3]:
                        if 'vk' in sg:
                            vals = {n_: fill_with(a, v) for n_, a in sg['ps']}
                            for key in (sg['vk'][0], 'args', 'item'):
                                calls.append({'i': 0, 'sig': sg, 'vals': vals, 'r': v if sg['ret'] is not None else None, 'xkw': [[key, fill_with(sg['vk'][1], probes[1])]]})
                        else:
                            calls.append({'i': 0, 'sig': sg, 'vals': {'a': vlist(probes[1]), 'b': v}, 'r': v})
                for k, call in enumerate(calls):
                    n += 1
                    if (n + off) % stride:
                        continue
                    steps = []
                    if has_init:
                        kid = [None, {'sig': WARM, 'vals': {}, 'r': None}, {'sig': cat['m_T'], 'vals': {'a': probes[k % 3]}, 'r': None},
                               {'sig': cat['m_int'], 'vals': {'a': I}, 'r': None}][k % 4]
                        st = {'i': 0, 'op': 'init', 'sig': WARM, 'vals': {}}
                        if kid:
                            st['kids'] = [dict(kid, i=0, how='self')]
                        steps.append(st)
                    other = calls[(k * 7 + 3) % len(calls)]
                    steps += [dict(call), dict(other), dict(call)][: 2 + k % 2]
                    out.append(mk_case([dict(d)], steps, 'shape'))
    return out


def ann_tvs_sig(s):
    return [t for _, a in s['ps'] for t in ann_tvs(a)] + (ann_tvs(s['ret']) if s['ret'] is not None else []) \
        + (ann_tvs(s['va']) if 'va' in s else []) + (ann_tvs(s['vk'][1]) if 'vk' in s else [])


def judge_c08(case, impl, model):
    """the view of C08 on the class-shape stream: every call made - the constructor, the call inside __init__, the calls after construction -
    returns or raises a PedanticException; R_C08: the implementation lets another exception through only where the model does"""
    j = judge(case, impl, model)
    esc = lambda o: o is not None and (o.startswith('ESC') or o.startswith('CREATE:ESC'))
    pfail, finding = None, None
    corr, why = True, ''
    for k, o in enumerate(impl['outs']):
        mo = model['model'][k] if k < len(model['model']) else None
        every = [(o, mo, None)] + [(x, (model['nested'][k] + [None] * len(impl['nested'][k]))[q], q) for q, x in enumerate(impl['nested'][k])]
        for (a, b, q) in every:
            if esc(a):
                if b != 'ESC':
                    corr, why = False, f'{describe(case, k, q)}: implementation {a}, model {b}'
                if pfail is None:
                    # (former region genericParamsFromFirstBaseEscapes: repaired - the accessor reads type(instance).__parameters__)
                    pfail = f'{describe(case, k, q)}: {a} reached the caller'
    return {'corr': corr, 'pfail': pfail, 'finding': finding, 'nontrivial': j['nontrivial'], 'tag': 'c07' + j['tag'], 'why': why}


def search(rng, tier, near):
    out = []
    sigs = list(CATALOGUE.values()) + [rand_sig(rng) for _ in range(100)]
    for _ in range(3000):
        insts, steps = rand_history(rng, sigs, nmax=4)
        if steps:
            out.append(mk_case(insts, steps, 'search'))
    out += nested_directed(rng, True)
    out += union_directed(rng, True) + variadic_directed(rng, True) + generic_shape_cases(rng, 'quick')
    return out


# ------------------------------------------------------------------ implementation side

HEADER = '''from typing import *
from pedantic import pedantic, pedantic_class
class P: pass
class C1(P): pass
class C2(P): pass
class G(C1): pass
class U: pass
NoneType = type(None)
'''


def method_src(name, s, self_kw='self', deco='', indent='    ', kids=None, mode=None):
    """kids: [(how, name of the nested function)] — the body makes these calls, in order, before it returns; whatever a nested call
    raises is caught and journalled (`_k['exc']`), `_CUR[0]` is the journal node of the call that is running.
    mode 'sched': the calls are generator calls; the body makes / advances them in the order its journal node prescribes (first mention
    of a call: it is made; every further mention: next() on it) — several generators are alive at the same time;
    mode 'aio:gather' / 'aio:tasks' / 'aio:await': the calls are coroutine calls run on one event loop."""
    defs = s.get('defs') or {}
    flav = s.get('flav')
    ps = ([self_kw] if self_kw else []) + (['r: object'] if s['ret'] is not None and defs else [])
    ps += [f'{n}: {ann_src(a)}' + (f' = {val_src(defs[n])}' if n in defs else '') for n, a in s['ps']]
    if s['ret'] is not None and not defs:
        ps.append('r: object')
    if 'va' in s:
        ps.append(f"*args: {ann_src(s['va'])}")
    if 'vk' in s:
        ps.append(f"**{s['vk'][0]}: {ann_src(s['vk'][1])}")
    if s['ret'] is not None:
        res = {'iter': 'Iterator[%s]', 'gen': 'Generator[%s, None, None]', 'itb': 'Iterable[%s]'}.get(flav, '%s') % ann_src(s['ret'])
        head = f'def {name}({", ".join(ps)}) -> {res}:'
        body = 'return r'
    else:
        head = f'def {name}({", ".join(ps)}) -> None:'
        body = 'pass'
    decos = ''.join(indent + d + '\n' for d in deco.split('\n') if d)

    def target(how, child):
        return {'self': f'self.{child}' if self_kw == 'self' else f"_k['obj'].{child}", 'obj': f"_k['obj'].{child}", 'plain': f'f_{child}',
                'static': f'Box.sm_{child}', 'classm': f'Box.cm_{child}'}[how]
    if flav in GEN_FLAVS:
        lines = [head, '    for _v in r:', '        yield _v']
    elif flav == 'async':
        lines = ['async ' + head, f"    for _n in range({s.get('awaits', 1)}):", '        await asyncio.sleep(0)', '    ' + body]
    elif flav == 'rec':
        me = f'self.{name}' if self_kw == 'self' else (f'Box.{name}' if 'method' in deco else name)       # the very same function object
        lines = [head, '    _c = _CUR[0]', "    for _n in range(len(_c['kids'])):", '        _k = _enter(_c, _n)', '        try:',
                 f"            {me}(*_k['pos'], **_k['kw'])", '        except BaseException as _e:', "            _k['exc'] = _e", '        _leave(_c)', '    ' + body]
    elif not kids:
        return decos + indent + head + ' ' + body + '\n'
    elif mode == 'sched':
        lines = [head, '    _c = _CUR[0]', '    _live = {}', "    for _n in _c['order']:", "        _k = _c['kids'][_n]", "        if _k['done']:", '            continue',
                 '        try:', '            if _n not in _live:', "                _k['ran'] = True"]
        for k, (how, child) in enumerate(kids):
            lines += [f"                {'if' if k == 0 else 'elif'} _n == {k}:", f"                    _live[_n] = {target(how, child)}(*_k['pos'], **_k['kw'])"]
        lines += ['            else:', "                _k['got'].append(next(_live[_n]))", '        except StopIteration:', "            _k['done'] = True",
                  '        except BaseException as _e:', "            _k['exc'] = _e", "            _k['done'] = True", '    ' + body]
    elif mode and mode.startswith('aio:'):
        # all coroutines on one event loop: gathered / wrapped in tasks first and awaited afterwards (both: every coroutine is in flight before
        # the first one goes on) / awaited one after the other from a coroutine of this module (no overlap)
        lines = [head, '    _c = _CUR[0]', '    async def _all():', '        _res = []']
        for k, (how, child) in enumerate(kids):
            call = f"{target(how, child)}(*_k['pos'], **_k['kw'])"
            lines.append(f"        _k = _c['kids'][{k}]")
            if mode == 'aio:await':
                lines += ['        try:', f'            await {call}', '            _res.append(None)', '        except BaseException as _e:', '            _res.append(_e)']
            else:
                lines.append(f"        _res.append({call if mode == 'aio:gather' else 'asyncio.create_task(' + call + ')'})")
        if mode == 'aio:gather':
            lines += ['        return [_r if isinstance(_r, BaseException) else None for _r in await asyncio.gather(*_res, return_exceptions=True)]']
        elif mode == 'aio:tasks':
            lines += ['        _out = []', '        for _t in _res:', '            try:', '                await _t', '                _out.append(None)',
                      '            except BaseException as _e:', '                _out.append(_e)', '        return _out']
        else:
            lines += ['        return _res']
        lines += ["    for _k, _r in zip(_c['kids'], asyncio.run(_all())):", "        _k['ran'] = True", "        _k['exc'] = _r", '    ' + body]
    else:
        lines = [head, '    _c = _CUR[0]']
        for k, (how, child) in enumerate(kids):
            lines += [f'    _k = _enter(_c, {k})', '    try:', f"        {target(how, child)}(*_k['pos'], **_k['kw'])", '    except BaseException as _e:', "        _k['exc'] = _e",
                      '    _leave(_c)']
        lines.append('    ' + body)
    return decos + ''.join(indent + ln + '\n' for ln in lines)


NEST_HELPERS = """
import asyncio
_CUR = [None]
_INIT = [None]
def _enter(c, k):
    kid = c['kids'][k]
    kid['ran'] = True
    _CUR[0] = kid
    return kid
def _leave(c):
    _CUR[0] = c
"""


VARIANTS = ('Box', 'static', 'classm', 'BoxI', 'Pair', 'NG', 'Direct', 'plain')


def variant_of(d):
    """the place in the generated module where the function an instance / kind uses is defined"""
    if d['cls'] == 'Shape':
        return shape_variant(d)
    return 'Box' if d['cls'] == 'Raw' else d['cls']


SHAPE_INIT = """    def __init__(self) -> None:
        super().__init__()
        _k = _INIT[0]
        if _k is not None:
            _k['ran'] = True
            try:
                getattr(self, _k['name'])(*_k['pos'], **_k['kw'])
            except BaseException as _e:
                _k['exc'] = _e
"""


def module_src(sigs, xsrcs, pairsrcs, nested=None, used=None, shapes=None):
    """sigs: {generated name: signature}; xsrcs: source texts X of the Box[X] / BoxI[X] instances; pairsrcs: 'X, Y' texts;
    nested: {generated name: (signature, [(how, name of the nested function)], mode)} — functions whose body makes nested calls;
    used: {generated name: set of VARIANTS} — where a function is needed (default: everywhere)"""
    out = [HEADER, NEST_HELPERS]
    for (n, src, _) in TVS:
        out.append(f'{n} = {src}\n')
    table = sorted([(n, s, None, None) for n, s in sigs.items()] + [(n, s, kids, mode) for n, (s, kids, mode) in (nested or {}).items()], key=lambda e: e[0])

    def rows(v):
        return [e for e in table if used is None or v in used.get(e[0], VARIANTS)]

    def methods(v):
        return ''.join(method_src(n, s, kids=kids, mode=mode) for n, s, kids, mode in rows(v)) or '    pass\n'
    out.append('\n@pedantic_class\nclass Box(Generic[T]):\n' + methods('Box'))
    out.append(''.join(method_src('sm_' + n, s, self_kw='', deco='@staticmethod', kids=kids, mode=mode) for n, s, kids, mode in rows('static')))
    out.append(''.join(method_src('cm_' + n, s, self_kw='cls', deco='@classmethod', kids=kids, mode=mode) for n, s, kids, mode in rows('classm')))
    out.append('\n@pedantic_class\nclass BoxI(Generic[T]):\n    def __init__(self, a: T) -> None: self.a = a\n' + methods('BoxI'))
    out.append('\n@pedantic_class\nclass Pair(Generic[T, S]):\n' + methods('Pair'))
    # class shapes: shapes = {variant: (shape id, defines __init__, [source texts of the type arguments])}
    if shapes:
        out.append('\n' + SHAPE_PRELUDE + '\n@pedantic_class\nclass UBase(Generic[T]):\n    def ubase_put(self, item: T) -> None: pass\n')
    for v, (sid, has_init, xs) in sorted((shapes or {}).items()):
        out.append(f'\n@pedantic_class\nclass {v}({SHAPES[sid]}):\n' + (SHAPE_INIT if has_init else '') + SHAPE_EXTRA.get(sid, '') + methods(v))
        for k, x in enumerate(xs):
            out.append(f'\ndef mks_{v}_{k}():\n    x = {v}[{x}]()\n    return x\n')
        out.append(f'\ndef mksraw_{v}():\n    return {v}()\n')
    out.append('\n@pedantic_class\nclass NG:\n' + methods('NG'))
    out.append('\nclass Direct:\n' + (''.join(method_src(n, s, deco='@pedantic', kids=kids, mode=mode) for n, s, kids, mode in rows('Direct')) or '    pass\n'))
    out.append('\n' + ''.join(method_src('f_' + n, s, self_kw='', deco='@pedantic', indent='', kids=kids, mode=mode) for n, s, kids, mode in rows('plain')))
    warm = sig_name(WARM)
    for k, x in enumerate(xsrcs):
        out.append(f'\ndef mk_{k}():\n    x = Box[{x}]()\n    return x\n')
        out.append(f'\ndef mkw_{k}():\n    x = Box[{x}]()\n    x.{warm}()\n    return x\n')
        out.append(f'\ndef mki_{k}(a):\n    x = BoxI[{x}](a=a)\n    return x\n')
    for k, x in enumerate(pairsrcs):
        out.append(f'\ndef mkp_{k}():\n    x = Pair[{x}]()\n    return x\n')
        out.append(f'\ndef mkpw_{k}():\n    x = Pair[{x}]()\n    x.{warm}()\n    return x\n')
    # an instance of the same class with ANOTHER X that is used once and discarded just before an instance is created: CPython hands the
    # freed block to the next object of that size, so the new instance lives at the address of the dead one (bindings kept per address
    # would be inherited from it)
    out.append(f'\ndef decoy_Box():\n    x = Box[object]()\n    x.{warm}()\n    return id(x)\n')
    out.append(f'\ndef decoy_BoxI():\n    x = BoxI[object](a=None)\n    x.{warm}()\n    return id(x)\n')
    out.append(f'\ndef decoy_Pair():\n    x = Pair[object, object]()\n    x.{warm}()\n    return id(x)\n')
    out.append('\ndef mkraw():\n    return Box()\n')
    out.append('\ndef mkng():\n    return NG()\n')
    out.append('\ndef mkdirect():\n    return Direct()\n')
    out.append('\ndef scan(name, kw):\n    x = Box()\n    return getattr(x, name)(**kw)\n')
    out.append('\ndef call(obj, name, kw, pos=()):\n    return getattr(obj, name)(*pos, **kw)\n')
    out.append('\ndef call_gen(obj, name, kw, pos=()):\n    return list(getattr(obj, name)(*pos, **kw))\n')
    out.append('\ndef call_async(obj, name, kw, pos=()):\n    return asyncio.run(getattr(obj, name)(*pos, **kw))\n')
    return ''.join(out)


_counter = [0]


def classify_exc(e):
    from pedantic.exceptions import PedanticTypeVarMismatchException, PedanticTypeCheckException, PedanticException
    if e is None:
        return 'ok'
    if isinstance(e, PedanticTypeVarMismatchException):
        return 'PED:TypeVarMismatch'
    if isinstance(e, PedanticTypeCheckException):
        return 'PED:TypeCheck'
    if isinstance(e, PedanticException):
        return 'PED:' + type(e).__name__
    return 'ESC:' + type(e).__name__


def classify(thunk):
    try:
        with contextlib.redirect_stdout(io.StringIO()):
            thunk()
        return 'ok'
    except BaseException as e:
        return classify_exc(e)


def _worker(cases):
    # every signature and every X of this batch goes into one generated module
    sigs, xsrcs, pairsrcs, nested = {sig_name(WARM): WARM}, {}, {}, {}
    used = {sig_name(WARM): set(VARIANTS)}
    shapes = {}
    for c in cases:
        for st in c['x']['steps']:
            if st['op'] != 'init' or st.get('kids'):
                for nd in ([st] if st['op'] != 'init' else []) + list(walk_nodes(st)):
                    v = variant_of(c['x']['insts'][nd['i']])
                    sigs[sig_name(nd['sig'])] = nd['sig']        # the function with the empty body (also used for "the same call alone")
                    used.setdefault(sig_name(nd['sig']), set()).add(v)
                    used.setdefault(node_name(nd), set()).add(v)
                    if nd.get('kids') and nd['sig'].get('flav') != 'rec':
                        nested[node_name(nd)] = (nd['sig'], [(k['how'], node_name(k)) for k in nd['kids']],
                                                 ('aio:' + ('gather' if nd['aio'] is True else nd['aio'])) if nd.get('aio') else ('sched' if 'order' in nd else None))
        for d in c['x']['insts']:
            if d['cls'] in ('Box', 'BoxI'):
                xsrcs.setdefault(ann_src(d['X'][0]), len(xsrcs))
            elif d['cls'] == 'Pair':
                pairsrcs.setdefault(ann_src(d['X'][0]) + ', ' + ann_src(d['X'][1]), len(pairsrcs))
            elif d['cls'] == 'Shape':
                ent = shapes.setdefault(shape_variant(d), (d['shape'], bool(d.get('init')), []))
                used[sig_name(WARM)].add(shape_variant(d))
                if d.get('X') is not None and shape_x(d) not in ent[2]:
                    ent[2].append(shape_x(d))
    tmp = tempfile.mkdtemp(prefix='pedtv_')
    _counter[0] += 1
    modname = f'pedtv_{os.getpid()}_{_counter[0]}'
    try:
        path = os.path.join(tmp, modname + '.py')
        with open(path, 'w') as f:
            f.write(module_src(sigs, list(xsrcs), list(pairsrcs), nested, used, shapes))
        spec = importlib.util.spec_from_file_location(modname, path)
        mod = importlib.util.module_from_spec(spec)
        sys.modules[modname] = mod
        spec.loader.exec_module(mod)
        classes = {'object': object, 'NoneType': type(None), 'int': int, 'str': str, 'bool': bool, 'float': float, 'list': list, 'dict': dict,
                   'tuple': tuple, 'type': type, 'P': mod.P, 'C1': mod.C1, 'C2': mod.C2, 'G': mod.G, 'U': mod.U, 'set': set, 'frozenset': frozenset}
        if [[1 if issubclass(classes[a], classes[b]) else 0 for b in CL] for a in CL] != SUB:
            raise RuntimeError('class table of the generated module differs from the table sent to the model')
        for v, (sid, _, _) in shapes.items():
            if shape_facts(getattr(mod, v)) != shape_table()[sid]:
                raise RuntimeError(f'class shape {v}: __bases__ / __parameters__ / __orig_bases__ of the decorated class differ from the facts sent to the model')

        def concrete(v, n=[0]):
            k = v[0]
            if k == 'inst':
                c = CL[v[1]]
                n[0] += 1
                return {'object': object, 'NoneType': lambda: None, 'int': lambda: 10 + n[0], 'str': lambda: 's%d' % n[0], 'bool': lambda: True,
                        'float': lambda: 0.5 + n[0]}.get(c, classes[c])()
            if k == 'list':
                return [concrete(x) for x in v[1]]
            if k == 'tuple':
                return tuple(concrete(x) for x in v[1])
            if k == 'dict':
                return {concrete(a): concrete(b) for a, b in v[1]}
            return classes[CL[v[1]]]

        dead = set()

        def make(d, init_arg=None, warm=None):
            """Cls[X]() is created where a discarded instance Cls[object]() of the same class lived: a decoy is created, used once and dropped
            (it sits in a reference cycle: the two young generations are collected), then the instance is made - again, with one more decoy, until it
            has the address of some dead decoy (a handful of rounds at most; CPython hands freed blocks to the next object of that size)"""
            if d['cls'] in ('Box', 'BoxI', 'Pair'):
                import gc
                for _ in range(12):
                    dead.add(getattr(mod, 'decoy_' + d['cls'])())
                    gc.collect(1)               # the decoy may have been moved out of the youngest generation while it was built
                    obj = make1(d, init_arg, warm)
                    if id(obj) in dead:
                        break
                return obj
            return make1(d, init_arg, warm)

        def make1(d, init_arg=None, warm=None):
            c = d['cls']
            w = d.get('warm') if warm is None else warm
            if c == 'Box':
                return getattr(mod, ('mkw_' if w else 'mk_') + str(xsrcs[ann_src(d['X'][0])]))()
            if c == 'BoxI':
                return getattr(mod, 'mki_' + str(xsrcs[ann_src(d['X'][0])]))(init_arg)
            if c == 'Pair':
                return getattr(mod, ('mkpw_' if w else 'mkp_') + str(pairsrcs[ann_src(d['X'][0]) + ', ' + ann_src(d['X'][1])]))()
            if c == 'Shape':
                v = shape_variant(d)
                return getattr(mod, 'mksraw_' + v)() if d.get('X') is None else getattr(mod, f'mks_{v}_{shapes[v][2].index(shape_x(d))}')()
            return {'Raw': mod.mkraw, 'NG': mod.mkng, 'Direct': mod.mkdirect}[c]()

        def target(d, obj, name):
            c = d['cls']
            if c == 'plain':
                return mod, 'f_' + name
            if c == 'static':
                return mod.Box, 'sm_' + name
            if c == 'classm':
                return mod.Box, 'cm_' + name
            return obj, name

        def args_of(st):
            """(positional values, keyword values) of the call: with values for *args the named parameters are passed by position"""
            kw = {n: concrete(st['vals'][n]) for n, _ in st['sig']['ps'] if n in st['vals']}
            if st['sig']['ret'] is not None:
                kw['r'] = [concrete(y) for y in st['r']] if st['sig'].get('flav') in GEN_FLAVS else concrete(st['r'])
            pos = ()
            if st.get('pos'):
                pos = tuple(kw.pop(n) for n in [n for n, _ in st['sig']['ps']] + (['r'] if st['sig']['ret'] is not None else [])) \
                    + tuple(concrete(v) for v in st['pos'])
            for k, v in st.get('xkw') or []:
                kw[k] = concrete(v)
            return pos, kw

        def kwargs_of(st):
            return args_of(st)[1]

        def try_make(d, init_arg=None, warm=None, lifetimes=True):
            """(instance or None, outcome class of the creation); lifetimes: created at the address of a discarded instance (see make)"""
            box = {}
            out = classify(lambda: box.setdefault('o', (make if lifetimes else make1)(d, init_arg, warm)))
            return box.get('o'), out

        def journal_node(nd, objs):
            pos_, kw_ = args_of(nd)
            return {'kw': kw_, 'pos': pos_, 'obj': objs.get(nd['i']), 'kids': [journal_node(k, objs) for k in nd.get('kids') or []], 'ran': False, 'exc': None,
                    'done': False, 'got': [], 'order': list(nd.get('order') or [])}

        def perform(obj, nm, kw, flav, pos=()):
            """make the call and see it through: exhaust the generator, run the coroutine to its end"""
            if flav in GEN_FLAVS:
                return classify(lambda: mod.call_gen(obj, nm, kw, pos))
            if flav == 'async':
                return classify(lambda: mod.call_async(obj, nm, kw, pos))
            mod._CUR[0] = {'kids': []}
            try:
                return classify(lambda: mod.call(obj, nm, kw, pos))
            finally:
                mod._CUR[0] = None

        def flat(j):
            for k in j['kids']:
                yield k
                yield from flat(k)

        def alone(nd, d, inits):
            """the same call — signature and values, with an EMPTY body — made alone: on a fresh instance created the same way / as a
            plain call.  None for an unparametrised instance (its bindings are meant to persist)."""
            if d['cls'] == 'Raw' or (d['cls'] == 'Shape' and d.get('X') is None):
                return None
            fresh = None
            if d['cls'] in INSTANCE_KINDS:
                if d['cls'] == 'BoxI' and nd['i'] not in inits:
                    return None
                fresh, out = try_make(d, concrete(inits[nd['i']]) if d['cls'] == 'BoxI' else None, warm=True, lifetimes=False)
                if out != 'ok':
                    return 'CREATE:' + out
            obj, nm = target(d, fresh, sig_name(nd['sig']))
            pos_, kw_ = args_of(nd)
            return perform(obj, nm, kw_, nd['sig'].get('flav'), pos_)

        results = []
        for c in cases:
            insts = c['x']['insts']
            objs, inits, broken = {}, {}, {}
            outs, solo, nested_outs, nested_solo = [], [], [], []
            for st in c['x']['steps']:
                i = st['i']
                d = insts[i]
                name = node_name(st)
                nested_outs.append([])
                nested_solo.append([])
                if st['op'] == 'init' and d['cls'] == 'Shape':
                    # the constructor; its __init__ makes the call `kids[0]` (if any) on the instance under construction and journals what it raises
                    kid = (st.get('kids') or [None])[0]
                    jk = None
                    if kid is not None:
                        pos_, kw_ = args_of(kid)
                        jk = {'name': sig_name(kid['sig']), 'pos': pos_, 'kw': kw_, 'ran': False, 'exc': None}
                    mod._INIT[0] = jk
                    try:
                        objs[i], out = try_make(d)
                    finally:
                        mod._INIT[0] = None
                    if out != 'ok':
                        broken[i] = 'CREATE:' + out
                    outs.append(out)
                    solo.append(None)
                    if kid is not None:
                        nested_outs[-1] = [classify_exc(jk['exc']) if jk['ran'] else None]
                        nested_solo[-1] = [None]
                    continue
                if st['op'] == 'init':
                    inits[i] = st['vals']['a']
                    objs[i], out = try_make(d, concrete(st['vals']['a']))
                    outs.append(out)
                    solo.append(None)
                    continue
                if st['op'] == 'scan':
                    kw = kwargs_of(st)
                    outs.append(classify(lambda: mod.scan(name, kw)))
                    solo.append(None)
                    continue
                for j in [i] + [k['i'] for k in walk_nodes(st)]:
                    if j not in objs and insts[j]['cls'] in INSTANCE_KINDS and j not in broken:
                        objs[j], out = try_make(insts[j])      # for a warmed instance the creating function performs the warm() call
                        if out != 'ok':
                            broken[j] = 'CREATE:' + out
                if st['op'] == 'warm':
                    outs.append(broken.get(i, 'ok'))
                    solo.append(None)
                    continue
                bad = next((broken[j] for j in [i] + [k['i'] for k in walk_nodes(st)] if j in broken), None)
                if bad:
                    outs.append(bad)
                    solo.append(None)
                    nested_outs[-1] = [None for _ in walk_nodes(st)]
                    nested_solo[-1] = [None for _ in walk_nodes(st)]
                    continue
                obj, nm = target(d, objs.get(i), name)
                jn = journal_node(st, objs)
                mod._CUR[0] = jn
                outs.append(classify(lambda: mod.call(obj, nm, jn['kw'], jn['pos'])))
                mod._CUR[0] = None
                if st.get('kids'):
                    solo.append(alone(st, d, inits))
                    for nd, j in zip(walk_nodes(st), flat(jn)):
                        nested_outs[-1].append(classify_exc(j['exc']) if j['ran'] else None)
                        nested_solo[-1].append(alone(nd, insts[nd['i']], inits) if j['ran'] else None)
                elif d['cls'] in ('Box', 'BoxI', 'Pair') or (d['cls'] == 'Shape' and d.get('X') is not None):
                    solo.append(alone(st, d, inits))         # the same call alone on a fresh instance created the same way
                else:
                    solo.append(None)
            results.append({'outs': outs, 'solo': solo, 'nested': nested_outs, 'nsolo': nested_solo})
        return results
    finally:
        sys.modules.pop(modname, None)
        shutil.rmtree(tmp, ignore_errors=True)


def run_impl(cases):
    if len(cases) < 3000:
        return _worker(cases)
    import multiprocessing as mp
    n = min(16, os.cpu_count() or 1)
    size = max(500, (len(cases) + n * 2 - 1) // (n * 2))
    chunks = [cases[i:i + size] for i in range(0, len(cases), size)]
    with mp.get_context('fork').Pool(n) as pool:
        parts = pool.map(_worker, chunks)
    return [r for part in parts for r in part]


# ------------------------------------------------------------------ verdict

def describe_call(case, st):
    d = case['x']['insts'][st['i']]
    who = (f"class {shape_variant(d)}({SHAPES[d['shape']]})" if d['cls'] == 'Shape' else d['cls']) + ('[' + ', '.join(ann_src(x) for x in d['X']) + ']' if d.get('X') else '')
    s = st['sig']
    flav = s.get('flav')
    res = {'iter': 'Iterator[%s]', 'gen': 'Generator[%s, None, None]', 'itb': 'Iterable[%s]'}.get(flav, '%s')
    sg = '(' + ', '.join([f'{n}: {ann_src(a)}' + (f' = {val_src(s["defs"][n])}' if n in (s.get('defs') or {}) else '') for n, a in s['ps']]
                         + ([f"*args: {ann_src(s['va'])}"] if 'va' in s else []) + ([f"**{s['vk'][0]}: {ann_src(s['vk'][1])}"] if 'vk' in s else [])) + ')' \
        + (' -> ' + res % ann_src(s['ret']) if s['ret'] is not None else '')
    what = {'iter': 'generator call', 'gen': 'generator call', 'itb': 'generator call', 'async': 'coroutine call', 'rec': 'call of the recursive'}.get(flav, st.get('op', 'call'))
    txt = f'on #{st["i"]} {who}: {what} {sg} with {json.dumps(st["vals"])}'
    if st.get('pos'):
        txt += f' (passed by position) and *args = {json.dumps(st["pos"])}'
    if st.get('xkw'):
        txt += ' and the extra keywords ' + ', '.join(f'{k}={json.dumps(v)}' for k, v in st['xkw'])
    if st.get('r') is not None:
        txt += (f' yielding {json.dumps(st["r"])}' if flav in GEN_FLAVS else f' returning {json.dumps(st["r"])}')
    if st.get('kids'):
        mode = f"runs the coroutines ({st['aio']}):" if st.get('aio') else (f'advances the generators in the order {st["order"]}:' if 'order' in st else 'calls')
        txt += f' whose body {mode} [' + '; '.join(f"{k['how']} #{k['i']} {node_name(k)}" for k in st['kids']) + ']'
    return txt


def describe(case, k, sub=None):
    st = case['x']['steps'][k]
    if sub is None:
        return f'step {k} ' + describe_call(case, st)
    nd = list(walk_nodes(st))[sub]
    return f'step {k}, nested call {sub} (pre-order) made by the body of [{describe_call(case, st)}]: ' + describe_call(case, nd)


def norm(o):
    return o if o is None else ('ESC' if o.startswith('ESC') else o)


def demand(v, o):
    """what the verdict of the specification demands of the outcome class of the implementation; None: met"""
    if o.startswith('ESC') or o.startswith('CREATE:ESC'):
        return f'{o}: an exception that is no PedanticException left the wrapper'
    if v == 'accept' and o != 'ok':
        return f'rejected ({o}) although every value is compatible / conforms'
    if v in ('tvm', 'tvmInUnion') and o != 'PED:TypeVarMismatch':
        return f'{o} although values of unrelated classes meet at one TypeVar (PedanticTypeVarMismatchException required)'
    if v == 'reject' and not o.startswith('PED:'):
        return f'{o} although a value violates a constraint / bound / does not conform'
    return None


def judge(case, impl, model):
    outs, solo = impl['outs'], impl['solo']
    mo, sp, regs = model['model'], model['spec'], model['regions']
    steps = case['x']['steps']
    in_, is_ = impl.get('nested') or [[] for _ in outs], impl.get('nsolo') or [[] for _ in outs]
    mn, ns, nr = model.get('nested') or [[] for _ in outs], model.get('nspec') or [[] for _ in outs], model.get('nregions') or [[] for _ in outs]
    if model.get('nshape'):
        nr = [[(sh[q] if q < len(sh) else []) + r for q, r in enumerate(rs)] for rs, sh in zip(nr, model['nshape'])]
    corr = [norm(o) for o in outs] == mo
    why = ''
    if not corr:
        k = next((k for k, (a, b) in enumerate(zip(outs, mo)) if norm(a) != b), 0)
        why = f'{describe(case, k)}: implementation {outs[k]}, model {mo[k]}'
    else:
        for k in range(len(outs)):
            a, b = [norm(o) for o in in_[k]], mn[k]
            if a != b:
                corr = False
                j = next((j for j, (x, y) in enumerate(zip(a, b)) if x != y), None)
                why = (f'{describe(case, k, j)}: implementation {in_[k][j]}, model {b[j]} (None: the call was never made)' if j is not None
                       else f'{describe(case, k)}: journals of the nested calls differ in length ({len(a)} / {len(b)})')
                break
    fails = []
    for k, (o, v) in enumerate(zip(outs, sp)):
        bad = demand(v, o)
        if not bad and solo[k] is not None and solo[k] != o:
            bad = (f'{o} in this history but {solo[k]} when the same call is made alone' + (' with an empty body' if steps[k].get('kids') else '')
                   + ' on a fresh instance')
        if bad:
            fails.append((k, None, bad, regs[k]))
        for j, o2 in enumerate(in_[k]):
            if o2 is None or j >= len(ns[k]):
                continue
            bad = demand(ns[k][j], o2)
            if not bad and j < len(is_[k]) and is_[k][j] is not None and is_[k][j] != o2:
                bad = f'{o2} as a nested call but {is_[k][j]} when the same call is made alone (empty body, fresh instance)'
            if bad:
                fails.append((k, j, bad, nr[k][j] if j < len(nr[k]) else []))
    pfail, finding = None, None
    if fails:
        unexplained = [f for f in fails if not f[3]]
        k, j, bad, rg = (unexplained or fails)[0]
        pfail = f'{describe(case, k, j)}: {bad}'
        if not unexplained and corr:
            finding = rg[0]

    def checks_of(m):
        yield from m['checks']
        for x in m.get('kids') or []:
            yield from checks_of(x)
    nontrivial = any(ann_tvs(a) for m in case['c']['steps'] for a, _ in checks_of(m))
    kinds = sorted({case['x']['insts'][nd['i']]['cls'] for st in steps for nd in [st] + list(walk_nodes(st))})

    def depth(st):
        return 1 + max([depth(k) for k in st.get('kids') or []] + [0])
    dmax = max([depth(st) for st in steps] + [0])
    return {'corr': corr, 'pfail': pfail, 'finding': finding, 'nontrivial': nontrivial,
            'tag': f"{case['x'].get('origin', '?').split(':')[0]}/{'+'.join(kinds)}/n={min(len(steps), 13)}" + (f'/depth={dmax}' if dmax > 1 else ''), 'why': why}


def _renamed(sg, vals, tag):
    """the same signature with parameter names made unique by `tag` (its own function / method object in the generated module)"""
    m = {n: f'{n}{tag}' for n, _ in sg['ps']}
    s2 = {'ps': [[m[n], a] for n, a in sg['ps']], 'ret': sg['ret']}
    if sg.get('defs'):
        s2['defs'] = {m[n]: v for n, v in sg['defs'].items()}
    return s2, {m[n]: v for n, v in vals.items()}


def shrink(case, judge_fn):
    """a failing case must fail when it is run ALONE in a fresh generated module (state kept on shared function or class objects
    may have come from other cases of the batch); otherwise look for a small self-contained failing history: candidates with
    function objects of their own are judged in one batch, the first failing ones are then confirmed alone"""
    def alone(c):
        (c2, i, m, j), = judge_fn([c])
        return (c2, i, m, j) if j['pfail'] and not j['finding'] else None
    r = alone(case)
    if r:
        return r
    cat = CATALOGUE
    box = {'cls': 'Box', 'X': [INT], 'warm': True}
    cands = []

    def add(insts, name, v1, v2, second_inst):
        sg = cat[name]
        free = [n for n, _ in sg['ps'] if n not in (sg.get('defs') or {})]
        r1 = v1 if sg['ret'] is not None else None
        r2 = v2 if sg['ret'] is not None else None
        s1, a1 = _renamed(sg, {n: v1 for n in free}, len(cands))
        _, a2 = _renamed(sg, {n: v2 for n in free}, len(cands))
        cands.append(mk_case(insts, [{'i': 0, 'sig': s1, 'vals': a1, 'r': r1}, {'i': second_inst, 'sig': s1, 'vals': a2, 'r': r2}], 'shrink'))
    for v1, v2 in itertools.product(PROBE[:6], PROBE[:6]):
        for name in ('d_TT', 'd_T', 'd_SS', 'm_T', 'm_TT', 'm_S', 'm_retonly', 'm_OT'):
            for k in ('plain', 'static', 'Direct', 'NG'):
                add([{'cls': k}], name, v1, v2, 0)
            add([dict(box)], name, v1, v2, 0)
            add([dict(box), dict(box)], name, v1, v2, 1)
            add([dict(box), {'cls': 'Box', 'X': [STR], 'warm': True}], name, v1, v2, 1)
    failing = [c for (c, i, m, j) in judge_fn(cands) if j['pfail'] and not j['finding']]
    failing.sort(key=lambda c: len(json.dumps(c)))
    for c in failing[:12]:
        r = alone(c)
        if r:
            return r
    return None


def extra_coverage(results):
    per, nest = {}, {}
    n = nn = 0
    for (c, i, m, j) in results:
        for k, st in enumerate(c['x']['steps']):
            kind = c['x']['insts'][st['i']]['cls']
            key = f"{kind}/{m['spec'][k]}/{i['outs'][k]}"
            per[key] = per.get(key, 0) + 1
            n += 1
            for q, nd in enumerate(walk_nodes(st)):
                o = (i.get('nested') or [[]] * (k + 1))[k]
                v = (m.get('nspec') or [[]] * (k + 1))[k]
                key = f"{kind}>{nd['how']}:{c['x']['insts'][nd['i']]['cls']}/{v[q] if q < len(v) else '?'}/{o[q] if q < len(o) else '?'}"
                nest[key] = nest.get(key, 0) + 1
                nn += 1
    return {'steps': n, 'step_histogram(kind/spec/impl)': dict(sorted(per.items(), key=lambda kv: -kv[1])),
            'nested_calls': nn, 'nested_histogram(outer kind>how:kind/spec/impl)': dict(sorted(nest.items(), key=lambda kv: -kv[1])[:80])}
