"""Shared by C12 (gate) and C13 (binding by name): case construction, the runner for the real `@validate`, the judge.

A case is one decorated function + one call, or a *scenario* ('c' = {'calls': [<c of one call>, ...]}): one or two decorated
function objects (sharing Parameter objects) and a history of calls, some of them made by a validator of another call while that
call is still running (re-entrancy); 'x'['scn'] says which call uses which function object and which validator invocation
(parent call, parameter name, validator index, value received) makes which inner call.  Every call of a scenario is judged
like a single call: the model answers for each call on its own (`call_outcome_independent_of_other_calls`).
 'c' (what the Lean driver gets):
   ps      [{name, required, dflt, ext, conv, vals, flaskJson}]   the Parameters in declaration order
             dflt/ext: "NOVALUE" | null (None) | value id;   conv: null | [[in id, out id | "REJ"], ...] (value_type given)
             vals: [{rej: [ids], crash: [ids], map: "mul"|"same"|"none"|"const", k, pn?, wrap?}]   recording validators; `pn` (a name) = the
             parameter_name the validator's own ValidatorException carries when it rejects (absent: the default ''), `wrap` = the names,
             from the inside out, of the `Validator.validate_param(value, parameter_name=...)` delegations through which it is reached
   sig     {pos: [{name, dflt}], varArgs, kwOnly: [{name, dflt}], varName, tup}     (`self` is pos[0] for methods; varName = name of
             the VAR_POSITIONAL parameter (absent: `args`); tup = id of the tuple object bind_partial builds from the surplus positionals,
             which the repaired code never hands on as a value)
   strict, ignore, req ("none" | "notjson" | [json keys]), async, mode, args [ids] (incl. the instance for methods), kw [[name, id]]
             (a method whose receiver is passed BY KEYWORD - `K.f(self=obj, ...)` on the class - has the instance in kw instead: x.recvKw)
 'x' (only the Python side): method, recvKw, per-parameter kind / value_type / raw source value, literal values {id: repr}.
Names are small ints (index into NAMES); values are ints: None = null, 1..7 the falsy literals, 90 the instance,
100.. caller / default / source values, everything a recording validator produces is id*8+k (so a value's id spells
the exact sequence of validators it went through).
"""
import ast, os, sys, io, itertools, tempfile, shutil, importlib.util, contextlib

from gen._validate_names import NAMES      # shared with the translator; '' (index 11) = Lean's emptyName
NID = {n: i for i, n in enumerate(NAMES)}
# names for ordinary parameters of the decorated function, declared or not: single letters, substrings / superstrings of self, cls,
# args, kwargs, and names the library itself uses as keywords / locals (value, key, name, validators, default, required, ...)
RICH_NAMES = [n for n in NAMES[12:] if n.isidentifier()] + ['args', 'kwargs', 'cls']
NOV = 'NOVALUE'
SELF_ID = 90
FALSY = {"0": 1, "''": 2, "[]": 3, "{}": 4, "()": 5, "False": 6, "0.0": 7}
MODES = ['ARGS', 'KWARGS_WITH_NONE', 'KWARGS_WITHOUT_NONE']
TYPES = ['int', 'float', 'bool', 'str', 'list', 'dict']
ENV_TYPES = ['str', 'bool', 'int', 'float']

# Expected result of convert_value(<literal>, <type>) for the literals the generators use: 'SAME' = the object itself,
# 'REJ' = ConversionError, else the repr of the converted value.  Static, reviewed by hand (not computed at run time).
CONV = {
    '17': {'int': 'SAME', 'float': '17.0', 'bool': 'REJ', 'str': "'17'", 'list': "['17']", 'dict': "{'17': ''}"},
    '23': {'int': 'SAME', 'float': '23.0', 'bool': 'REJ', 'str': "'23'", 'list': "['23']", 'dict': "{'23': ''}"},
    "'41'": {'int': '41', 'float': '41.0', 'bool': 'REJ', 'str': 'SAME', 'list': "['41']", 'dict': "{'41': ''}"},
    "' 42 '": {'int': '42', 'float': '42.0', 'bool': 'REJ', 'str': 'SAME', 'list': "['42']", 'dict': "{'42': ''}"},
    '2.5': {'int': 'REJ', 'float': 'SAME', 'bool': 'REJ', 'str': "'2.5'", 'list': "['2.5']", 'dict': "{'2.5': ''}"},
    "'3.5'": {'int': 'REJ', 'float': '3.5', 'bool': 'REJ', 'str': 'SAME', 'list': "['3.5']", 'dict': "{'3.5': ''}"},
    'True': {'int': 'SAME', 'float': 'REJ', 'bool': 'SAME', 'str': "'true'", 'list': "['true']", 'dict': "{'true': ''}"},
    "'true'": {'int': 'REJ', 'float': 'REJ', 'bool': 'True', 'str': 'SAME', 'list': "['true']", 'dict': "{'true': ''}"},
    "'False'": {'int': 'REJ', 'float': 'REJ', 'bool': 'False', 'str': 'SAME', 'list': "['false']", 'dict': "{'false': ''}"},
    "'1'": {'int': '1', 'float': '1.0', 'bool': 'True', 'str': 'SAME', 'list': "['1']", 'dict': "{'1': ''}"},
    "'xq'": {'int': 'REJ', 'float': 'REJ', 'bool': 'REJ', 'str': 'SAME', 'list': "['xq']", 'dict': "{'xq': ''}"},
    "'Ab'": {'int': 'REJ', 'float': 'REJ', 'bool': 'REJ', 'str': 'SAME', 'list': "['ab']", 'dict': "{'ab': ''}"},
    "['u', 'v']": {'int': 'REJ', 'float': 'REJ', 'bool': 'REJ', 'str': '"[\'u\', \'v\']"', 'list': 'SAME', 'dict': '{"[\'u\'": \'\', "\'v\']": \'\'}'},
    "'u,v'": {'int': 'REJ', 'float': 'REJ', 'bool': 'REJ', 'str': 'SAME', 'list': "['u', 'v']", 'dict': "{'u': '', 'v': ''}"},
    "{'k': 'w'}": {'int': 'REJ', 'float': 'REJ', 'bool': 'REJ', 'str': '"{\'k\': \'w\'}"', 'list': '["{\'k\': \'w\'}"]', 'dict': 'SAME'},
    "'k:w'": {'int': 'REJ', 'float': 'REJ', 'bool': 'REJ', 'str': 'SAME', 'list': "['k:w']", 'dict': "{'k': 'w'}"},
    '0': {'int': 'SAME', 'float': '0.0', 'bool': 'False', 'str': "'0'", 'list': "['0']", 'dict': "{'0': ''}"},
    'False': {'int': 'SAME', 'float': 'REJ', 'bool': 'SAME', 'str': "'false'", 'list': "['false']", 'dict': "{'false': ''}"},
    '0.0': {'int': 'REJ', 'float': 'SAME', 'bool': 'REJ', 'str': "'0.0'", 'list': "['0.0']", 'dict': "{'0.0': ''}"},
    "''": {'int': 'REJ', 'float': 'REJ', 'bool': 'REJ', 'str': 'SAME', 'list': "['']", 'dict': "{'': ''}"},
    '[]': {'int': 'REJ', 'float': 'REJ', 'bool': 'REJ', 'str': "'[]'", 'list': 'SAME', 'dict': "{'[]': ''}"},
    '{}': {'int': 'REJ', 'float': 'REJ', 'bool': 'REJ', 'str': "'{}'", 'list': "['{}']", 'dict': 'SAME'},
    '()': {'int': 'REJ', 'float': 'REJ', 'bool': 'REJ', 'str': "'()'", 'list': "['()']", 'dict': "{'()': ''}"},
    "'0'": {'int': '0', 'float': '0.0', 'bool': 'False', 'str': 'SAME', 'list': "['0']", 'dict': "{'0': ''}"},
    # byte strings (not valid UTF-8 / valid): convert_value works on str(value), i.e. on the text b'...' - never on decoded bytes
    "b'caf\\xe9'": {'int': 'REJ', 'float': 'REJ', 'bool': 'REJ', 'str': '"b\'caf\\\\xe9\'"', 'list': '["b\'caf\\\\xe9\'"]', 'dict': '{"b\'caf\\\\xe9\'": \'\'}'},
    "b'41'": {'int': 'REJ', 'float': 'REJ', 'bool': 'REJ', 'str': '"b\'41\'"', 'list': '["b\'41\'"]', 'dict': '{"b\'41\'": \'\'}'},
}
BYTES_LITS = ["b'caf\\xe9'", "b'41'"]
# literals a caller / source may supply for a parameter with the given value_type: (valid ones, near misses)
GOOD = {'int': ['17', '23', "'41'", "' 42 '", 'True', "'1'", "'0'", '0'],
        'float': ['2.5', "'3.5'", '17', "'41'", "' 42 '", '0.0', "'0'"],
        'bool': ['True', "'true'", "'False'", "'1'", "'0'", 'False', '0'],
        'str': ["'xq'", "'Ab'", "'41'", '17', '2.5', 'True', "''", "' 42 '"],
        'list': ["['u', 'v']", "'u,v'", "'xq'", '[]', '17'],
        'dict': ["{'k': 'w'}", "'k:w'", "'xq'", '{}']}
BAD = {'int': ["'xq'", '2.5', "'3.5'", "'true'", "''"], 'float': ["'xq'", 'True', "'true'", "''"],
       'bool': ["'xq'", '17', '2.5', "''"], 'str': [], 'list': [], 'dict': []}
for _t in ('int', 'float', 'bool'):
    BAD[_t] = BAD[_t] + BYTES_LITS
for _t in ('str', 'list', 'dict'):
    GOOD[_t] = GOOD[_t] + BYTES_LITS
RAW_LITS = ['17', '23', '2.5', "'xq'", "'Ab'", "'41'"]      # literals used where no value_type is involved
ENV_GOOD = {'str': ['xq', 'Ab', ' 41 ', '', '41'], 'bool': ['true', 'False', '1', '0', ' true '],
            'int': ['41', ' 41 ', '1', '0'], 'float': ['3.5', '41', ' 41 ', '0']}
ENV_BAD = {'str': [], 'bool': ['xq', ''], 'int': ['xq', '3.5', ''], 'float': ['xq', 'true']}


class Obj:
    __slots__ = ('i',)

    def __init__(self, i):
        self.i = i

    def __str__(self):
        return f'O{self.i}'
    __repr__ = __str__


class CrashErr(LookupError):
    def __init__(self, i):
        self.i = i


RET = ('returned',)


# ---------------------------------------------------------------- building cases

class Builder:
    """allocates value ids of one case and assembles 'c' and 'x'"""

    def __init__(self):
        self.lits = {}        # id -> repr
        self.rl = {}          # repr -> id
        self.next = 100

    def lit(self, r):
        if r in FALSY:
            self.lits[FALSY[r]] = r
            return FALSY[r]
        if r not in self.rl:
            self.rl[r] = self.next
            self.lits[self.next] = r
            self.next += 1
        return self.rl[r]

    def obj(self):
        self.next += 1
        return self.next - 1

    def desc(self, i):
        if i == SELF_ID:
            return ('self',)
        r = self.lits.get(i)
        return ('lit', r) if r is not None else ('obj', i)

    def conv_out(self, i, vt):
        """expected convert_value(value i, vt): id of the result or 'REJ' (by construction, from the static table)"""
        d = self.desc(i)
        if d[0] == 'lit':
            o = CONV[d[1]][vt]
            return i if o == 'SAME' else ('REJ' if o == 'REJ' else self.lit(o))
        s = 's' if d[0] == 'self' else f'o{i}'
        if vt == 'str':
            return self.lit(repr(s))
        if vt == 'list':
            return self.lit(repr([s]))
        if vt == 'dict':
            return self.lit(repr({s: ''}))
        return 'REJ'


def step_apply(st, i):
    """what a recording validator does with value id i: ('ok', id|None) | ('rej',) | ('crash',)"""
    if i is None:
        return ('ok', None)
    if i in st['rej']:
        return ('rej',)
    if i in st['crash']:
        return ('crash',)
    m = st['map']
    if m == 'mul':
        return ('ok', i * 8 + st['k'])
    if m == 'none':
        return ('ok', None)
    if m == 'const':
        return ('ok', st['k'])
    return ('ok', i)


def chain_inputs(b, p, i):
    """ids arriving at each validator of parameter p when value i enters (generator-side bookkeeping only: used to
    place a rejection at a chosen chain position); index -1 = the conversion"""
    out = {}
    if i is None:
        return out
    if p['vt'] is not None:
        out[-1] = i
        i = b.conv_out(i, p['vt'])
        if i == 'REJ':
            return out
    for j, st in enumerate(p['vals']):
        out[j] = i
        r = step_apply(st, i)
        if r[0] != 'ok':
            break
        i = r[1]
    return out


def val_c(s):
    """a recording validator as the driver gets it"""
    d = {'rej': sorted(s['rej']), 'crash': sorted(s['crash']), 'map': s['map'], 'k': s['k']}
    if s.get('pn') is not None:
        d['pn'] = NID[s['pn']]
    if s.get('wrap'):
        d['wrap'] = [NID[w] for w in s['wrap']]
    return d


def foreign_name(rng, own, declared):
    """a parameter_name for a validator's own exception: mostly the name of ANOTHER declared Parameter of the same function"""
    others = [n for n in declared if n != own]
    r = rng.random()
    if others and r < 0.6:
        return rng.choice(others)
    if r < 0.7:
        return own
    if r < 0.8:
        return ''
    return rng.choice(['zz', 'yy', 'a', 'b', 'c', 'd', 'kwargs', 'self'])


def label_validators(rng, params, prob=0.3):
    """some validators raise a ValidatorException that already carries a parameter_name (set by themselves, or by the
    validate_param() of one or two delegating validators around them)"""
    declared = [p['name'] for p in params]
    for p in params:
        for st in p['vals']:
            if rng.random() >= prob:
                continue
            r = rng.random()
            if r < 0.35:
                st['pn'] = foreign_name(rng, p['name'], declared)
            elif r < 0.75:
                st['wrap'] = [foreign_name(rng, p['name'], declared)]
            elif r < 0.9:
                st['wrap'] = [foreign_name(rng, p['name'], declared), foreign_name(rng, p['name'], declared)]
            else:
                st['pn'] = foreign_name(rng, p['name'], declared)
                st['wrap'] = [foreign_name(rng, p['name'], declared)]


def assemble(b, sig, params, strict, ignore, mode, is_async, args, kw, req='none', origin=None, flask=None):
    """sig = {'method', 'pos': [(name, dflt)], 'varArgs', 'kwOnly': [(name, dflt)]};
    params = [{'name', 'kind', 'required', 'dflt', 'ext', 'vt', 'vals', 'raw'}]; args/kw = ids (without the instance).
    A method whose kw carries ('self', SELF_ID) is called on the CLASS with the receiver passed by keyword."""
    recv_kw = bool(sig['method']) and any(n == 'self' and v == SELF_ID for n, v in kw)
    all_inputs = set(i for i in args if i is not None) | set(v for _, v in kw if v is not None)
    if sig['method']:
        all_inputs.add(SELF_ID)
    cps = []
    for p in params:
        conv = None
        if p['vt'] is not None:
            cand = set(all_inputs)
            if p['ext'] not in (NOV, None):
                cand.add(p['ext'])
            conv = []
            for i in sorted(cand):
                conv.append([i, b.conv_out(i, p['vt'])])
        cps.append({'name': NID[p['name']], 'required': p['required'], 'dflt': p['dflt'], 'ext': p['ext'], 'conv': conv,
                    'vals': [val_c(s) for s in p['vals']],
                    'flaskJson': p['kind'] == 'flaskjson'})
    csig = {'pos': ([{'name': 0, 'dflt': NOV}] if sig['method'] else []) + [{'name': NID[n], 'dflt': d} for n, d in sig['pos']],
            'varArgs': sig['varArgs'], 'kwOnly': [{'name': NID[n], 'dflt': d} for n, d in sig['kwOnly']]}
    if sig['varArgs'] and sig.get('varName', 'args') != 'args':
        csig['varName'] = NID[sig['varName']]
    if sig['varArgs'] and len(args) > len(sig['pos']):
        csig['tup'] = b.obj()              # the tuple object that bind_partial builds from the surplus positionals
    c = {'ps': cps,
         'sig': csig,
         'strict': strict, 'ignore': ignore, 'req': req, 'async': is_async, 'mode': mode,
         'args': ([SELF_ID] if sig['method'] and not recv_kw else []) + list(args), 'kw': [[NID[n], v] for n, v in kw]}
    x = {'method': sig['method'], 'ps': [{'kind': p['kind'], 'vt': p['vt'], 'raw': p.get('raw')} for p in params],
         'lits': {str(i): r for i, r in b.lits.items()}}
    if recv_kw:
        x['recvKw'] = True
    if origin:
        x['origin'] = origin
    if flask is not None:
        x['flask'] = flask
    return {'m': 'validate', 'c': c, 'x': x}


# ---------------------------------------------------------------- random structured generator

def pick_value(rng, b, vt, allow_none=True):
    r = rng.random()
    if allow_none and r < 0.07:
        return None
    if vt is None:
        if r < 0.17:
            return b.lit(rng.choice(list(FALSY)))
        if r < 0.25:
            return b.lit(rng.choice(RAW_LITS))
        return b.obj()
    if r < 0.17 and BAD[vt]:
        return b.lit(rng.choice(BAD[vt]))
    if r < 0.20:
        return b.obj()
    return b.lit(rng.choice(GOOD[vt]))


SPECIAL_NAMES = ['args', 'args', 'kwargs', 'cls', 'self']      # ordinary parameters that merely carry a conventional name
STAR_ARGS_TEXT = "'*args'"                                      # the string '*args' as a default value of the decorated function


def gen_program(rng, b, allow_varargs, n=None):
    n = n or rng.choice([1, 2, 2, 3, 3, 4])
    names = ['a', 'b', 'c', 'd'][:n]
    method = rng.random() < 0.3
    is_async = rng.random() < 0.3
    varargs = allow_varargs and rng.random() < 0.3
    var_name = rng.choice(['args', 'args', 'rest']) if varargs else 'args'
    if rng.random() < 0.3:
        # ordinary parameters called `args`, `kwargs`, `cls`, `self` (the latter never first: that would be a receiver - a plain
        # function whose first parameter is called self is what `method` generates, as a real method)
        for i in rng.sample(range(n), rng.choice([1, 1, 2]) if n > 1 else 1):
            nm = rng.choice(SPECIAL_NAMES)
            if nm in names or (nm == 'self' and (method or i == 0)) or (nm == 'args' and varargs and var_name == 'args'):
                continue
            names[i] = nm
    if rng.random() < 0.4:
        # parameters called like a substring / superstring of self, cls, args, kwargs, or like a keyword / local of the library
        for i in rng.sample(range(n), min(n, rng.choice([1, 1, 2, n]))):
            nm = rng.choice(RICH_NAMES)
            if nm in names or (varargs and nm == var_name):
                continue
            names[i] = nm
    nkw = rng.choice([0, 0, 0, 1, 2]) if n > 1 else 0
    nkw = min(nkw, n - 1)
    pos_names, kwo_names = names[:n - nkw], names[n - nkw:]

    def dflt_val():
        r = rng.random()
        if r > 0.96:
            return b.lit(STAR_ARGS_TEXT)     # a default whose repr puts the text `*args` into str(signature)
        return None if r < 0.2 else (b.lit(rng.choice(list(FALSY))) if r < 0.35 else b.obj())
    pos = []
    seen = False
    for nm in pos_names:
        seen = seen or rng.random() < 0.3
        pos.append((nm, dflt_val() if seen else NOV))
    kwo = [(nm, dflt_val() if rng.random() < 0.5 else NOV) for nm in kwo_names]
    sig = {'method': method, 'pos': pos, 'varArgs': varargs, 'kwOnly': kwo, 'varName': var_name}
    decl = [nm for nm in names if rng.random() < 0.87]
    if rng.random() < 0.05:
        decl.append('zz')
    if varargs and var_name != 'args' and rng.random() < 0.3:
        decl.append(var_name)            # a Parameter declared for the VAR_POSITIONAL parameter's own name
    if decl and rng.random() < 0.04:
        decl.append(rng.choice(decl))
    rng.shuffle(decl)
    params = []
    for nm in decl:
        kind = rng.choice(['plain'] * 6 + ['env'] * 2 + ['ext'] * 2)
        if kind == 'env':
            vt = rng.choice(ENV_TYPES)
        else:
            vt = None if rng.random() < 0.5 else rng.choice(TYPES)
        r = rng.random()
        dflt = NOV if r < 0.6 else (None if r < 0.7 else (b.lit(rng.choice(list(FALSY))) if r < 0.8 else b.obj()))
        vals = []
        for j in range(rng.choice([0, 1, 1, 2, 2, 3])):
            m = rng.choice(['mul'] * 8 + ['same', 'none', 'const'])
            vals.append({'rej': set(), 'crash': set(), 'map': m, 'k': (j + 1) if m == 'mul' else (b.lit(rng.choice(list(FALSY))) if m == 'const' else 0)})
        ext, raw = NOV, None
        if kind == 'env' and rng.random() < 0.6:
            raw = rng.choice(ENV_GOOD[vt] * 4 + ENV_BAD[vt])
            ext = b.lit(repr(raw.strip()))
        elif kind == 'ext' and rng.random() < 0.65:
            ext = pick_value(rng, b, vt)
        params.append({'name': nm, 'kind': kind, 'required': rng.random() < 0.6, 'dflt': dflt, 'ext': ext, 'vt': vt, 'vals': vals, 'raw': raw})
    label_validators(rng, params)
    return sig, params, rng.random() < 0.6, rng.random() < 0.1, rng.choice(MODES), is_async


def gen_call(rng, b, sig, params, allow_surplus=True, allow_recv_kw=False):
    vt_of = {}
    for p in params:
        vt_of[p['name']] = p['vt']       # the last declaration wins, as in parameter_dict
    pos_names = [n for n, _ in sig['pos']]
    kwo_names = [n for n, _ in sig['kwOnly']]
    k = rng.choice([0, 0, 1, 2, len(pos_names), len(pos_names)])
    k = min(k, len(pos_names))
    # a method called on the class with the receiver passed by keyword: `K.f(self=obj, a=..., b=...)` (then nothing is positional)
    recv_kw = allow_recv_kw and sig['method'] and not sig['varArgs'] and rng.random() < 0.08
    if recv_kw:
        k = 0
    args = [pick_value(rng, b, vt_of.get(nm)) for nm in pos_names[:k]]
    if sig['varArgs'] and k == len(pos_names) and rng.random() < 0.7:
        for _ in range(rng.choice([1, 1, 2, 3])):
            args.append(pick_value(rng, b, rng.choice(list(vt_of.values()) or [None])))
    elif allow_surplus and k == len(pos_names) and rng.random() < 0.08:
        args.append(b.obj())
    kw = []
    for nm in pos_names[k:] + kwo_names:
        if rng.random() < 0.75:
            kw.append((nm, pick_value(rng, b, vt_of.get(nm))))
    if allow_surplus and rng.random() < 0.08:
        kw.append(('zz', b.obj()))
    if allow_surplus and k > 0 and rng.random() < 0.05:
        nm = rng.choice(pos_names[:k])
        kw.append((nm, pick_value(rng, b, vt_of.get(nm))))
    if recv_kw:
        kw.append(('self', SELF_ID))
    elif allow_surplus and rng.random() < 0.04 and all(n != 'self' for n, _ in kw):
        # a keyword called `self`: on a plain function an undeclared keyword like every other (the function has no receiver),
        # on a method a second value for the receiver
        kw.append(('self', b.obj()))
    if args and rng.random() < (0.25 if sig['varArgs'] and len(args) > len(pos_names) else 0.05):
        # the same object twice - for *args functions often: a surplus positional EQUAL to a named positional (or to another surplus one)
        args[rng.randrange(len(args))] = rng.choice(args)
    rng.shuffle(kw)
    if sig['varArgs']:
        # `a not in used_args` compares with ==: keep numerically equal literals of different types (0, False, 0.0) apart
        args = [1 if a in (6, 7) else a for a in args]
        if 1 in args:
            b.lit('0')
    return args, kw


def place_rejection(rng, b, sig, params, args, kw, what='rej'):
    """make one step of one parameter reject (or crash on) a value that really arrives there; returns a tag or None"""
    pos_names = [n for n, _ in sig['pos']]
    arriving = {}
    for nm, v in list(zip(pos_names, args)) + list(kw):
        arriving.setdefault(nm, []).append(v)
    extra = args[len(pos_names):]
    cands = []
    for p in params:
        ins = list(arriving.get(p['name'], []))
        if p['ext'] not in (NOV, None):
            ins.append(p['ext'])
        ins += extra
        for v in ins:
            for j, i in chain_inputs(b, p, v).items():
                if j >= 0:
                    cands.append((p, j, i))
    if not cands:
        return None
    p, j, i = rng.choice(cands)
    p['vals'][j][what].add(i)
    return f'{what}@{j}'


def random_cases(rng, count, allow_varargs, calls_per_program=3, origin='random'):
    out = []
    while len(out) < count:
        b0 = Builder()
        prog = gen_program(rng, b0, allow_varargs)
        for _ in range(calls_per_program):
            # every case gets its own copy of the program (the rejection sets differ per call)
            b = Builder()
            b.lits, b.rl, b.next = dict(b0.lits), dict(b0.rl), b0.next
            sig, params, strict, ignore, mode, is_async = prog
            params = [dict(p, vals=[dict(s, rej=set(), crash=set()) for s in p['vals']]) for p in params]
            args, kw = gen_call(rng, b, sig, params, allow_recv_kw=True)
            r = rng.random()
            if r < 0.3:
                place_rejection(rng, b, sig, params, args, kw, 'rej')
            elif r < 0.35:
                place_rejection(rng, b, sig, params, args, kw, 'crash')
            out.append(assemble(b, sig, params, strict, ignore, mode if rng.random() < 0.7 else rng.choice(MODES), is_async, args, kw, origin=origin))
    return out[:count]


# ---------------------------------------------------------------- running the real library

def shape_of(case):
    return shape_of_c(case['c'], case['x']['method'])


def shape_of_c(c, method):
    pos = c['sig']['pos'][1:] if method else c['sig']['pos']
    return (method, c['async'], (NAMES[c['sig'].get('varName', 1)] if c['sig']['varArgs'] else None),
            tuple((NAMES[s['name']], s['dflt'] != NOV) for s in pos),
            tuple((NAMES[s['name']], s['dflt'] != NOV) for s in c['sig']['kwOnly']))


def shape_src(idx, shape):
    method, is_async, varargs, pos, kwo = shape
    ps = ['self'] if method else []
    ps += [f"{n}=D['{n}']" if d else n for n, d in pos]
    if varargs:
        ps.append('*' + varargs)
    elif kwo:
        ps.append('*')
    ps += [f"{n}=D['{n}']" if d else n for n, d in kwo]
    names = (['self'] if method else []) + [n for n, _ in pos] + [n for n, _ in kwo]
    rec = '{' + ', '.join(f"'{n}': {n}" for n in names) + '}'
    d = 'async def' if is_async else 'def'
    if method:
        return (f"def make_{idx}(D, REC, RET, deco):\n    class K:\n        def __str__(self):\n            return 'S'\n\n"
                f"        @deco\n        {d} f({', '.join(ps)}):\n            REC.append(({rec}, {varargs or '()'}))\n            return RET\n    return K\n\n")
    return (f"def make_{idx}(D, REC, RET, deco):\n    @deco\n    {d} f({', '.join(ps)}):\n        REC.append(({rec}, {varargs or '()'}))\n"
            f"        return RET\n    return f\n\n")


_LIT_CACHE = {}


def lit_value(r):
    v = _LIT_CACHE.get(r)
    if v is None:
        v = _LIT_CACHE[r] = ast.literal_eval(r)
    if isinstance(v, (list, dict)):
        return type(v)(v)
    return v


class Ctx:
    def __init__(self, lits):
        self.lits = {int(i): r for i, r in lits.items()}
        self.rl = {r: i for i, r in self.lits.items()}
        self.reg = {}
        self.inst = None
        self.journal = []
        self.loads = []
        self.tup = None       # (id, [ids of the surplus positionals]): the tuple object bind_partial builds for the current call
        self.insts = []       # scenarios: the instances of the method-carrying classes
        self.cur = None       # scenarios: index of the call that is running (innermost)
        self.trig = {}        # scenarios: (call, parameter name, validator index, value id) -> [inner calls to make]
        self.do_call = None
        self.rec = None       # scenarios: where the body of the running call records

    def value(self, i):
        if i is None:
            return None
        o = self.reg.get(i)
        if o is None:
            r = self.lits.get(i)
            o = lit_value(r) if r is not None else Obj(i)
            self.reg[i] = o
        return o

    def ident(self, v):
        if v is None:
            return None
        if type(v) is Obj:
            return v.i if self.reg.get(v.i) is v else -1
        if self.inst is not None and v is self.inst:
            return SELF_ID
        for inst in self.insts:
            if v is inst:
                return SELF_ID
        if type(v) is tuple and v and self.tup is not None and [self.ident(e) for e in v] == self.tup[1]:
            return self.tup[0]
        try:
            return self.rl.get(repr(v), -2)
        except Exception:
            return -3


_LIB = []


class RecSink:
    """what the generated bodies append to: files the record under the call that is running (scenarios)"""

    def __init__(self, ctx):
        self.ctx = ctx

    def append(self, item):
        self.ctx.rec.append(item)


def _lib():
    """the classes that sit between the cases and the real library (built once per process)"""
    if _LIB:
        return _LIB[0]
    from types import SimpleNamespace
    from pedantic.decorators.fn_deco_validate.fn_deco_validate import validate, ReturnAs
    from pedantic.decorators.fn_deco_validate.parameters import Parameter, ExternalParameter, EnvironmentVariableParameter
    from pedantic.decorators.fn_deco_validate.validators import Validator
    from pedantic.decorators.fn_deco_validate.exceptions import (ParameterException, TooManyArguments, ValidateException,
                                                                 ValidatorException)
    PY_T = {'int': int, 'float': float, 'bool': bool, 'str': str, 'list': list, 'dict': dict, None: None}
    NOVAL = object()

    class RecV(Validator):
        """journals what it receives, makes the inner calls a scenario asks for, then maps / rejects / crashes as the case says"""
        j = -1

        def __init__(self, ctx, pname, spec):
            self.ctx, self.pname, self.spec = ctx, pname, spec

        def validate(self, value):
            ctx = self.ctx
            i = ctx.ident(value)
            ctx.journal.append([self.pname, self.j, i])
            if ctx.trig:
                # re-entrancy: this validator calls decorated functions (the one it is validating for included) before it answers
                for k in ctx.trig.pop((ctx.cur, self.pname, self.j, i), ()):
                    ctx.do_call(k)
            r = step_apply(self.spec, i)
            if r[0] == 'rej':
                pn = self.spec.get('pn')
                if pn is None:
                    self.raise_exception(value=value, msg='rejected by the recording validator')
                # a validator whose exception already carries a parameter_name (the name of a nested field, of another Parameter, ...)
                raise ValidatorException(msg='rejected by the recording validator', validator_name=self.name, value=value,
                                         parameter_name=NAMES[pn])
            if r[0] == 'crash':
                raise CrashErr(i)
            if r[1] == i:
                return value
            return ctx.value(r[1])
    VCLS = [type(f'V{j}', (RecV,), {'j': j}) for j in range(4)]

    class Deleg(Validator):
        """a composite validator that validates (a part of) its value with another validator through the public helper
        Validator.validate_param(), which labels the delegate's exception with the name of the nested field"""

        def __init__(self, inner, field):
            self.inner, self.field = inner, field

        def validate(self, value):
            return self.inner.validate_param(value=value, parameter_name=self.field)

    def make_validator(ctx, pname_id, j, st):
        v = VCLS[j](ctx, pname_id, st)
        for w in st.get('wrap', ()):
            v = Deleg(v, NAMES[w])
        return v

    class HExt(ExternalParameter):
        def __init__(self, ctx, src, **kw):
            super().__init__(**kw)
            self._ctx, self._src = ctx, src

        def has_value(self):
            return self._src is not NOVAL

        def load_value(self):
            self._ctx.loads.append(NID.get(self.name, -1))
            return self._src

    def make_param(ctx, cp, xp, evar):
        pname = NAMES[cp['name']]
        kw = dict(name=pname, validators=[make_validator(ctx, cp['name'], j, st) for j, st in enumerate(cp['vals'])], required=cp['required'])
        if cp['dflt'] != NOV:
            kw['default'] = ctx.value(cp['dflt'])
        if xp['kind'] == 'env':
            if xp['raw'] is not None:
                os.environ[evar] = xp['raw']
            return EnvironmentVariableParameter(env_var_name=evar, value_type=PY_T[xp['vt']], **kw)
        if xp['kind'] == 'ext':
            return HExt(ctx, NOVAL if cp['ext'] == NOV else ctx.value(cp['ext']), value_type=PY_T[xp['vt']], **kw)
        if xp['kind'] == 'plain':
            return Parameter(value_type=PY_T[xp['vt']], **kw)
        return make_flask_param(xp['kind'], PY_T[xp['vt']], kw)

    def call_and_classify(ctx, c, fn, a, k, rec, flask=None):
        """one call of a decorated function: canonical outcome + whether its return value was handed back"""
        cm = flask_context(ctx, flask) if flask is not None else contextlib.nullcontext()
        try:
            with cm:
                r = fn(*a, **k)
                if c['async']:
                    try:
                        r.send(None)
                        r.close()
                        r = ('pending coroutine',)
                    except StopIteration as si:
                        r = si.value
            o = ['ok'] if rec else ['notCalled']
            ret_ok = r is RET
        except ParameterException as e:
            vn = e.validator_name
            if isinstance(vn, str) and vn[:1] == 'V' and vn[1:].isdigit():
                why = ['validator', int(vn[1:])]
            else:
                why = 'required' if e.value is None else 'convert'
            o, ret_ok = ['VAL:Parameter', NID.get(e.parameter_name, -1), why], True
        except TooManyArguments:
            o, ret_ok = ['VAL:TooManyArguments'], True
        except ValidateException:
            o, ret_ok = ['VAL:Validate'], True
        except CrashErr as e:
            o, ret_ok = ['ESC:foreign', e.i], True
        except TypeError:
            o, ret_ok = ['CALL:TypeError'] if not rec else ['BODY:TypeError'], True
        except RuntimeError:
            o, ret_ok = ['ESC:RuntimeError'], True
        except KeyError:
            o, ret_ok = ['ESC:KeyError'], True
        except BaseException as e:
            o, ret_ok = ['ESC:' + type(e).__name__], True
        return o, ret_ok

    def observed(ctx, o, ret_ok, rec):
        binding = None
        if rec:
            d, extra = rec[0]
            binding = {'named': sorted([NID[n], ctx.ident(v)] for n, v in d.items()), 'extras': [ctx.ident(v) for v in extra]}
        return {'out': o, 'binding': binding, 'journal': ctx.journal, 'loads': ctx.loads, 'ret_ok': ret_ok, 'ncalls': len(rec)}

    _LIB.append(SimpleNamespace(validate=validate, ReturnAs=ReturnAs, make_param=make_param, call_and_classify=call_and_classify,
                                observed=observed))
    return _LIB[0]


def case_calls(case):
    """(c, method) of every call of a case"""
    if 'calls' in case['c']:
        fns = case['x']['scn']['fns']
        return [(c, fns[m['fn']]['method']) for c, m in zip(case['c']['calls'], case['x']['scn']['calls'])]
    return [(case['c'], case['x']['method'])]


def clear_env():
    for k in [k for k in os.environ if k.startswith('PEDV_')]:
        del os.environ[k]


def run_single(L, mod, shapes, case):
    c, x = case['c'], case['x']
    ctx = Ctx(x['lits'])
    clear_env()
    params = [L.make_param(ctx, cp, xp, f"PEDV_{n_decl}_{NAMES[cp['name']]}") for n_decl, (cp, xp) in enumerate(zip(c['ps'], x['ps']))]
    rec = []
    sig = c['sig']
    D = {NAMES[s['name']]: ctx.value(s['dflt']) for s in sig['pos'] + sig['kwOnly'] if s['dflt'] != NOV}
    deco = L.validate(*params, return_as=L.ReturnAs[c['mode']], strict=c['strict'], ignore_input=c['ignore'])
    made = getattr(mod, f'make_{shapes[shape_of(case)]}')(D, rec, RET, deco)
    args = c['args']
    if x['method']:
        ctx.inst = made()
        ctx.reg[SELF_ID] = ctx.inst
        if x.get('recvKw'):
            fn = made.f                 # the function on the class: the receiver arrives by keyword
        else:
            fn = ctx.inst.f
            args = args[1:]
    else:
        fn = made
    a = [ctx.value(i) for i in args]
    k = {NAMES[n]: ctx.value(v) for n, v in c['kw']}
    if 'tup' in sig:
        ctx.tup = (sig['tup'], list(args[len(sig['pos']) - (1 if x['method'] and not x.get('recvKw') else 0):]))
    if 'scalars' in (x.get('prime') or []):
        # primed twin (amplified run): the same decorated function is first called with every number moved to another numeric type
        # (0 / False / 0.0, 17 / 17.0: equal, same hash); what that call does is wiped, the real call follows and is judged as usual
        import _twins
        for to in ('rotate', 'bool'):
            a2, k2 = [_twins.twin_object(v, to) for v in a], {n: _twins.twin_object(v, to) for n, v in k.items()}
            if all(type(p) is type(q) for p, q in zip(a2, a)) and all(type(k2[n]) is type(k[n]) for n in k):
                continue
            try:
                L.call_and_classify(ctx, c, fn, a2, k2, rec, x.get('flask'))
            except BaseException:
                pass
            del rec[:]
            del ctx.journal[:]
            del ctx.loads[:]
    o, ret_ok = L.call_and_classify(ctx, c, fn, a, k, rec, x.get('flask'))
    return L.observed(ctx, o, ret_ok, rec)


def twins(case):
    """primed twin of a single-call case: the call is preceded by the same call with number twins (expected outcome unchanged)"""
    import _twins
    if case.get('m') is None or 'calls' in case['c'] or case['x'].get('prime'):
        return []
    c, x = case['c'], case['x']
    ids = list(c['args']) + [v for _, v in c['kw']]
    for i in ids:
        r = x['lits'].get(str(i), x['lits'].get(i)) if i is not None else None
        if r is not None:
            try:
                v = lit_value(r)
            except Exception:
                continue
            if _twins.twin_object(v, 'rotate') != v or type(_twins.twin_object(v, 'rotate')) is not type(v) or repr(_twins.twin_object(v, 'rotate')) != repr(v):
                return [dict(case, x=dict(x, prime=['scalars']))]
    return []


def run_scenario(L, mod, shapes, case):
    """one or two decorated function objects built ONCE (sharing Parameter objects), then the history of calls; a validator
    makes the inner calls while the call it validates for is still running.  Result: one observation per call (None for an
    inner call whose trigger never fired)."""
    x, calls_c = case['x'], case['c']['calls']
    scn = x['scn']
    ctx = Ctx(x['lits'])
    clear_env()
    first_call = {}
    for ci, m in enumerate(scn['calls']):
        first_call.setdefault(m['fn'], ci)
    # the Parameter objects (each built once, from the first call that shows it)
    pool = {}
    for fi, f in enumerate(scn['fns']):
        if fi not in first_call:
            continue                      # a function object no call of the history uses
        c0 = calls_c[first_call[fi]]
        for cp, pi in zip(c0['ps'], f['ps']):
            if pi not in pool:
                pool[pi] = L.make_param(ctx, cp, scn['pool'][pi], f"PEDV_{pi}_{NAMES[cp['name']]}")
    sink = RecSink(ctx)
    fns = []
    for fi, f in enumerate(scn['fns']):
        if fi not in first_call:
            fns.append(None)
            continue
        c0 = calls_c[first_call[fi]]
        sig = c0['sig']
        D = {NAMES[s['name']]: ctx.value(s['dflt']) for s in sig['pos'] + sig['kwOnly'] if s['dflt'] != NOV}
        deco = L.validate(*[pool[pi] for pi in f['ps']], return_as=L.ReturnAs[c0['mode']], strict=c0['strict'], ignore_input=c0['ignore'])
        made = getattr(mod, f'make_{shapes[shape_of_c(c0, f["method"])]}')(D, sink, RET, deco)
        if f['method']:
            inst = made()
            ctx.insts.append(inst)
            fns.append(inst.f)
        else:
            fns.append(made)
    results = [None] * len(calls_c)
    for ci, m in enumerate(scn['calls']):
        if m['parent'] is not None:
            ctx.trig.setdefault((m['parent'], m['trig'][0], m['trig'][1], m['trig'][2]), []).append(ci)

    def do_call(ci):
        c, m = calls_c[ci], scn['calls'][ci]
        method = scn['fns'][m['fn']]['method']
        args = c['args'][1:] if method else c['args']
        a = [ctx.value(i) for i in args]
        k = {NAMES[n]: ctx.value(v) for n, v in c['kw']}
        saved = (ctx.journal, ctx.loads, ctx.tup, ctx.cur, ctx.rec)
        ctx.journal, ctx.loads, ctx.cur, ctx.rec = [], [], ci, []
        ctx.tup = (c['sig']['tup'], list(args[len(c['sig']['pos']) - (1 if method else 0):])) if 'tup' in c['sig'] else None
        try:
            o, ret_ok = L.call_and_classify(ctx, c, fns[m['fn']], a, k, ctx.rec)
            results[ci] = L.observed(ctx, o, ret_ok, ctx.rec)
        finally:
            ctx.journal, ctx.loads, ctx.tup, ctx.cur, ctx.rec = saved
    ctx.do_call = do_call
    for ci, m in enumerate(scn['calls']):
        if m['parent'] is None:
            do_call(ci)
    return {'calls': results}


def run_impl(cases):
    L = _lib()
    # the generated programs: one factory per signature shape, in a real module file
    shapes = {}
    for case in cases:
        for c, method in case_calls(case):
            shapes.setdefault(shape_of_c(c, method), len(shapes))
    tmp = tempfile.mkdtemp(prefix='pedverif_validate_')
    out = []
    saved_env = {k: v for k, v in os.environ.items() if k.startswith('PEDV_')}
    try:
        path = os.path.join(tmp, 'pedverif_validate_programs.py')
        with open(path, 'w') as f:
            f.write('"""generated by the C12/C13 check: bodies record what they observe"""\n\n')
            for sh, idx in shapes.items():
                f.write(shape_src(idx, sh))
        spec = importlib.util.spec_from_file_location('pedverif_validate_programs', path)
        mod = importlib.util.module_from_spec(spec)
        spec.loader.exec_module(mod)
        sink = io.StringIO()
        with contextlib.redirect_stdout(sink):
            for n_case, case in enumerate(cases):
                if n_case % 2000 == 0:
                    sink.seek(0)
                    sink.truncate()
                if 'calls' in case['c']:
                    out.append(run_scenario(L, mod, shapes, case))
                else:
                    out.append(run_single(L, mod, shapes, case))
    finally:
        clear_env()
        os.environ.update(saved_env)
        shutil.rmtree(tmp, ignore_errors=True)
        sys.modules.pop('pedverif_validate_programs', None)
    return out


# ---------------------------------------------------------------- Flask sources (thorough tier)

def make_flask_param(kind, vt, kw):
    from pedantic.decorators.fn_deco_validate.parameters import flask_parameters as F
    cls = {'flaskjson': F.FlaskJsonParameter, 'flaskform': F.FlaskFormParameter, 'flaskget': F.FlaskGetParameter,
           'flaskheader': F.FlaskHeaderParameter, 'flaskpath': F.FlaskPathParameter}[kind]
    return cls(value_type=vt, **kw)


_FLASK_APP = []


def flask_context(ctx, fl):
    """fl = {'body': 'json'|'form'|'none', 'json': {name: id}, 'form': {name: id}, 'query': [[name, id]...], 'headers': {name: id}};
    ids are resolved to the case's Python values (strings for form / query / headers)"""
    from flask import Flask
    if not _FLASK_APP:
        _FLASK_APP.append(Flask('pedverif_validate'))
    kw = {}
    if fl['body'] == 'json':
        kw['json'] = {k: ctx.value(v) for k, v in fl['json'].items()}
    elif fl['body'] == 'form':
        kw['data'] = {k: ctx.value(v) for k, v in fl['form'].items()}
    if fl.get('query'):
        from urllib.parse import urlencode
        kw['query_string'] = urlencode([(k, ctx.value(v)) for k, v in fl['query']])
    if fl.get('headers'):
        kw['headers'] = {k: ctx.value(v) for k, v in fl['headers'].items()}
    return _FLASK_APP[0].test_request_context('/x', method='POST', **kw)


JSON_VALUES = ['17', "'xq'", "'41'", '2.5', 'True', "['u', 'v']", "{'k': 'w'}", '0', "''", '[]', 'False', "'3.5'", "'true'"]
STR_VALUES = ["'xq'", "'Ab'", "'41'", "'3.5'", "'true'", "'False'", "'1'", "'0'", "'u,v'", "'k:w'"]


def flask_cases(rng, count):
    """Flask sources under app.test_request_context: JSON body / form / query string / headers / path (= plain keyword)"""
    out = []
    while len(out) < count:
        b = Builder()
        n = rng.choice([1, 2, 2, 3])
        names = ['a', 'b', 'c'][:n]
        body = rng.choice(['json', 'json', 'json', 'form', 'none'])
        all_json = rng.random() < 0.45
        ndef = rng.choice([0, 0, 1, n])
        sig = {'method': rng.random() < 0.25, 'pos': [(nm, (b.obj() if i >= n - ndef else NOV)) for i, nm in enumerate(names)], 'varArgs': False, 'kwOnly': []}
        fl = {'body': body, 'json': {}, 'form': {}, 'query': [], 'headers': {}}
        params = []
        order = list(names)
        rng.shuffle(order)
        for nm in order:
            kind = 'flaskjson' if all_json else rng.choice(['flaskjson', 'flaskjson', 'flaskform', 'flaskget', 'flaskheader', 'flaskpath', 'plain'])
            vt = None if rng.random() < 0.5 else rng.choice(TYPES)
            present = rng.random() < 0.7
            ext = NOV
            if kind == 'flaskjson':
                if present:
                    v = None if rng.random() < 0.1 else b.lit(rng.choice(GOOD[vt] if vt and rng.random() < 0.7 else JSON_VALUES))
                    if v is not None and b.lits[v].startswith("' "):
                        v = b.lit("'41'")
                    if v is not None and b.lits[v] == '()':
                        v = b.lit('[]')
                    if v is not None and b.lits[v].startswith("b'"):
                        v = b.lit("'41'")            # bytes are no JSON values
                    fl['json'][nm] = v
                    if body == 'json':
                        ext = v
            elif kind == 'flaskform':
                if present:
                    v = b.lit(rng.choice(STR_VALUES))
                    fl['form'][nm] = v
                    if body == 'form':
                        ext = v
            elif kind == 'flaskget':
                if present:
                    if vt == 'list':
                        fl['query'] += [[nm, b.lit("'u'")], [nm, b.lit("'v'")]]
                        ext = b.lit("['u', 'v']")
                    else:
                        v = b.lit(rng.choice(STR_VALUES))
                        fl['query'].append([nm, v])
                        if rng.random() < 0.2:
                            fl['query'].append([nm, b.lit("'xq'")])     # a second value: only the first counts
                        ext = v
            elif kind == 'flaskheader':
                if present:
                    v = b.lit(rng.choice(STR_VALUES))
                    fl['headers'][nm] = v
                    ext = v
            r = rng.random()
            dflt = NOV if r < 0.6 else (None if r < 0.7 else b.obj())
            vals = [{'rej': set(), 'crash': set(), 'map': 'mul', 'k': j + 1} for j in range(rng.choice([0, 1, 1, 2]))]
            params.append({'name': nm, 'kind': kind, 'required': rng.random() < 0.6, 'dflt': dflt, 'ext': ext, 'vt': vt, 'vals': vals, 'raw': None})
        label_validators(rng, params)
        if body == 'json' and rng.random() < 0.25:
            fl['json']['zz'] = b.lit("'xq'")           # a key no Parameter asks for (strict + all-JSON: TooManyArguments)
        req = sorted(NID[k] for k in fl['json']) if body == 'json' else 'notjson'
        strict, ignore = rng.random() < 0.6, rng.random() < 0.3
        # the caller (Flask passes path parameters by keyword) supplies some values itself
        args, kw = [], []
        for i, nm in enumerate(names):
            r = rng.random()
            vt_n = [p['vt'] for p in params if p['name'] == nm][0]
            if r < 0.12 and len(args) == i:
                args.append(pick_value(rng, b, vt_n))
            elif r < 0.35:
                kw.append((nm, pick_value(rng, b, vt_n)))
        rng.shuffle(kw)
        if rng.random() < 0.3:
            place_rejection(rng, b, sig, params, args, kw, 'rej')
        out.append(assemble(b, sig, params, strict, ignore, rng.choice(MODES), rng.random() < 0.25, args, kw, req=req, origin='flask', flask=fl))
    return out


# ---------------------------------------------------------------- judging

def model_outcome(model):
    m = model['model']
    if 'ok' in m:
        return ['ok'], {'named': sorted(m['ok']['named']), 'extras': m['ok']['extras']}
    return m['exc'], None


def correspondence(case, impl, model):
    mo, mb = model_outcome(model)
    if impl['out'] != mo:
        return False, f"outcome {impl['out']} differs from the model's {mo}"
    if mo == ['ok']:
        if impl['binding'] != mb:
            return False, f"binding {impl['binding']} differs from the model's {mb}"
        if not impl['ret_ok'] or impl['ncalls'] != 1:
            return False, 'the body ran more than once or its return value was not handed back'
    return True, ''


def tag_of(case, impl):
    c, x = case['c'], case['x']
    o = impl['out']
    cls = o[0] + (':' + (o[2] if isinstance(o[2], str) else 'validator') if o[0] == 'VAL:Parameter' else '')
    return f"{cls}/{ {'ARGS': 'A', 'KWARGS_WITH_NONE': 'KN', 'KWARGS_WITHOUT_NONE': 'KW'}[c['mode']]}/" + \
        ('m' if x['method'] else 'f') + ('a' if c['async'] else 's') + ('v' if c['sig']['varArgs'] else '') + ('i' if c['ignore'] else '')


def sig_defaults(c):
    return {s['name']: s['dflt'] for s in c['sig']['pos'] + c['sig']['kwOnly'] if s['dflt'] != NOV}


def distinct_parameters(c):
    names = [p['name'] for p in c['ps']]
    return len(set(names)) == len(names)


def receiver_of(c):
    """the receiver of the decorated function, from the property text: the name of the FIRST parameter of its signature if that
    name is `self` (a method) - else the function has none, whatever else is called self"""
    sg = c['sig']
    names = [s_['name'] for s_ in sg['pos']] + ([sg.get('varName', 1)] if sg['varArgs'] else []) + [s_['name'] for s_ in sg['kwOnly']]
    return 0 if names[:1] == [0] else None


def is_clean_call(c):
    """the call is one Python itself would accept for the undecorated function as far as names go: no surplus keyword or
    positional, no name passed twice, every declared Parameter names a signature parameter; and the trailing Flask block
    of _wrapper_content cannot fire"""
    names = [s['name'] for s in c['sig']['pos'] + c['sig']['kwOnly']]
    posn = [s['name'] for s in c['sig']['pos']]
    if c['sig']['varArgs'] or len(c['args']) > len(posn):
        return False
    if not c['ignore']:
        if any(k not in names for k, _ in c['kw']) or any(k in posn[:len(c['args'])] for k, _ in c['kw']):
            return False
    if any(p['name'] not in names for p in c['ps']) or not distinct_parameters(c):
        return False
    if c['strict'] and all(p['flaskJson'] for p in c['ps']):
        return False
    return True


def pfail_byname(case, impl, model):
    """P_C13, decided with spec.byName (functions without *args only)"""
    c = case['c']
    if c['sig']['varArgs'] or not distinct_parameters(c):
        return None         # outside the property's quantifier: only the correspondence is checked
    s = model['spec']['byName']
    ran = impl['binding'] is not None
    if ran:
        if 'ok' not in s:
            return f"the body ran although the by-name specification raises {s['exc']}"
        if impl['binding']['named'] != sorted(s['ok']) or impl['binding']['extras']:
            return f"the body observed {impl['binding']['named']} but the by-name binding is {sorted(s['ok'])}"
    elif 'ok' in s and is_clean_call(c):
        return f"the body did not run ({impl['out']}) although the by-name specification binds {sorted(s['ok'])}"
    # external sources are consulted only for parameters the caller did not supply (observable for harness-defined sources)
    if not c['ignore']:
        posn = [sp['name'] for sp in c['sig']['pos']][:len(c['args'])]
        supplied = set(posn) | set(k for k, _ in c['kw'])
        for n in impl['loads']:
            if n in supplied:
                return f'the external source of parameter {NAMES[n]} was loaded although the caller passed a value'
    return None


def pfail_gate(case, impl, model):
    """P_C12, decided with spec.gate (every signature, `*args` included: items in processing order, the surplus positionals paired
    with the declared parameters the caller did not supply) and, for what lands in `*args`, spec.allowed.
    Returns None | message | ('FINDING:<id>', message): a failure inside a region the Lean side names (model['regions'] = the
    complements of the guards of the `_partial` theorems) is attributed to the finding recorded for that region."""
    c = case['c']
    ran = impl['binding'] is not None
    sp = model['spec']
    regions = model.get('regions') or {}

    def fail(msg, arrival=False):
        # the zip branch of the positional loop does not see exactly the surplus positionals / does not refuse them under strict
        if regions.get('surplus'):
            return ('FINDING:varPositionalSurplusDropped', msg)
        # ARGS mode of a plain function with *args hands the dict over in arrival order
        if arrival and regions.get('arrival'):
            return ('FINDING:varArgsHandOverInArrivalOrder', msg)
        return msg
    g = sp['gate']
    # every validator invocation receives its predecessor's output, in processing order, and none after the first failing item
    if impl['journal'] != g['journal']:
        return fail(f"validator invocations {impl['journal']} differ from the chain order the property prescribes {g['journal']}")
    if 'exc' in g['out']:
        if ran:
            return fail(f"the body ran although the gate raises {g['out']['exc']}")
        if impl['out'] != g['out']['exc']:
            return fail(f"raised {impl['out']} instead of {g['out']['exc']}")
        return None
    res = dict((k, v) for k, v in g['out']['ok'])
    if not ran:
        if impl['out'][0].startswith('VAL:') or impl['out'][0].startswith('ESC:'):
            return fail(f"raised {impl['out']} although every step accepted")
        return None
    if c['mode'] == 'KWARGS_WITHOUT_NONE':
        res = {k: v for k, v in res.items() if v is not None}
    dfl = sig_defaults(c)
    # by name, for every named parameter - whatever the parameters and the keywords of the call are called, with or without *args
    for n, v in impl['binding']['named']:
        want = res[n] if n in res else dfl.get(n, '?')
        if v != want:
            return fail(f'the body saw {v} for {NAMES[n]}; the chain output / default is {want}', arrival=True)
    # what lands in *args: chain outputs, defaults or undeclared pass-throughs (name-insensitive)
    if impl['binding']['extras']:
        allowed = sp['allowed']
        var_name = c['sig'].get('varName', 1)
        for v in impl['binding']['extras']:
            if v not in allowed:
                return fail(f'the body saw {v} in *{NAMES[var_name]}, which is no chain output, default or undeclared pass-through'
                            + (' (it is the tuple of the surplus positionals)' if v == c['sig'].get('tup') else ''), arrival=True)
    return None


def extra_coverage(results):
    flat, scn = [], {'scenarios': 0, 'calls_executed': 0, 'inner_calls_executed': 0, 'scenarios_with_two_function_objects': 0,
                     'max_nesting_depth': 0, 'calls_on_a_function_object_that_was_called_before': 0}
    for (c, i, m, j) in results:
        if 'calls' in c['c']:
            subs = sub_results(c, i, m)
            scn['scenarios'] += 1
            scn['calls_executed'] += len(subs)
            scn['inner_calls_executed'] += sum(1 for sub, _, _ in subs if sub['x']['inner'])
            scn['scenarios_with_two_function_objects'] += len(c['x']['scn']['fns']) > 1
            meta = c['x']['scn']['calls']
            seen = set()
            for sub, _, _ in subs:
                d, k = 0, sub['x']['call']
                while meta[k]['parent'] is not None:
                    d, k = d + 1, meta[k]['parent']
                scn['max_nesting_depth'] = max(scn['max_nesting_depth'], d)
                fn = meta[sub['x']['call']]['fn']
                scn['calls_on_a_function_object_that_was_called_before'] += fn in seen
                seen.add(fn)
            flat += [(sub, si, sm, j) for sub, si, sm in subs]
        else:
            flat.append((c, i, m, j))
    results = flat
    branches = {}
    feat = {}

    def hit(k):
        feat[k] = feat.get(k, 0) + 1
    for (c, i, m, j) in results:
        o = c['x'].get('origin', '?')
        branches[o] = branches.get(o, 0) + 1
        cc = c['c']
        declared = set(p['name'] for p in cc['ps'])
        npos = len(cc['sig']['pos'])
        ran = i['binding'] is not None
        hit('outcome:' + i['out'][0] + (':' + (i['out'][2] if isinstance(i['out'][2], str) else 'validator') if i['out'][0] == 'VAL:Parameter' else ''))
        if cc['ignore']:
            hit('ignore_input')
        else:
            if any(k in declared for k, _ in cc['kw']):
                hit('kw loop: declared name')
            if any(k not in declared for k, _ in cc['kw']):
                hit('kw loop: undeclared name (strict)' if cc['strict'] else 'kw loop: undeclared name (passes)')
            if cc['sig']['varArgs'] and len(cc['args']) > npos:
                hit('positional loop: *args zip branch' if cc['sig'].get('varName', 1) == 1 else 'positional loop: zip branch, VAR_POSITIONAL parameter not spelled *args')
            if any(s_['dflt'] not in (NOV, None) and c['x']['lits'].get(str(s_['dflt'])) == STAR_ARGS_TEXT for s_ in cc['sig']['pos'] + cc['sig']['kwOnly']):
                hit("a default value '*args' (the text *args inside str(signature))")
            for s_ in cc['sig']['pos'][(1 if c['x']['method'] else 0):] + cc['sig']['kwOnly']:
                if s_['name'] in (0, 1, 8, 9):
                    hit('ordinary parameter named ' + NAMES[s_['name']])
            if c['x'].get('recvKw'):
                hit('method: the receiver passed by keyword (K.f(self=obj, ...))' + (' under strict' if cc['strict'] else ''))
            elif any(k == 0 for k, _ in cc['kw']):
                hit('keyword called self on a ' + ('method (a second value for the receiver)' if c['x']['method'] else
                                                    ('plain function' if receiver_of(cc) is None else 'function with a receiver')))
            if not cc['sig']['varArgs'] and len(cc['args']) > npos:
                hit('positional loop: bind_partial TypeError')
            if any(s['name'] not in declared and s['name'] != 0 for s in cc['sig']['pos'][:len(cc['args'])]):
                hit('positional loop: undeclared name')
        if ran:
            hit('hand-over: ' + cc['mode'] + (' method' if c['x']['method'] else '') + (' *args' if cc['sig']['varArgs'] else ''))
            if i['loads'] or any(p['ext'] != NOV for p in cc['ps']):
                hit('body ran with an external source present')
            if cc['mode'] == 'KWARGS_WITHOUT_NONE' and any(v is not None and v <= 7 for _, v in i['binding']['named']):
                hit('KWARGS_WITHOUT_NONE kept a falsy non-None value')
            if any(v is None for _, v in i['binding']['named']):
                hit('body saw None')
        if i['out'][0] == 'VAL:Parameter' and isinstance(i['out'][2], list):
            # the validator that rejected (the one the model names; correspondence is checked elsewhere)
            for p_ in cc['ps']:
                if p_['name'] == i['out'][1] and i['out'][2][1] < len(p_['vals']):
                    st_ = p_['vals'][i['out'][2][1]]
                    car = (st_.get('wrap') or [st_.get('pn')])[-1]
                    if car is not None and car != i['out'][1]:
                        hit("rejection: the validator's exception carries a foreign parameter_name" + (' (via validate_param)' if st_.get('wrap') else '')
                            + (', the name of another declared Parameter' if car in declared else ''))
                        if len(st_.get('wrap') or ()) > 1:
                            hit('rejection: nested validate_param delegations')
        if cc['req'] != 'none':
            hit('flask request context: ' + ('json' if isinstance(cc['req'], list) else 'not json'))
    return {'cases_by_generator': branches, 'features_hit': dict(sorted(feat.items())), 'scenarios': scn}


def nontrivial(case, impl):
    c = case['c']
    return bool(c['kw']) or len(c['args']) > (1 if case['x']['method'] else 0) or bool(c['ps'])


# ---------------------------------------------------------------- enumerations

def call_shapes(n_pos, kwo, omissions=True):
    """every split of a call into a positional prefix and a keyword rest: (k, ordered tuple of names passed by keyword)"""
    out = []
    for k in range(n_pos + 1):
        rest = list(range(k, n_pos)) + list(kwo)
        subsets = [rest]
        if omissions:
            subsets = [list(s) for r in range(len(rest) + 1) for s in itertools.combinations(rest, r)]
        for s in subsets:
            for perm in itertools.permutations(s):
                out.append((k, perm))
    return out


def byname_matrix(rng, n, omissions=True, full_flags=True, stride=1):
    """C13's matrix for n named parameters: all declaration orders x all call shapes x 3 modes x strict x all source
    patterns {plain, external with value, external without value}^n; the remaining dimensions (method, async, number of
    defaulted / keyword-only parameters, required, Parameter default, a None / falsy value) cycle with a counter."""
    base_names = ['a', 'b', 'c', 'd'][:n]
    out = []
    ctr = rng.randrange(10007)
    shapes = call_shapes(n, [], omissions)
    for order in itertools.permutations(range(n)):
        for (k, kws) in shapes:
            for src in itertools.product((0, 1, 2), repeat=n):
                for mode in MODES:
                    for strict in ((True, False) if full_flags else (None,)):
                        ctr += 1
                        if stride > 1 and ctr % stride:
                            continue
                        z = ctr // stride if stride > 1 else ctr
                        if strict is None:
                            strict = bool(z % 2)
                        method = bool((z // 2) % 2)
                        is_async = (z // 4) % 3 == 0
                        ndef = (z // 12) % (n + 1)
                        # ordinary parameters that merely carry a conventional name (`args`, `kwargs`, `cls`) cycle too
                        names = list(base_names)
                        nv = (z // 5) % 7
                        if nv == 1:
                            names[0] = 'args'
                        elif nv == 2:
                            names[n - 1] = 'args'
                        elif nv == 3:
                            names[n // 2] = 'args'
                            names[(n // 2 + 1) % n] = 'kwargs' if n > 1 else names[0]
                        elif nv == 4:
                            names[0] = 'cls'
                            names[n - 1] = 'kwargs' if n > 1 else names[0]
                        elif nv >= 5:
                            # substrings / superstrings of self, cls, args, kwargs; names of the library's own keywords and locals
                            pick = [RICH_NAMES[(z // 35 + 11 * i) % len(RICH_NAMES)] for i in range(n)]
                            for i in (range(n) if nv == 5 else [(z // 35) % n]):
                                if pick[i] not in names:
                                    names[i] = pick[i]
                        b = Builder()
                        star = (z // 35) % 3 == 0      # the text `*args` inside str(signature): the string '*args' as a default value
                        pos = [(nm, ((b.lit(STAR_ARGS_TEXT) if star and i == n - 1 else b.obj()) if i >= n - ndef else NOV)) for i, nm in enumerate(names)]
                        sig = {'method': method, 'pos': pos, 'varArgs': False, 'kwOnly': []}
                        params = []
                        for d_i, pi in enumerate(order):
                            nm = names[pi]
                            s = src[pi]
                            zz = z // 7 + 5 * d_i
                            kind, vt, ext, raw = 'plain', None, NOV, None
                            if s:
                                if (zz + pi) % 2:
                                    kind, vt = 'env', 'str'
                                    if s == 1:
                                        raw = ['xq', 'Ab', '41', ''][(zz // 2 + pi) % 4]
                                        ext = b.lit(repr(raw))
                                else:
                                    kind = 'ext'
                                    if s == 1:
                                        ext = [b.obj(), b.obj(), None, b.lit("0")][(zz // 2) % 4]
                            dflt = [NOV, NOV, b.obj(), None, NOV, b.lit("''")][(zz // 3) % 6]
                            params.append({'name': nm, 'kind': kind, 'required': (zz // 5) % 3 != 0, 'dflt': dflt, 'ext': ext, 'vt': vt,
                                           'vals': [{'rej': set(), 'crash': set(), 'map': 'mul', 'k': 1}], 'raw': raw})

                        def val(i):
                            r = (z // 11 + 3 * i) % 13
                            return None if r == 0 else (b.lit(["0", "''", "[]", "False"][(z // 143) % 4]) if r == 1 else b.obj())
                        args = [val(i) for i in range(k)]
                        kw = [(names[i], val(i)) for i in kws]
                        out.append(assemble(b, sig, params, strict, False, mode, is_async, args, kw, origin=f'matrix{n}'))
    return out


def one_param_cascade(rng):
    """required / None / default cascade for a single parameter: every combination"""
    out = []
    ctr = rng.randrange(1000)
    for required in (True, False):
        for dk in range(4):
            for sk in range(3):
                for ck in range(4):
                    for ek in range(3):
                        for mode in MODES:
                            for strict in (True, False):
                                ctr += 1
                                b = Builder()
                                dflt = [NOV, b.obj(), None, b.lit("0")][dk]
                                sd = [NOV, b.obj(), None][sk]
                                ext = [NOV, None, b.obj()][ek]
                                sig = {'method': ctr % 3 == 0, 'pos': [('a', sd)], 'varArgs': False, 'kwOnly': []}
                                p = {'name': 'a', 'kind': 'ext' if ek else 'plain', 'required': required, 'dflt': dflt, 'ext': ext, 'vt': None,
                                     'vals': [{'rej': set(), 'crash': set(), 'map': 'mul', 'k': 1}], 'raw': None}
                                args, kw = [([], []), ([None], []), ([], [('a', None)]), ([b.obj()], [])][ck]
                                out.append(assemble(b, sig, [p], strict, False, mode, ctr % 4 == 0, args, kw, origin='cascade'))
    return out


def gate_enum(rng):
    """a rejection (or none) at every position of every chain, for every way the value can arrive"""
    out = []
    ctr = rng.randrange(1000)
    for n in (1, 2):
        names = ['a', 'b'][:n]
        for vt in (None, 'int'):
            for nv in range(4):
                for style in ('pos', 'kw', 'kwrev', 'ext', 'zip', 'mixed'):
                    for target in range(n):
                        for where in ['none', 'conv'] + list(range(nv)):
                            if where == 'conv' and vt is None:
                                continue
                            for what in ('rej', 'crash'):
                                if where in ('none', 'conv') and what == 'crash':
                                    continue
                                for mode in MODES:
                                    ctr += 1
                                    b = Builder()
                                    varargs = style == 'zip'
                                    names = [['a', 'b'], ['args', 'b'], ['a', 'args'], ['kwargs', 'cls'], ['a', 'b']][(ctr // 3) % 5][:n]
                                    if varargs and ctr % 2:
                                        names = ['a', 'b'][:n]
                                    sig = {'method': ctr % 3 == 0, 'pos': [] if varargs else [(nm, NOV) for nm in names], 'varArgs': varargs, 'kwOnly': []}
                                    vals_in = []
                                    for i in range(n):
                                        bad = (i == target and where == 'conv')
                                        if vt is None:
                                            vals_in.append(b.obj())
                                        else:
                                            vals_in.append(b.lit(["'xq'", '2.5', BYTES_LITS[0]][ctr % 3] if bad else ['17', "'41'", "' 42 '", '23'][(ctr + i) % 4]))
                                    params = []
                                    order = list(range(n)) if ctr % 2 else list(reversed(range(n)))
                                    for i in order:
                                        params.append({'name': names[i], 'kind': 'ext' if style == 'ext' else 'plain', 'required': True, 'dflt': NOV,
                                                       'ext': vals_in[i] if style == 'ext' else NOV, 'vt': vt,
                                                       'vals': [{'rej': set(), 'crash': set(), 'map': 'mul', 'k': j + 1} for j in range(nv)], 'raw': None})
                                    if style == 'pos':
                                        args, kw = list(vals_in), []
                                    elif style == 'kw':
                                        args, kw = [], list(zip(names, vals_in))
                                    elif style == 'kwrev':
                                        args, kw = [], list(reversed(list(zip(names, vals_in))))
                                    elif style == 'mixed':
                                        args, kw = vals_in[:1], list(zip(names, vals_in))[1:]
                                    elif style == 'zip':
                                        args, kw = [vals_in[i] for i in order], []
                                    else:
                                        args, kw = [], []
                                    if isinstance(where, int):
                                        p = [q for q in params if q['name'] == names[target]][0]
                                        ins = chain_inputs(b, p, vals_in[target])
                                        if where in ins:
                                            p['vals'][where][what].add(ins[where])
                                    out.append(assemble(b, sig, params, True, False, mode, ctr % 4 == 1, args, kw, origin='gate_enum'))
    return out


def naming_enum(rng):
    """which Parameter a rejection names: 2-3 Parameters, the rejecting validator at every position of a chain of 1-2, its
    ValidatorException carrying a parameter_name already - set by the validator itself, by the validate_param() of one delegating
    validator, of two nested ones, or both - equal to ANOTHER declared Parameter of the same function, to its own Parameter, to an
    undeclared name, or to '' - x the ways the value arrives (positional, keyword in both orders, external source, *args zip) x mode"""
    out = []
    ctr = rng.randrange(1000)
    for n in (2, 3):
        for target in range(n):
            for nv in (1, 2):
                for where in range(nv):
                    for how in ('pn', 'wrap', 'wrap2', 'pn+wrap'):
                        for which in ('other', 'own', 'undeclared', 'empty'):
                            for style in ('pos', 'kw', 'kwrev', 'ext', 'zip'):
                                for mode in MODES:
                                    ctr += 1
                                    b = Builder()
                                    varargs = style == 'zip'
                                    names = [['a', 'b', 'c'], ['b', 'a', 'c'], ['args', 'b', 'kwargs'], ['cls', 'a', 'args']][(ctr // 3) % 4][:n]
                                    if varargs:
                                        names = ['a', 'b', 'c'][:n]
                                    sig = {'method': ctr % 3 == 0, 'pos': [] if varargs else [(nm, NOV) for nm in names], 'varArgs': varargs, 'kwOnly': [],
                                           'varName': ['args', 'rest'][ctr % 2]}
                                    vals_in = [b.obj() for _ in range(n)]
                                    order = list(range(n)) if ctr % 2 else list(reversed(range(n)))
                                    params = []
                                    for i in order:
                                        params.append({'name': names[i], 'kind': 'ext' if style == 'ext' else 'plain', 'required': True, 'dflt': NOV,
                                                       'ext': vals_in[i] if style == 'ext' else NOV, 'vt': None,
                                                       'vals': [{'rej': set(), 'crash': set(), 'map': 'mul', 'k': j + 1} for j in range(nv)], 'raw': None})
                                    own = names[target]
                                    other = names[(target + 1 + (ctr // 7) % (n - 1)) % n]
                                    car = {'other': other, 'own': own, 'undeclared': ['zz', 'yy'][ctr % 2], 'empty': ''}[which]
                                    inner = {'other': names[(target + 1) % n], 'own': other, 'undeclared': own, 'empty': other}[which]
                                    p = [q for q in params if q['name'] == own][0]
                                    st = p['vals'][where]
                                    if how == 'pn':
                                        st['pn'] = car
                                    elif how == 'wrap':
                                        st['wrap'] = [car]
                                    elif how == 'wrap2':
                                        st['wrap'] = [inner, car]          # the outermost delegation labels last
                                    else:
                                        st['pn'], st['wrap'] = inner, [car]
                                    if style == 'pos':
                                        args, kw = list(vals_in), []
                                    elif style == 'kw':
                                        args, kw = [], list(zip(names, vals_in))
                                    elif style == 'kwrev':
                                        args, kw = [], list(reversed(list(zip(names, vals_in))))
                                    elif style == 'zip':
                                        args, kw = [vals_in[i] for i in order], []
                                    else:
                                        args, kw = [], []
                                    st['rej'].add(chain_inputs(b, p, vals_in[target])[where])
                                    out.append(assemble(b, sig, params, bool(ctr % 5), False, mode, ctr % 4 == 1, args, kw, origin='naming_enum'))
    return out


def names_enum(rng):
    """the NAME of a parameter must not matter: `def f(a, <name>)` / `def f(<name>, a)` for every name of the rich pool (single
    letters, substrings / superstrings of self / cls / args / kwargs, the library's own keywords and locals) x a Parameter declared
    for it or not x arrival route (positional, keyword, mixed, positional in a function with *args + a surplus positional) x strict x
    mode; method / async / position of the name cycle with a counter"""
    out = []
    ctr = rng.randrange(1000)
    mk = lambda nm, **kw: dict({'name': nm, 'kind': 'plain', 'required': True, 'dflt': NOV, 'ext': NOV, 'vt': None,
                                'vals': [{'rej': set(), 'crash': set(), 'map': 'mul', 'k': 1}], 'raw': None}, **kw)
    for nm in RICH_NAMES:
        for declared in (False, True):
            for route in ('pos', 'kw', 'mixed', 'varpos'):
                for strict in (True, False):
                    for mode in MODES:
                        ctr += 1
                        b = Builder()
                        other = 'a' if nm != 'a' else 'b'
                        first = bool((ctr // 3) % 2)
                        names = [nm, other] if first else [other, nm]
                        varargs = route == 'varpos'
                        var_name = 'rest' if nm == 'args' else ['args', 'rest'][ctr % 2]
                        sig = {'method': ctr % 3 == 0, 'pos': [(n_, NOV) for n_ in names], 'varArgs': varargs, 'kwOnly': [], 'varName': var_name}
                        params = [mk(other)] + ([mk(nm)] if declared else [])
                        if varargs:
                            params.append(mk('zz', required=False, dflt=b.obj()))       # takes the surplus positional
                        if ctr % 2:
                            params.reverse()
                        vals = [b.obj(), b.obj()]
                        if route == 'pos':
                            args, kw = list(vals), []
                        elif route == 'kw':
                            args, kw = [], list(zip(names, vals))
                            if ctr % 4 >= 2:
                                kw.reverse()
                        elif route == 'mixed':
                            args, kw = vals[:1], [(names[1], vals[1])]
                        else:
                            args, kw = list(vals) + [b.obj()], []
                        out.append(assemble(b, sig, params, strict, False, mode, ctr % 4 == 1, args, kw, origin='names_enum'))
    return out


def receiver_enum(rng):
    """the RECEIVER is recognised by the signature, not by the key: (1) plain functions `def f(a=D)` / `def f(x=D, a=D)` / `def f(a, b=D)`
    called with a keyword `self` (the value rejected by the chain of `a` - it must never reach the body) next to None / a value / nothing
    for the declared parameter; (2) an ordinary parameter called self in a non-first position, declared or not, positional / keyword /
    mixed; (3) real methods `def f(self, a, b=D)` with the receiver positional (call on the instance) or by keyword (call on the class),
    a Parameter declared for `self` or not, a second value for `self`;  each x strict x mode x sync / async"""
    out = []
    mk = lambda nm, **kw: dict({'name': nm, 'kind': 'plain', 'required': False, 'dflt': NOV, 'ext': NOV, 'vt': None,
                                'vals': [{'rej': set(), 'crash': set(), 'map': 'mul', 'k': 1}], 'raw': None}, **kw)
    for strict in (False, True):
        for mode in MODES:
            for is_async in (False, True):
                # (1) plain functions
                for shape in ('a', 'xa', 'ab'):
                    for call in ('none_self', 'self', 'kw_self', 'pos_self', 'self_first'):
                        for rejects in (True, False):
                            b = Builder()
                            X = b.obj()
                            if shape == 'a':
                                sig = {'method': False, 'pos': [('a', b.obj())], 'varArgs': False, 'kwOnly': []}
                            elif shape == 'xa':
                                sig = {'method': False, 'pos': [('x', b.obj()), ('a', b.obj())], 'varArgs': False, 'kwOnly': []}
                            else:
                                sig = {'method': False, 'pos': [('a', NOV), ('b', b.obj())], 'varArgs': False, 'kwOnly': []}
                            params = [mk('a')] + ([mk('b')] if shape == 'ab' else [])
                            if rejects:
                                params[0]['vals'][0]['rej'].add(X)        # the chain of `a` would reject the value of the keyword
                            v = b.obj()
                            if call == 'none_self':
                                args, kw = ([None] if shape != 'xa' else []), [('self', X)] + ([('a', None)] if shape == 'xa' else [])
                            elif call == 'self':
                                args, kw = [], [('self', X)]
                            elif call == 'kw_self':
                                args, kw = [], [('a', v), ('self', X)]
                            elif call == 'pos_self':
                                args, kw = [v], [('self', X)]
                            else:
                                args, kw = [], [('self', X), ('a', v)]
                            out.append(assemble(b, sig, params, strict, False, mode, is_async, args, kw, origin='receiver_enum'))
                # (2) an ordinary parameter called self, not the first one
                for declared in (False, True):
                    for dflt in (False, True):
                        for route in ('pos', 'kw', 'mixed', 'omitted'):
                            if route == 'omitted' and not dflt:
                                continue
                            b = Builder()
                            sig = {'method': False, 'pos': [('a', NOV), ('self', b.obj() if dflt else NOV)], 'varArgs': False, 'kwOnly': []}
                            params = [mk('a', required=True)] + ([mk('self')] if declared else [])
                            if len(out) % 2:
                                params.reverse()
                            v, w = b.obj(), b.obj()
                            args, kw = {'pos': ([v, w], []), 'kw': ([], [('self', w), ('a', v)]), 'mixed': ([v], [('self', w)]),
                                        'omitted': ([v], [])}[route]
                            out.append(assemble(b, sig, params, strict, False, mode, is_async, args, kw, origin='receiver_enum'))
                # (3) real methods
                for declared in (False, True):
                    for recv in ('instance', 'keyword_first', 'keyword_last', 'twice'):
                        for route in ('pos', 'kw', 'mixed'):
                            if recv in ('keyword_first', 'keyword_last') and route != 'kw':
                                continue
                            b = Builder()
                            sig = {'method': True, 'pos': [('a', NOV), ('b', b.obj())], 'varArgs': False, 'kwOnly': []}
                            params = [mk('a', required=True), mk('b')] + ([mk('self')] if declared else [])
                            if len(out) % 2:
                                params.reverse()
                            v, w = b.obj(), b.obj()
                            args, kw = {'pos': ([v, w], []), 'kw': ([], [('b', w), ('a', v)]), 'mixed': ([v], [('b', w)])}[route]
                            if recv == 'keyword_first':
                                kw = [('self', SELF_ID)] + kw
                            elif recv == 'keyword_last':
                                kw = kw + [('self', SELF_ID)]
                            elif recv == 'twice':
                                kw = kw + [('self', b.obj())]
                            out.append(assemble(b, sig, params, strict, False, mode, is_async, args, kw, origin='receiver_enum'))
    return out


def varpos_surplus_enum(rng):
    """the surplus positionals of a VAR_POSITIONAL parameter: def f(a, *rest) / def f(a, b, *rest), plain function and METHOD (the
    receiver is a positional of the call too) x Parameters declared for a prefix of (a, b, c, d) (the rest take the surplus) x 0-3
    surplus positionals x all distinct / the first surplus EQUAL to a named positional / two equal surplus values x strict x mode:
    which Parameter validates which surplus positional, and TooManyArguments when strict leaves a surplus positional without Parameter"""
    out = []
    mk = lambda nm, **kw: dict({'name': nm, 'kind': 'plain', 'required': False, 'dflt': NOV, 'ext': NOV, 'vt': None,
                                'vals': [{'rej': set(), 'crash': set(), 'map': 'mul', 'k': 1}], 'raw': None}, **kw)
    ctr = rng.randrange(1000)
    for method in (False, True):
        for npos in (1, 2):
            for ndecl in range(npos, 5):
                for nsur in range(4):
                    for equal in ('distinct', 'named', 'surplus'):
                        if (equal == 'named' and nsur < 1) or (equal == 'surplus' and nsur < 2):
                            continue
                        for strict in (True, False):
                            for mode in MODES:
                                ctr += 1
                                b = Builder()
                                names = ['a', 'b', 'c', 'd'][:ndecl]
                                sig = {'method': method, 'pos': [(n_, NOV) for n_ in names[:npos]], 'varArgs': True, 'kwOnly': [],
                                       'varName': ['args', 'rest'][ctr % 2]}
                                params = [mk(n_, required=(i < npos), dflt=(NOV if i < npos else b.obj())) for i, n_ in enumerate(names)]
                                if ctr % 3 == 0:
                                    params.reverse()
                                args = [b.obj() for _ in range(npos + nsur)]
                                if equal == 'named':
                                    args[npos] = args[ctr % npos]
                                elif equal == 'surplus':
                                    args[npos + 1] = args[npos]
                                kw = []
                                if ctr % 5 == 0 and ndecl > npos:
                                    kw = [(names[npos], b.obj())]          # one of the later Parameters supplied by keyword
                                if ctr % 7 == 0 and nsur:
                                    # the chain of the Parameter that should take the first surplus positional rejects it
                                    tgt = [p_ for p_ in params if p_['name'] not in names[:npos] and p_['name'] not in [k for k, _ in kw]]
                                    if tgt:
                                        tgt[0]['vals'][0]['rej'].add(args[npos])
                                out.append(assemble(b, sig, params, strict, False, mode, ctr % 4 == 1, args, kw, origin='varpos_surplus'))
    return out


def surplus_enum(rng):
    out = []
    ctr = rng.randrange(1000)
    for strict in (True, False):
        for kind in ('kw_unknown', 'pos_extra', 'undeclared_pos', 'undeclared_kw', 'declared_not_in_sig', 'none'):
            for mode in MODES:
                for method in (False, True):
                    for is_async in (False, True):
                        ctr += 1
                        b = Builder()
                        sig = {'method': method, 'pos': [('a', NOV), ('b', NOV)], 'varArgs': False, 'kwOnly': []}
                        mk = lambda nm, **kw: dict({'name': nm, 'kind': 'plain', 'required': True, 'dflt': NOV, 'ext': NOV, 'vt': None,
                                                    'vals': [{'rej': set(), 'crash': set(), 'map': 'mul', 'k': 1}], 'raw': None}, **kw)
                        params = [mk('a'), mk('b')]
                        args, kw = [b.obj()], [('b', b.obj())]
                        if kind == 'kw_unknown':
                            kw.append(('zz', b.obj()))
                        elif kind == 'pos_extra':
                            args, kw = [b.obj(), b.obj(), b.obj()], []
                        elif kind == 'undeclared_pos':
                            params = [mk('b')]
                        elif kind == 'undeclared_kw':
                            params = [mk('a')]
                        elif kind == 'declared_not_in_sig':
                            params.append(mk('zz', required=False, dflt=b.obj()))
                        if ctr % 2:
                            params.reverse()
                        out.append(assemble(b, sig, params, strict, False, mode, is_async, args, kw, origin='surplus'))
    return out


def varpos_enum(rng):
    """VAR_POSITIONAL parameter spelled `*args` / `*rest` x a Parameter declared for that very name or not x an unused Parameter
    outside the signature (required / defaulted / none) x 0..2 surplus positionals x strict x mode x method x async"""
    out = []
    ctr = rng.randrange(1000)
    for var_name in ('args', 'rest'):
        for own in (False, True):
            for spare in ('none', 'required', 'defaulted'):
                for nsur in (0, 1, 2):
                    for strict in (True, False):
                        for mode in MODES:
                            for method in (False, True):
                                ctr += 1
                                b = Builder()
                                first = ['a', 'kwargs', 'cls'][ctr % 3]
                                sig = {'method': method, 'pos': [(first, NOV)], 'varArgs': True, 'kwOnly': [], 'varName': var_name}
                                mk = lambda nm, **kw: dict({'name': nm, 'kind': 'plain', 'required': True, 'dflt': NOV, 'ext': NOV, 'vt': None,
                                                            'vals': [{'rej': set(), 'crash': set(), 'map': 'mul', 'k': 1}], 'raw': None}, **kw)
                                params = [mk(first)]
                                if own:
                                    params.append(mk(var_name, required=bool(ctr % 2)))
                                if spare == 'required':
                                    params.append(mk('zz'))
                                elif spare == 'defaulted':
                                    params.append(mk('zz', required=False, dflt=b.obj()))
                                if ctr % 4 == 3:
                                    params.reverse()
                                args = [b.obj() for _ in range(1 + nsur)]
                                out.append(assemble(b, sig, params, strict, False, mode, ctr % 5 == 0, args, [], origin='varpos'))
    return out


# ---------------------------------------------------------------- scenarios: histories of calls, re-entrant validators

def invocation_points(b, sig, params, args, kw):
    """validator invocations a call can lead to: [(parameter name, validator index, value id received)] (generator-side
    bookkeeping, used to hang an inner call on an invocation that really happens when nothing fails before it)"""
    pos_names = [n for n, _ in sig['pos']]
    arriving = {}
    for nm, v in list(zip(pos_names, args)) + list(kw):
        arriving.setdefault(nm, []).append(v)
    extra = args[len(pos_names):]
    out = []
    for p in params:
        ins = list(arriving.get(p['name'], []))
        if p['ext'] not in (NOV, None):
            ins.append(p['ext'])
        if sig['varArgs']:
            ins += extra
        for v in ins:
            for j, i in chain_inputs(b, p, v).items():
                if j >= 0 and (p['name'], j, i) not in out:
                    out.append((p['name'], j, i))
    return out


def assemble_scenario(b, pool, fns, calls, origin):
    """pool: the Parameter descriptions (shared objects); fns: [{'sig', 'ps': [pool idx], 'strict', 'ignore', 'mode', 'async'}];
    calls: [{'fn', 'args', 'kw', 'parent': None | index, 'trig': None | (name, j, value id)}] in start order"""
    cs = []
    for cl in calls:
        f = fns[cl['fn']]
        one = assemble(b, f['sig'], [pool[i] for i in f['ps']], f['strict'], f['ignore'], f['mode'], f['async'], cl['args'], cl['kw'])
        cs.append(one['c'])
    x = {'method': fns[calls[0]['fn']]['sig']['method'], 'lits': {str(i): r for i, r in b.lits.items()}, 'origin': origin, 'history': True,
         'scn': {'pool': [{'kind': p['kind'], 'vt': p['vt'], 'raw': p.get('raw')} for p in pool],
                 'fns': [{'method': f['sig']['method'], 'ps': list(f['ps'])} for f in fns],
                 'calls': [{'fn': cl['fn'], 'parent': cl['parent'],
                            'trig': None if cl['trig'] is None else [NID[cl['trig'][0]], cl['trig'][1], cl['trig'][2]]} for cl in calls]}}
    return {'m': 'validate', 'c': {'calls': cs}, 'x': x}


def second_function(rng, b, prog):
    """another decorated function over the same names that shares Parameter objects with the first one"""
    sig, params, strict, ignore, mode, is_async = prog
    pos = []
    seen = False
    for nm, _ in sig['pos']:
        seen = seen or rng.random() < 0.3
        pos.append((nm, (None if rng.random() < 0.2 else b.obj()) if seen else NOV))
    sig2 = dict(sig, pos=pos, method=(rng.random() < 0.3) and all(n != 'self' for n, _ in pos + sig['kwOnly']),
                kwOnly=[(nm, (b.obj() if rng.random() < 0.5 else NOV)) for nm, _ in sig['kwOnly']])
    idx = list(range(len(params)))
    rng.shuffle(idx)
    if len(idx) > 1 and rng.random() < 0.3:
        idx = idx[:-1]
    return {'sig': sig2, 'ps': idx, 'strict': rng.random() < 0.6, 'ignore': rng.random() < 0.05, 'mode': rng.choice(MODES),
            'async': rng.random() < 0.3}


def scenario_cases(rng, count, allow_varargs, origin='scenario'):
    """seeded histories: 2-4 top-level calls on one decorated function object (sometimes a second one that shares its Parameter
    objects), validators that re-enter (the same function mostly) with other arguments, nesting depth up to 3"""
    out = []
    while len(out) < count:
        b = Builder()
        prog = gen_program(rng, b, allow_varargs)
        sig, params, strict, ignore, mode, is_async = prog
        if not params:
            continue
        for p in params:
            if not p['vals'] and rng.random() < 0.7:
                p['vals'].append({'rej': set(), 'crash': set(), 'map': 'mul', 'k': 1})
        fns = [{'sig': sig, 'ps': list(range(len(params))), 'strict': strict, 'ignore': ignore and rng.random() < 0.3, 'mode': mode, 'async': is_async}]
        if rng.random() < 0.35:
            fns.append(second_function(rng, b, prog))
        calls = []

        def add_call(parent, trig, depth, fn=None):
            if fn is None:
                fn = 0 if (len(fns) == 1 or rng.random() < 0.7) else 1
            f = fns[fn]
            ps = [params[i] for i in f['ps']]
            args, kw = gen_call(rng, b, f['sig'], ps, allow_surplus=rng.random() < 0.3)
            me = len(calls)
            calls.append({'fn': fn, 'args': args, 'kw': kw, 'parent': parent, 'trig': trig})
            if depth < 3 and rng.random() < (0.65 if depth == 0 else 0.3) and not f['ignore']:
                pts = invocation_points(b, f['sig'], ps, args, kw)
                if pts:
                    for t in rng.sample(pts, min(len(pts), rng.choice([1, 1, 2]))):
                        # the validator re-enters: mostly the very function it is validating for
                        add_call(me, t, depth + 1, fn=(fn if rng.random() < 0.75 or len(fns) == 1 else 1 - fn))
        for _ in range(rng.choice([2, 2, 3, 4])):
            add_call(None, None, 0)
        r = rng.random()
        if r < 0.35:
            cl = rng.choice(calls)
            f = fns[cl['fn']]
            place_rejection(rng, b, f['sig'], [params[i] for i in f['ps']], cl['args'], cl['kw'], 'rej' if r < 0.3 else 'crash')
        out.append(assemble_scenario(b, params, fns, calls, origin))
    return out


def reentrant_enum(rng):
    """directed: def f(x, y=<default>) with Parameters x (chain of 2) and y; the outer call and the call a validator of x makes
    while the outer call is still running differ in whether they supply y - every combination of who omits what x required /
    Parameter default x which validator re-enters x same function or a second one sharing the Parameter objects x call styles x
    mode x strict x sync/async x method; then the outer call is repeated sequentially on the same function object"""
    out = []
    ctr = rng.randrange(1000)
    for kind in ('outer_omits', 'inner_omits', 'both_omit', 'none_omits', 'outer_rejects_later', 'inner_rejects'):
        for y_required in (True, False):
            for trig_j in (0, 1):
                for two in (False, True):
                    for outer_style in ('kw', 'pos'):
                        for inner_style in ('kw', 'pos', 'kwrev'):
                            for mode in MODES:
                                for strict in (True, False):
                                    ctr += 1
                                    b = Builder()
                                    xn, yn = [('a', 'b'), ('args', 'b'), ('a', 'kwargs'), ('cls', 'args')][(ctr // 2) % 4] if ctr % 3 == 0 else ('a', 'b')
                                    method, is_async = (ctr // 3) % 3 == 0, (ctr // 5) % 3 == 0
                                    sig = {'method': method, 'pos': [(xn, NOV), (yn, b.obj())], 'varArgs': False, 'kwOnly': []}
                                    mk = lambda nm, **kw: dict({'name': nm, 'kind': 'plain', 'required': True, 'dflt': NOV, 'ext': NOV, 'vt': None,
                                                                'vals': [{'rej': set(), 'crash': set(), 'map': 'mul', 'k': j + 1} for j in range(2)],
                                                                'raw': None}, **kw)
                                    pool = [mk(xn), mk(yn, required=y_required, dflt=(NOV if y_required or ctr % 2 else b.obj()))]
                                    fns = [{'sig': sig, 'ps': [0, 1] if ctr % 4 else [1, 0], 'strict': strict, 'ignore': False, 'mode': mode, 'async': is_async}]
                                    if two:
                                        fns.append({'sig': dict(sig, pos=[(xn, NOV), (yn, b.obj())], method=not method), 'ps': [1, 0] if ctr % 4 else [0, 1],
                                                    'strict': not strict, 'ignore': False, 'mode': MODES[(MODES.index(mode) + 1) % 3], 'async': not is_async})
                                    xo, yo, xi, yi = b.obj(), b.obj(), b.obj(), b.obj()

                                    def shape(style, xv, yv, omit):
                                        if style == 'pos':
                                            return ([xv] if omit else [xv, yv]), []
                                        kw = [(xn, xv)] + ([] if omit else [(yn, yv)])
                                        return [], (list(reversed(kw)) if style == 'kwrev' else kw)
                                    oa, ok = shape(outer_style, xo, yo, kind in ('outer_omits', 'both_omit'))
                                    ia, ik = shape(inner_style, xi, yi, kind in ('inner_omits', 'both_omit'))
                                    x_in = chain_inputs(b, pool[0], xo)
                                    calls = [{'fn': 0, 'args': oa, 'kw': ok, 'parent': None, 'trig': None},
                                             {'fn': 1 if two else 0, 'args': ia, 'kw': ik, 'parent': 0, 'trig': (xn, trig_j, x_in[trig_j])},
                                             {'fn': 0, 'args': list(oa), 'kw': list(ok), 'parent': None, 'trig': None}]
                                    if kind == 'outer_rejects_later' and trig_j == 0:
                                        pool[0]['vals'][1]['rej'].add(x_in[1])
                                    elif kind == 'outer_rejects_later':
                                        pool[1]['vals'][0]['rej'].add(yo)
                                    elif kind == 'inner_rejects':
                                        pool[0]['vals'][1]['rej'].add(chain_inputs(b, pool[0], xi)[1])
                                    out.append(assemble_scenario(b, pool, fns, calls, 'reentrant_enum'))
    return out


def sub_results(case, impl, model):
    """(call as a single case, its observation, the model's answer) for every call of a scenario that was executed"""
    scn = case['x']['scn']
    out = []
    for ci, (c, m) in enumerate(zip(case['c']['calls'], scn['calls'])):
        i = impl['calls'][ci]
        if i is None:
            continue
        f = scn['fns'][m['fn']]
        sub = {'m': 'validate', 'c': c, 'x': {'method': f['method'], 'ps': [scn['pool'][pi] for pi in f['ps']], 'lits': case['x']['lits'],
                                              'origin': case['x'].get('origin', 'scenario'), 'call': ci, 'inner': m['parent'] is not None}}
        out.append((sub, i, model['calls'][ci]))
    return out


def judge_scenario(case, impl, model, judge_one):
    """every executed call is judged like a single call (same correspondence, same property predicate); the first failing call
    gives the verdict of the scenario"""
    subs = sub_results(case, impl, model)
    js = [(sub, judge_one(sub, i, m)) for sub, i, m in subs]
    bad_corr = [(sub, j) for sub, j in js if not j['corr']]
    bad = [(sub, j) for sub, j in js if j['pfail'] and not j['finding']] or [(sub, j) for sub, j in js if j['pfail']]
    n_top = sum(1 for m in case['x']['scn']['calls'] if m['parent'] is None)
    n_inner_run = sum(1 for sub, _ in js if sub['x']['inner'])
    res = {'corr': not bad_corr, 'why': '', 'pfail': None, 'finding': None, 'nontrivial': any(j['nontrivial'] for _, j in js),
           'tag': 'scn:' + (js[0][1]['tag'] if js else '-') + f'/{n_top}top/{n_inner_run}inner'}
    if bad_corr:
        sub, j = bad_corr[0]
        res['why'] = f"call {sub['x']['call']} of the scenario: {j['why']}"
    if bad:
        sub, j = bad[0]
        who = 'inner call' if sub['x']['inner'] else 'call'
        res['pfail'] = f"{who} {sub['x']['call']} of the scenario ({len(js)} calls executed): {j['pfail']}"
        res['finding'] = j['finding']
    return res
