"""Twin builders for the amplified run (core.amplified_run): things that are EQUAL under `==` / `hash` / `repr` / `__qualname__` /
`__code__` / `id` but DIFFER in meaning.  A memo keyed by one of those conflates them; the amplified run interleaves every
case with its twins (`plugin.twins(case) -> [case, ...]`) and looks for an outcome that changes.

Two styles of twin, both returned by the `twins` hook of a plugin:
* a twin CASE: a different input that collides with the original under the key (annotation `P` vs the class `Pdup` that has the
  same module, qualified name and repr; value `1` vs `True` vs `1.0`).  It is an ordinary case: the driver answers it, `judge` judges it.
* a PRIMED case: the original case with `x['prime'] = [...]`: the runner first performs decoy actions inside the case's own program
  (a function made a second time from the same `def` - same `__code__` - with other annotations, decorated and called; the same call
  with every scalar replaced by its twin; an argument object freed and another one allocated at the same `id`) and then executes the
  case.  The expected outcome is that of the original (`c` is unchanged), so nothing in the model has to know about it.

Everything here is plain Python on live objects / JSON terms; no plugin state.
"""
import gc, types, copy


# ------------------------------------------------------------------ scalars: 1 <-> True <-> 1.0, 0 <-> False <-> 0.0 <-> -0.0

def scalar_twins(v):
    """values that are == v and hash like v but are of another type (or another sign of zero); [] when there is none"""
    out = []
    if isinstance(v, bool):
        out = [int(v), float(v)]
    elif isinstance(v, int):
        if v in (0, 1):
            out.append(bool(v))
        try:
            f = float(v)
            if f == v:
                out.append(f)
        except OverflowError:
            pass
    elif isinstance(v, float):
        if v != v or v in (float('inf'), float('-inf')):
            return []
        if v == int(v):
            out.append(int(v))
            if v in (0.0, 1.0):
                out.append(bool(v))
        if v == 0.0:
            out.append(-v)          # 0.0 <-> -0.0
    return [t for t in out if t == v and (type(t) is not type(v) or repr(t) != repr(v))]


def scalar_twin(v, to):
    """the twin of scalar v of kind `to` in {'bool', 'int', 'float', 'negzero'} or v itself when there is none"""
    if isinstance(v, (bool, int, float)) and not isinstance(v, complex):
        for t in scalar_twins(v):
            if to == 'bool' and type(t) is bool: return t
            if to == 'int' and type(t) is int: return t
            if to == 'float' and type(t) is float and not (t == 0.0 and repr(t) == '-0.0'): return t
            if to == 'negzero' and type(t) is float and repr(t) == '-0.0': return t
    return v


def twin_object(o, to='rotate'):
    """a deep copy of a plain Python value (scalars, list / tuple / set / frozenset / dict) in which every scalar is replaced by a twin;
    `rotate`: bool -> int -> float -> int"""
    def tw(v):
        if to != 'rotate':
            return scalar_twin(v, to)
        if isinstance(v, bool): return scalar_twin(v, 'int')
        if isinstance(v, int): return scalar_twin(v, 'float')
        if isinstance(v, float): return scalar_twin(v, 'int')
        return v
    if isinstance(o, (bool, int, float)):
        return tw(o)
    if isinstance(o, list):
        return [twin_object(x, to) for x in o]
    if isinstance(o, tuple) and type(o) is tuple:
        return tuple(twin_object(x, to) for x in o)
    if isinstance(o, (set, frozenset)) and type(o) in (set, frozenset):
        return type(o)(twin_object(x, to) for x in o)
    if type(o) is dict:
        return {twin_object(k, to): twin_object(v, to) for k, v in o.items()}
    return o


def interleave_with_twins(items, twin):
    """[a, b] -> [a, twin(a)..., b, twin(b)...]: a per-call memo keyed by the element sees a collision inside ONE value"""
    out = []
    for x in items:
        out.append(x)
        for t in twin(x):
            out.append(t)
    return out


# ------------------------------------------------------------------ classes and functions made twice

def recreate_class(cls, **changes):
    """the class statement executed a second time: a NEW class object with the same `__module__`, `__qualname__`, `__name__`, bases and
    namespace (optionally with changed entries) - what a class factory called twice returns"""
    ns = {k: v for k, v in vars(cls).items() if k not in ('__dict__', '__weakref__')}
    ns.update(changes)
    new = type(cls)(cls.__name__, cls.__bases__, ns)
    new.__qualname__ = cls.__qualname__
    new.__module__ = cls.__module__
    return new


def clone_function(f, annotations=None, defaults=None, kwdefaults=None, doc=None, qualname=None):
    """the `def` executed a second time: a NEW function object sharing `__code__`, `__globals__`, `__name__`, `__qualname__`,
    `__module__` with f, with other annotations / defaults / docstring where given"""
    f = getattr(f, '__func__', f)
    g = types.FunctionType(f.__code__, f.__globals__, f.__name__, f.__defaults__ if defaults is None else tuple(defaults), f.__closure__)
    g.__kwdefaults__ = copy.copy(f.__kwdefaults__) if kwdefaults is None else dict(kwdefaults)
    g.__annotations__ = dict(f.__annotations__) if annotations is None else dict(annotations)
    g.__doc__ = f.__doc__ if doc is None else doc
    g.__qualname__ = qualname or f.__qualname__
    g.__module__ = f.__module__
    g.__dict__.update({k: v for k, v in f.__dict__.items() if k != '__wrapped__'})
    return g


ROTATE = {int: str, str: int, float: str, bool: str, bytes: int, list: dict, dict: list}


def rotated_annotations(f):
    """annotations of f with every plain class replaced by an unrelated one (int -> str, str -> int, ...): same parameter names"""
    import typing
    out = {}
    for k, a in getattr(f, '__annotations__', {}).items():
        if a in ROTATE:
            out[k] = ROTATE[a]
        elif k == 'return':
            out[k] = a
        else:
            out[k] = typing.List[bytes] if a is not typing.List[bytes] else typing.Dict[str, bytes]
    return out


def apply_to_two(decorator, f, g):
    """ONE decorator object applied to two functions (state kept in the decorator's closure is shared by both)"""
    return decorator(f), decorator(g)


# ------------------------------------------------------------------ the same id() twice

def reuse_id(make_first, use_first, make_second, tries=64):
    """allocate an object, let `use_first(obj)` see it, free it, and allocate another object (make_second) until one lands at the SAME
    `id` (CPython reuses the freed block for the next object of the same size class).  Returns (second object, True) or
    (an object at another address, False)."""
    second = None
    for _ in range(tries):
        first = make_first()
        fid = id(first)
        try:
            use_first(first)
        except BaseException:
            pass
        del first
        gc.collect()
        second = make_second()
        if id(second) == fid:
            return second, True
    return second, False
