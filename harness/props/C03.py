"""C03 — @pedantic guards the body: generated programs, calls with exactly one non-conforming value at a random position
(explicit keyword, omitted-but-defaulted with a bad declared default, *args element, **kwargs value) and bodies scripted
to return a non-conforming value; side-effect journal written by the generated bodies."""
import _call_common as C
import _call_reentrant as R
import _gen_common as G

RULE = ('generated programs as in C05 (all callable kinds, sync and async, stacked decorators, needles in the body text); keyword calls in which '
        'one value at a random position is corrupted (45% of calls), declared defaults that do not conform, *args / **kwargs values, bodies '
        'returning a corrupted value (20%) or raising; overlapping calls (the call under test is made from the body of a running call of the same or a sibling callable). non-trivial = some supplied or produced value does not conform')
EXHAUSTIVE = {'quick': False, 'thorough': False}
ASSUMPTIONS = C.__dict__.get('ASSUMPTIONS', ['programs are real files (inspect.getsource works)'])
TRUSTED = ['CPython inspect / functools.wraps semantics', 'generator functions: only the creation of the GeneratorWrapper is exercised here (yield / send / return checks: GenWrap model)']
FINDINGS = [('untruthful', None), ('clazzFails', None)]      # (`namedtupleStructuralArgument` is repaired)


def cases(rng, tier):
    n = 1500 if tier == 'quick' else 12000
    return C.build_cases(rng, n, calls_per=3, style='kw', tag='c03a') + C.build_cases(rng, n // 3, calls_per=2, style=None, tag='c03b') \
        + C.scenario_cases(rng, n // 8, style='kw', tag='c03sc') + C.scenario_cases(rng, n // 16, tag='c03sd') \
        + C.context_clash_cases(rng, 24 if tier == 'quick' else 96) \
        + C.unprintable_cases(rng, 16 if tier == 'quick' else 64) + C.receiver_cases(rng, 12 if tier == 'quick' else 48) \
        + R.reentrant_cases(rng, n // 6, style='kw', tag='c03re') + R.wrapsof_cases(rng, n // 10, style='kw', tag='c03wo') \
        + G.gen_cases(rng, tier)           # generator functions: yield / send / return / throw / close interactions (GenWrap model)


def search(rng, tier, near):
    return C.build_cases(rng, 900, calls_per=3, style='kw', tag='c03s') + G.search_cases(rng, tier, near)


def run_impl(cases):
    return G.run_impl_mixed(cases, R.run_impl)


extra_coverage = C.T.with_trace_coverage(G.coverage)      # + observed branch traces of the call layer (_calltrace_common)


def judge(case, impl, model):
    if case['m'] == G.MODEL:
        return G.judge_guard(case, impl, model)
    corr, why = C.correspondence(case, impl, model)
    s = model['spec']
    out = C.norm_out(impl['out'])
    pedantic = case['c']['fn']['mode'] == 'pedantic'
    pfail = None
    claimed = pedantic and 'iterator' not in model['regions'] and 'fwdUnresolved' not in model['regions']       # guard of args_guard: no one-shot iterator
    # an attribute assignment reaches the property setter positionally by Python's own protocol: claimed like a keyword call
    setter = case['x']['access'][0] == 'propset'
    kwcall = s['keywordCall'] or setter
    # positional calls (dunder methods, *args functions, positional-only parameters): a value of the positional prefix that binds to
    # a declared parameter without default (theorem positional_prefix_guard); Python itself must accept the call (twin)
    posbad = (bool(s.get('positionalPrefixBad')) or bool(s.get('badStarSpec'))) and C.twin_accepts(impl)     # … or an element of *args (Python's binding)
    if claimed and ((s['anyNonConforming'] or setter and s.get('positionalBad')) and kwcall or posbad):
        if impl['ran']:
            pfail = f'the body ran although a supplied value does not conform - {C.describe_case(case)}'
        elif not out.startswith('PED') and C.twin_accepts(impl) and 'clazzFails' not in model['regions']:
            pfail = f'{impl["out"]} instead of PedanticTypeCheckException for a non-conforming argument - {C.describe_case(case)}'
    if pfail is None and claimed and s['badProduced'] and out == 'RET':
        pfail = f'a non-conforming result was handed to the caller - {C.describe_case(case)}'
    finding = None
    if pfail and corr:
        finding = C.shared_finding(model)         # unprintableValueEscapes / receiverByKeywordIndexError
    bad_in = bool(s['anyNonConforming'] or setter and s.get('positionalBad') or posbad)
    return {'corr': corr, 'pfail': pfail, 'finding': finding, 'nontrivial': bool(bad_in or s['badProduced']),
            'tag': f"{case['x']['kind']}/{case['x']['access'][0]}/{case['x']['flavour']}/bad={int(bad_in)}{int(s['badProduced'])}/{out}", 'why': why}


def twins(case):
    """amplified run: primed twins of call-layer cases (one def executed twice with other annotations, number twins: _call_common.twins)"""
    return C.twins(case)


import _checker_common as _K
export_state, import_state = _K.export_state, _K.import_state      # the name table travels with replays / amplified runs


same_outcome = C.same_outcome      # amplified run: `trace` / `world` are diagnostics of sampled executions
