"""Shared by C01 C02 C06 C08 C10 (and the call layer): class table, environment sent to the Lean model, type-directed
generators of (annotation term, value term), concretiser (term -> real typing object / value), reflection
(object -> term, so that the term is always derived from what Python actually built), runner of the real checker."""
import sys, json, random, hashlib, collections, collections.abc, typing, types, functools, operator, abc, dataclasses
from typing import (Any, Union, Optional, List, Set, FrozenSet, Deque, Sequence, Iterable, Collection, Container, AbstractSet,
                    MutableSet, MutableSequence, Dict, DefaultDict, Mapping, MutableMapping, Tuple, Type, Literal, NewType,
                    Callable, NamedTuple, ForwardRef)

# ------------------------------------------------------------------ class table


class P: pass
class C1(P): pass
class C2(P): pass
class G(C1): pass
class U: pass
class MI(U, P): pass
class L(list): pass
class TS(tuple): pass


def _mk_dup():
    class P: pass          # same name as P above, unrelated
    return P


Pdup = _mk_dup()
Pdup.__qualname__ = 'P'      # same module, same qualified name, same repr as P: only identity tells them apart


class SelfA: pass            # placeholders for "the generated dataclass itself" (C10: self-referential fields); the real
class SelfB(SelfA): pass     # classes are created per case and substituted through INST_FACTORY when values are built
class Loc: pass              # placeholder for a class defined inside a function (C10: names of the calling frame)
class Recv: pass             # placeholder for "the object the method is called on", passed again as an argument (call layer)


class Unp:
    """ a value that cannot be formatted: str(), repr() and format() of an instance raise (call layer / C08: building an error message
    about such a value must not replace the PedanticException, and a conforming one must simply pass) """
    def __str__(self): raise ValueError('Unp: no str')
    def __repr__(self): raise ValueError('Unp: no repr')
    def __format__(self, spec): raise ValueError('Unp: no format')


class Text: pass             # a user class whose name is also exported by `typing` (typing.Text is str)
class Counter: pass          # … and one that names a typing generic


class NT1(NamedTuple):
    a: int
    b: str


class NT2(NamedTuple):     # same fields as NT1, unrelated class
    a: int
    b: str


class NT3(NamedTuple):
    x: int


class NT0(NamedTuple):     # a NamedTuple without fields: `_asdict()` is {} (equal to the `__annotations__` of every class that has none of its own)
    pass


class NTSub(NT1):          # a subclass of a NamedTuple class (itself a NamedTuple class: inherits `_fields`; no annotations of its own)
    pass


class PF:                  # a plain class with the same field names as NT1
    a: int = 0
    b: str = ''


@dataclasses.dataclass
class DC:                  # a dataclass with the same field names as NT1
    a: int = 0
    b: str = ''


NoneType = type(None)
GeneratorType = types.GeneratorType
ListIterator = type(iter([]))
CLASSES = [object, type, abc.ABCMeta, NoneType, bool, int, float, str, bytes, tuple, list, set, frozenset, collections.deque, dict,
           collections.defaultdict, collections.OrderedDict,
           collections.abc.Sequence, collections.abc.Iterable, collections.abc.Collection, collections.abc.Container,
           collections.abc.Set, collections.abc.MutableSet, collections.abc.MutableSequence, collections.abc.Mapping,
           collections.abc.MutableMapping, collections.abc.Iterator, GeneratorType, ListIterator,
           P, C1, C2, G, U, MI, L, TS, Pdup, NT1, NT2, NT3, DC, Text, Counter, collections.Counter, map, filter, SelfA, SelfB, Loc, Recv, NT0, NTSub, PF, Unp]
IDX = {c: i for i, c in enumerate(CLASSES)}
NAMES = {}


_BY_ID = {}


def nid(s):
    """name -> number, independent of the order in which names are met (stored cases stay valid when the tables grow)"""
    i = NAMES.get(s)
    if i is None:
        i = int.from_bytes(hashlib.sha1(s.encode()).digest()[:5], 'big')
        assert _BY_ID.get(i, s) == s, 'name id collision'
        NAMES[s] = i; _BY_ID[i] = s
    return i


_WELL_KNOWN = ['self', 'cls', 'args', 'kwargs', 'a', 'b', 'x', 'zz', 'k0', 'x0', 'x1', 'Nope', 'context', 'func', 'f', 'call', 'value', 'type_', 'err', 'key', 'result', 'k1', 'v'] \
    + [f'p{i}' for i in range(8)]


def name_of(i):
    return _BY_ID[i]


CTX = {'P': P, 'C1': C1, 'C2': C2, 'G': G, 'U': U, 'MI': MI, 'Text': Text, 'Counter': Counter, 'CQ': C2}
# ('CQ': a name only a CALLING module binds - the generated modules do not; it reaches the library through the caller's frame alone)
USER = [P, C1, C2, G, U, MI, Text, Counter]
EXTRA_CTX = {}       # per-plugin additions (name -> placeholder class of the table) consulted when values are generated
INST_FACTORY = {}    # placeholder class -> callable building the real instance (set by a plugin around build_val)
# names a calling module may bind to something that is no class (string annotations naming them must still end in a verdict)
ZCTX = {'_zmod': sys, '_znum': 5, '_zfun': len, '_znone': None, '_zstr': 'int', '_zlist': [int], '_zalias': typing.List[int]}
SEQ = {'list': list, 'set': set, 'frozenset': frozenset, 'deque': collections.deque, 'sequence': collections.abc.Sequence,
       'iterable': collections.abc.Iterable, 'collection': collections.abc.Collection, 'container': collections.abc.Container,
       'abstractSet': collections.abc.Set, 'mutableSet': collections.abc.MutableSet, 'mutableSequence': collections.abc.MutableSequence}
MAP = {'dict': dict, 'defaultDict': collections.defaultdict, 'mapping': collections.abc.Mapping, 'mutableMapping': collections.abc.MutableMapping}
SEQ_TYPING = {'list': List, 'set': Set, 'frozenset': FrozenSet, 'deque': Deque, 'sequence': Sequence, 'iterable': Iterable,
              'collection': Collection, 'container': Container, 'abstractSet': AbstractSet, 'mutableSet': MutableSet,
              'mutableSequence': MutableSequence}
MAP_TYPING = {'dict': Dict, 'defaultDict': DefaultDict, 'mapping': Mapping, 'mutableMapping': MutableMapping}
SEQ_BY_CLASS = {v: k for k, v in SEQ.items()}
MAP_BY_CLASS = {v: k for k, v in MAP.items()}
BARE = {'list': list, 'dict': dict, 'set': set, 'frozenset': frozenset, 'tuple': tuple, 'type': type,
        'tList': List, 'tDict': Dict, 'tSet': Set, 'tFrozenSet': FrozenSet, 'tTuple': Tuple, 'tType': Type,
        'tCallable': Callable, 'tIterable': Iterable, 'tSequence': Sequence, 'tUnion': Union, 'tOptional': Optional}
BARE_BUILTIN = ['list', 'dict', 'set', 'frozenset', 'tuple', 'type']
NEWTYPES = {}


def newtype_for(c):
    if c not in NEWTYPES:
        NEWTYPES[c] = NewType('NT_' + c.__name__, c)
    return NEWTYPES[c]


_ENV = None


def env_json():
    global _ENV
    if _ENV is None:
        for c in CLASSES:
            nid(c.__name__)
        for k in CTX:
            nid(k)
        fields = []
        for c in CLASSES:
            if hasattr(c, '__annotations__'):
                fields.append([nid(k) for k in c.__annotations__])
            else:
                fields.append(None)
        _ENV = {
            "sub": [sum(1 << b for b, cb in enumerate(CLASSES) if issubclass(a, cb)) for a in CLASSES],
            "name": [nid(c.__name__) for c in CLASSES],
            "baseName": [None if c.__base__ is None else nid(c.__base__.__name__) for c in CLASSES],
            "mroNames": [[nid(k.__name__) for k in c.__mro__] for c in CLASSES],
            "ctx": [[nid(k), IDX[v]] for k, v in CTX.items()],
            "meta": [IDX[type(c)] for c in CLASSES],
            "isNT": [isinstance(c, type) and issubclass(c, tuple) and hasattr(c, '_fields') for c in CLASSES],
            "fields": fields,
            "litcls": {"none": IDX[NoneType], "bool": IDX[bool], "int": IDX[int], "str": IDX[str], "bytes": IDX[bytes], "flt": IDX[float]},
            "tuple": IDX[tuple], "type": IDX[type], "iterator": IDX[collections.abc.Iterator],
            "seq": {k: IDX[v] for k, v in SEQ.items()}, "map": {k: IDX[v] for k, v in MAP.items()}}
    return _ENV


# ------------------------------------------------------------------ terms <-> objects: annotations

def cls_term(c):
    """term of a plain class used as annotation"""
    for name in BARE_BUILTIN:
        if BARE[name] is c:
            return ["bare", name]
    if c not in IDX:
        return ["special", 0]
    if hasattr(c, '__annotations__'):
        anns = c.__annotations__
        return ["clsF", IDX[c], [nid(k) for k in anns], [reflect_ann(v, nested=True) for v in anns.values()]]
    return ["cls", IDX[c]]


def lit_term(v):
    if v is None: return ["none"]
    if isinstance(v, bool): return ["bool", v]
    if isinstance(v, int): return ["int", v]
    if isinstance(v, float):
        n, d = v.as_integer_ratio(); return ["flt", n, d]
    if isinstance(v, bytes): return ["bytes", list(v)]
    return ["str", [ord(ch) for ch in v]]


def lit_obj(l):
    k = l[0]
    if k == 'none': return None
    if k in ('bool', 'int'): return l[1]
    if k == 'flt': return l[1] / l[2]
    if k == 'bytes': return bytes(l[1])
    return ''.join(chr(c) for c in l[1])


def _compound_fwd(text):
    """a forward reference whose text is an EXPRESSION of the small grammar  e ::= NAME | Optional[e] | List[e] | Dict[str, e]  (NAME a
    name of the context, int or str): the library evaluates the text in the context of the call and goes on with the typing object
    it gets, so the term is the term of that expression with the names left as forward references (they are resolved in the same
    context).  Anything else: None (the reference stays an opaque name)"""
    import ast
    try:
        tree = ast.parse(text, mode='eval').body
    except SyntaxError:
        return None
    def go(n):
        if isinstance(n, ast.Name):
            if n.id in CTX: return ["fwd", nid(n.id)]
            if n.id in ('int', 'str'): return cls_term({'int': int, 'str': str}[n.id])
            return None
        if isinstance(n, ast.Subscript) and isinstance(n.value, ast.Name):
            if n.value.id in ('Optional', 'List'):
                a = go(n.slice)
                if a is None: return None
                return ["union", "optional", [a, ["cls", IDX[NoneType]]]] if n.value.id == 'Optional' else ["seq", "typing", "list", a]
            if n.value.id == 'Dict' and isinstance(n.slice, ast.Tuple) and len(n.slice.elts) == 2:
                a, b = go(n.slice.elts[0]), go(n.slice.elts[1])
                return None if a is None or b is None else ["map", "typing", "dict", a, b]
        return None
    return None if isinstance(tree, ast.Name) else go(tree)


def reflect_ann(o, nested=False):
    """derive the term from the object Python actually built (appendix F of DESIGN.md: what the checker's introspection sees)"""
    if o is None:
        return ["none"] if not nested else ["cls", IDX[NoneType]]
    if isinstance(o, str):
        return ["str", nid(o)] if not nested else (_compound_fwd(o) or ["fwd", nid(o)])
    if o is Any:
        return ["any"]
    if isinstance(o, ForwardRef):
        return _compound_fwd(o.__forward_arg__) or ["fwd", nid(o.__forward_arg__)]
    if isinstance(o, typing.NewType):
        st = o.__supertype__
        return ["newtype", IDX[st]] if st in IDX else ["special", 0]
    if isinstance(o, types.UnionType):
        return ["union", "pipe", [reflect_ann(a, True) for a in o.__args__]]
    for name, b in BARE.items():
        if o is b:
            return ["bare", name]
    origin = getattr(o, '__origin__', None)
    if origin is Union:
        sp = 'optional' if getattr(o, '_name', None) == 'Optional' else 'union'
        return ["union", sp, [reflect_ann(a, True) for a in o.__args__]]
    if origin is Literal:
        return ["lit", [lit_term(v) for v in o.__args__]]
    if origin is not None and isinstance(o, (typing._GenericAlias, types.GenericAlias)):
        sp = 'typing' if isinstance(o, typing._GenericAlias) else 'pep585'
        args = o.__args__
        if origin is tuple:
            if len(args) == 2 and args[1] is Ellipsis:
                return ["tuplevar", sp, reflect_ann(args[0], True)]
            return ["tuple", sp, [reflect_ann(a, True) for a in args]]
        if origin is type and len(args) == 1:
            return ["typeof", sp, reflect_ann(args[0], True)]
        if origin in SEQ_BY_CLASS and len(args) == 1:
            return ["seq", sp, SEQ_BY_CLASS[origin], reflect_ann(args[0], True)]
        if origin in MAP_BY_CLASS and len(args) == 2:
            return ["map", sp, MAP_BY_CLASS[origin], reflect_ann(args[0], True), reflect_ann(args[1], True)]
        return ["special", 0]
    if isinstance(o, type):
        return cls_term(o)
    return ["special", 0]


def build_ann(t):
    """term -> real annotation object (may be normalised by Python: always reflect the result)"""
    k = t[0]
    if k == 'none': return None
    if k in ('cls', 'clsF'): return CLASSES[t[1]]
    if k == 'any': return Any
    if k == 'str': return name_of(t[1])
    if k == 'fwd': return name_of(t[1])              # a string nested in a generic becomes a ForwardRef
    if k == 'lit': return Literal[tuple(lit_obj(l) for l in t[1])]
    if k == 'newtype': return newtype_for(CLASSES[t[1]])
    if k == 'bare': return BARE[t[1]]
    if k == 'union':
        ms = [build_ann(m) for m in t[2]]
        if t[1] == 'pipe':
            try:
                return functools.reduce(operator.or_, ms)
            except TypeError:
                return Union[tuple(ms)]
        if t[1] == 'optional' and len(ms) == 2 and ms[1] is NoneType:
            return Optional[ms[0]]
        return Union[tuple(ms)]       # (Union[None, X] is an Optional whose arguments stay in that order: the term must be rebuilt as it was reflected)
    if k == 'typeof':
        a = build_ann(t[2]); return Type[a] if t[1] == 'typing' else type[a]
    if k == 'seq':
        a = build_ann(t[3]); return SEQ_TYPING[t[2]][a] if t[1] == 'typing' else SEQ[t[2]][a]
    if k == 'map':
        a, b = build_ann(t[3]), build_ann(t[4]); return MAP_TYPING[t[2]][a, b] if t[1] == 'typing' else MAP[t[2]][a, b]
    if k == 'tuple':
        items = tuple(build_ann(x) for x in t[2])
        if not items:
            return Tuple[()] if t[1] == 'typing' else tuple[()]
        return Tuple[items] if t[1] == 'typing' else tuple[items]
    if k == 'tuplevar':
        a = build_ann(t[2]); return Tuple[a, ...] if t[1] == 'typing' else tuple[a, ...]
    raise ValueError(t)


def canon_ann(t):
    """(canonical term, object)"""
    o = build_ann(t)
    return reflect_ann(o), o


# ------------------------------------------------------------------ terms <-> objects: values

def hashable(o):
    try:
        hash(o); return True
    except TypeError:
        return False


def _ident(x): return x
def _true(x): return True


_SHARE = [None]      # when a dict: structurally identical mutable containers inside ONE value are one shared object (aliasing)


def build_val(t):
    k = t[0]
    if _SHARE[0] is not None and k in ('coll', 'mapping') and CLASSES[t[1]] in (list, dict, set, collections.deque, collections.OrderedDict):
        key = json.dumps(t)
        if key in _SHARE[0]:
            return _SHARE[0][key]
        share, _SHARE[0] = _SHARE[0], None
        try:
            o = build_val(t)
        finally:
            _SHARE[0] = share
        # the children were built without sharing by the inner call; rebuild them with sharing so that nested aliases are shared too
        _SHARE[0][key] = o
        return o
    if k == 'lit': return lit_obj(t[1])
    if k == 'inst':
        c = CLASSES[t[1]]
        if c in INST_FACTORY:
            return INST_FACTORY[c]()
        if c in (type, abc.ABCMeta, GeneratorType, ListIterator, map, filter) or c.__module__ == 'collections.abc':
            raise TypeError('not instantiable')
        return c()
    if k == 'clsobj': return CLASSES[t[1]]
    if k == 'ntup': return CLASSES[t[1]](*[build_val(x) for x in t[3]])
    if k == 'iterator':
        items = [build_val(x) for x in t[2]]
        c = CLASSES[t[1]]
        if c is ListIterator: return iter(items)
        if c is map: return map(_ident, items)            # composite one-shot iterators: a shallow copy shares the inner iterator
        if c is filter: return filter(_true, items)
        return (x for x in items)
    if k in ('coll', 'tup'):
        items = [build_val(x) for x in t[2]]
        c = CLASSES[t[1]]
        if c in (set, frozenset):
            items = [x for x in items if hashable(x)]
        return c(items)
    if k == 'mapping':
        c = CLASSES[t[1]]
        obj = collections.defaultdict(int) if c is collections.defaultdict else c()
        for kt, vt in t[2]:
            ko = build_val(kt)
            if hashable(ko):
                obj[ko] = build_val(vt)
        return obj
    raise ValueError(t)


def build_val_for_case(c, t=None):
    """the value object of a checker case (or of an alternative term t of it): with x['alias'] structurally identical mutable
    containers inside the value are ONE shared object"""
    _SHARE[0] = {} if c['x'].get('alias') else None
    try:
        o = build_val(c['c']['val'] if t is None else t)
    finally:
        _SHARE[0] = None
    if c['x'].get('cycle'):             # the last element / the last value is the container ITSELF (the term holds an empty stand-in of its class)
        if isinstance(o, list): o[-1] = o
        elif isinstance(o, dict): o[list(o)[-1]] = o
    return o


def reflect_val(o, t=None):
    """value object -> term (iteration order of the real object); one-shot iterators keep the generator's term"""
    if o is None or isinstance(o, (bool, int, float, str, bytes)) and type(o) in (bool, int, float, str, bytes):
        return ["lit", lit_term(o)]
    if isinstance(o, type):
        return ["clsobj", IDX[o]] if o in IDX else None
    c = type(o)
    if c not in IDX:
        return None
    if isinstance(o, collections.abc.Iterator):
        return t
    if isinstance(o, tuple) and hasattr(o, '_asdict'):
        return ["ntup", IDX[c], [nid(f) for f in o._fields], [reflect_val(x) for x in o]]
    if isinstance(o, tuple):
        return ["tup", IDX[c], [reflect_val(x) for x in o]]
    if isinstance(o, (list, set, frozenset, collections.deque)):
        return ["coll", IDX[c], [reflect_val(x) for x in o]]
    if isinstance(o, dict):
        return ["mapping", IDX[c], [[reflect_val(a), reflect_val(b)] for a, b in o.items()]]
    return ["inst", IDX[c]]


def has_iterator(t):
    if t[0] == 'iterator': return True
    if t[0] in ('coll', 'tup'): return any(has_iterator(x) for x in t[2])
    if t[0] == 'ntup': return any(has_iterator(x) for x in t[3])
    if t[0] == 'mapping': return any(has_iterator(a) or has_iterator(b) for a, b in t[2])
    return False


def canon_term(t):
    """canonical value term: rebuilt through the real constructors (set / dict de-duplication and iteration order);
    one-shot iterators are kept as terms (they are stateful) and may only sit at the top or inside lists / tuples"""
    if not has_iterator(t):
        r = reflect_val(build_val(t), t)
        if r is None:
            raise TypeError('value outside the class table')
        return r
    k = t[0]
    if k == 'iterator':
        return [k, t[1], [canon_term(x) for x in t[2]]]
    if k == 'tup' or (k == 'coll' and CLASSES[t[1]] in (list, L, collections.deque)):
        return [k, t[1], [canon_term(x) for x in t[2]]]
    if k == 'ntup':
        return [k, t[1], t[2], [canon_term(x) for x in t[3]]]
    raise TypeError('iterator inside a set or mapping')


def canon_val(t):
    """(canonical term, freshly built object)"""
    ct = canon_term(t)
    return ct, build_val(ct)


# ------------------------------------------------------------------ generators (terms only)

PLAIN = [int, str, float, bool, NoneType, bytes] + USER


def gen_ann(r, d, top=True):
    ks = ['cls'] * 5 + ['any', 'lit', 'newtype', 'ntcls']
    if d > 0: ks += ['union'] * 3 + ['seq'] * 4 + ['map'] * 3 + ['tuple'] * 2 + ['tuplevar', 'typeof', 'fwd']
    if top: ks += ['none', 'str', 'bare']
    k = r.choice(ks)
    if k == 'cls': return cls_term(r.choice(PLAIN + [object, Pdup]))
    if k == 'ntcls': return cls_term(r.choice([NT1, NT2, NT3, DC, TS, L, NTSub, PF, NT0]))
    if k == 'any': return ["any"]
    if k == 'none': return ["none"]
    if k == 'str': return ["str", nid(r.choice(list(CTX)))]
    if k == 'fwd':
        return ["seq", r.choice(['typing', 'pep585']), "list", ["fwd", nid(r.choice(list(CTX) + ['Nope']))]]
    if k == 'lit':
        vals = r.sample([1, 2, 'a', 'b', True, None, b'x', 0], r.randint(1, 3))
        return ["lit", [lit_term(v) for v in vals]]
    if k == 'newtype': return ["newtype", IDX[r.choice([int, str, P])]]
    if k == 'bare': return ["bare", r.choice(list(BARE))]
    if k == 'typeof':
        inner = r.choice(['any', 'cls', 'cls', 'union'])
        if inner == 'any': t = ["any"]
        elif inner == 'cls': t = cls_term(r.choice([int, str, P, C1, object]))
        else: t = ["union", "union", [cls_term(c) for c in r.sample([int, str, P, U], 2)]]
        return ["typeof", r.choice(['typing', 'pep585']), t]
    if k == 'union':
        n = r.randint(2, 3); ms = []
        for _ in range(n):
            t = gen_ann(r, d - 1, top=False)
            if t[0] == 'union' or t in ms or (t[0] == 'any' and r.random() < 0.5): continue
            ms.append(t)
        if len(ms) < 2: return gen_ann(r, d, top)
        sp = r.choice(['union', 'pipe', 'optional'])
        if sp == 'optional': ms = [ms[0], ["cls", IDX[NoneType]]]
        return ["union", sp, ms]
    if k == 'seq':
        return ["seq", r.choice(['typing', 'pep585']), r.choice(list(SEQ)), gen_ann(r, d - 1, top=False)]
    if k == 'map':
        return ["map", r.choice(['typing', 'pep585']), r.choice(list(MAP)), gen_ann(r, 0, top=False), gen_ann(r, d - 1, top=False)]
    if k == 'tuple':
        n = r.choice([0, 1, 1, 2, 2, 3])
        return ["tuple", r.choice(['typing', 'pep585']), [gen_ann(r, d - 1, top=False) for _ in range(n)]]
    if k == 'tuplevar':
        return ["tuplevar", r.choice(['typing', 'pep585']), gen_ann(r, d - 1, top=False)]
    raise AssertionError(k)


def lit(v):
    return ["lit", lit_term(v)]


def inst_of(r, c):
    if c is object: c = r.choice([int, str, P, U])
    subs = [x for x in [bool, int, float, str, bytes, NoneType] + USER + [NT1, NT2, NT3, DC, TS, L, NTSub, PF] + list(EXTRA_CTX.values()) if issubclass(x, c)] or [c]
    c = r.choice(subs)
    if c is NoneType: return lit(None)
    if c is bool: return lit(r.choice([True, False]))
    if c is int: return lit(r.choice([0, 1, 2, -5]))
    if c is float: return lit(r.choice([0.5, 1.0, -2.25]))
    if c is str: return lit(r.choice(['a', 'b', 'P', '', 'ab']))
    if c is bytes: return lit(r.choice([b'x', b'', b'ab']))
    if c in (NT1, NT2): return ["ntup", IDX[c], [nid('a'), nid('b')], [lit(r.choice([1, 2])), lit(r.choice(['a', 'b']))]]
    if c is NT3: return ["ntup", IDX[c], [nid('x')], [lit(1)]]
    if c is NT0: return ["ntup", IDX[c], [], []]
    if c is NTSub: return ["ntup", IDX[c], [nid('a'), nid('b')], [lit(r.choice([1, 2])), lit(r.choice(['a', 'b']))]]
    if c is TS: return ["tup", IDX[TS], [lit(1)]]
    if c is L: return ["coll", IDX[L], [lit(1)]]
    if c is tuple: return ["tup", IDX[tuple], []]
    if c is list: return ["coll", IDX[list], []]
    if c in IDX and c not in (type, abc.ABCMeta): return ["inst", IDX[c]]
    return ["inst", IDX[U]]


def gen_any(r, d):
    k = r.choice(['lit'] * 4 + ['inst'] * 3 + (['list', 'tuple', 'dict', 'set', 'cls', 'nt', 'iter'] if d > 0 else []))
    if k == 'lit': return lit(r.choice([None, True, 0, 1, 2.5, 'a', 1.0, b'x', 'ab']))
    if k == 'inst': return inst_of(r, r.choice(USER + [Pdup, DC]))
    if k == 'cls': return ["clsobj", IDX[r.choice([int, str, bool, P, C1, U, list, MI])]]
    if k == 'nt': return inst_of(r, r.choice([NT1, NT2, NT3]))
    if k == 'iter': return ["iterator", IDX[r.choice([GeneratorType, ListIterator, map, filter])], [gen_any(r, 0) for _ in range(r.randint(0, 2))]]
    if k == 'list': return ["coll", IDX[r.choice([list, L, collections.deque])], [gen_any(r, d - 1) for _ in range(r.randint(0, 3))]]
    if k == 'tuple': return ["tup", IDX[r.choice([tuple, tuple, TS])], [gen_any(r, d - 1) for _ in range(r.randint(0, 3))]]
    if k == 'set': return ["coll", IDX[r.choice([set, frozenset])], [gen_any(r, 0) for _ in range(r.randint(0, 3))]]
    return ["mapping", IDX[r.choice([dict, collections.OrderedDict])], [[gen_any(r, 0), gen_any(r, d - 1)] for _ in range(r.randint(0, 2))]]


SEQ_VALUE_CLASSES = {'list': [list, L], 'set': [set], 'frozenset': [frozenset], 'deque': [collections.deque],
                     'sequence': [list, tuple, collections.deque, L, 'str'], 'iterable': [list, tuple, set, dict, 'str', 'gen', 'listiter', 'map', 'filter'],
                     'collection': [list, set, tuple, 'str'], 'container': [list, set, tuple], 'abstractSet': [set, frozenset],
                     'mutableSet': [set], 'mutableSequence': [list, collections.deque]}
MAP_VALUE_CLASSES = {'dict': [dict, collections.OrderedDict, collections.defaultdict], 'defaultDict': [collections.defaultdict],
                     'mapping': [dict, collections.OrderedDict], 'mutableMapping': [dict, collections.defaultdict]}


def gen_val_for(r, t, d=3):
    """a value term that (usually) conforms to annotation term t"""
    k = t[0]
    if k == 'none': return lit(None)
    if k in ('cls', 'clsF'): return inst_of(r, CLASSES[t[1]])
    if k == 'any': return gen_any(r, 1)
    if k == 'union': return gen_val_for(r, r.choice(t[2]), d)
    if k == 'lit': return ["lit", r.choice(t[1])]
    if k == 'newtype': return inst_of(r, CLASSES[t[1]])
    if k == 'typeof':
        a = t[2]
        if a[0] == 'any': c = r.choice(PLAIN)
        elif a[0] in ('cls', 'clsF'):
            c = r.choice([x for x in PLAIN + [G, MI, object] if issubclass(x, CLASSES[a[1]])] or [CLASSES[a[1]]])
        elif a[0] == 'union':
            m = r.choice(a[2])
            c = CLASSES[m[1]] if m[0] in ('cls', 'clsF') else int
            if r.random() < 0.3:
                c = r.choice([x for x in PLAIN + [G, MI] if issubclass(x, c)] or [c])
        else: c = int
        return ["clsobj", IDX[c]]
    if k == 'fwd': return inst_of(r, CTX.get(name_of(t[1])) or EXTRA_CTX.get(name_of(t[1]), U))
    if k == 'str':
        base = CTX.get(name_of(t[1])) or EXTRA_CTX[name_of(t[1])]
        return inst_of(r, r.choice([c for c in USER + list(EXTRA_CTX.values()) if issubclass(c, base)]))
    if k == 'seq':
        n = r.randint(0, 3)
        elems = [gen_val_for(r, t[3], d - 1) for _ in range(n)]
        c = r.choice(SEQ_VALUE_CLASSES[t[2]])
        if c == 'str':
            return lit(r.choice(['', 'a', 'ab'])) if t[3] in (cls_term(str), ["any"]) else ["coll", IDX[list], elems]
        if c == 'gen': return ["iterator", IDX[GeneratorType], elems]
        if c == 'listiter': return ["iterator", IDX[ListIterator], elems]
        if c == 'map': return ["iterator", IDX[map], elems]
        if c == 'filter': return ["iterator", IDX[filter], elems]
        if c is dict: return ["mapping", IDX[dict], [[e, lit(0)] for e in elems]]
        if c is tuple: return ["tup", IDX[tuple], elems]
        return ["coll", IDX[c], elems]
    if k == 'map':
        n = r.randint(0, 3)
        return ["mapping", IDX[r.choice(MAP_VALUE_CLASSES[t[2]])], [[gen_val_for(r, t[3], 0), gen_val_for(r, t[4], d - 1)] for _ in range(n)]]
    if k == 'tuple':
        if r.random() < 0.15 and len(t[2]) == 2: return inst_of(r, NT1)
        return ["tup", IDX[r.choice([tuple, tuple, tuple, TS])], [gen_val_for(r, x, d - 1) for x in t[2]]]
    if k == 'tuplevar': return ["tup", IDX[tuple], [gen_val_for(r, t[2], d - 1) for _ in range(r.randint(0, 3))]]
    return gen_any(r, 1)


def near_miss(r, c):
    """values that a sloppy resolution of the class NAME would accept: an instance of another class with the same name, of
    what `typing` exports under that name, of a base class, the class object itself, the name as a string"""
    out = [["clsobj", IDX[c]], lit(c.__name__)]
    out += [["inst", IDX[x]] for x in USER + [Pdup] if x is not c and x.__name__ == c.__name__]
    t = getattr(typing, c.__name__, None)
    if t is not None:
        o = typing.get_origin(t) or t
        if o is str: out += [lit('a')] * 2
        elif o is collections.Counter: out += [["mapping", IDX[collections.Counter], []], ["mapping", IDX[collections.Counter], [[lit('a'), lit(1)]]]]
    out += [["inst", IDX[x]] for x in USER if x is not c and issubclass(c, x)]
    return r.choice(out)


def corrupt_term(r, vt):
    """one-position type-changing edit"""
    k = vt[0]
    if k == 'inst' and CLASSES[vt[1]] in USER and r.random() < 0.5:
        return near_miss(r, CLASSES[vt[1]])
    if k in ('coll', 'tup') and vt[2] and r.random() < 0.8:
        elems = list(vt[2]); i = r.randrange(len(elems))
        if r.random() < 0.3 and k == 'tup':
            elems = elems[:-1] if r.random() < 0.5 else elems + [gen_any(r, 0)]
        else:
            elems[i] = corrupt_term(r, elems[i])
        return [k, vt[1], elems]
    if k in ('coll', 'tup') and r.random() < 0.4:      # container class changed
        return ['tup', IDX[tuple], vt[2]] if k == 'coll' else ['coll', IDX[list], vt[2]]
    if k == 'mapping' and vt[2] and r.random() < 0.8:
        kvs = [list(x) for x in vt[2]]; i = r.randrange(len(kvs))
        if r.random() < 0.5: kvs[i][1] = corrupt_term(r, kvs[i][1])
        else: kvs[i][0] = gen_any(r, 0)
        return [k, vt[1], kvs]
    if k == 'ntup' and vt[3] and r.random() < 0.6:
        xs = list(vt[3]); i = r.randrange(len(xs)); xs[i] = corrupt_term(r, xs[i])
        return [k, vt[1], vt[2], xs]
    if k == 'lit' and vt[1][0] == 'bool' and r.random() < 0.5: return lit(int(vt[1][1]))
    if k == 'lit' and vt[1][0] == 'int' and r.random() < 0.3: return lit(bool(vt[1][1] % 2))
    if k == 'lit' and vt[1][0] == 'int' and r.random() < 0.3: return lit(vt[1][1] + 1)
    return gen_any(r, 1)


def gen_pair(r, depth=None):
    """one (annotation term, value term, mode)"""
    at, _ = canon_ann(gen_ann(r, r.randint(0, 3) if depth is None else depth))
    return at


def gen_value_for(r, at):
    vt = gen_val_for(r, at)
    mode = r.random()
    kind = 'conforming'
    if mode < 0.45:
        vt = corrupt_term(r, vt); kind = 'corrupted'
    elif mode < 0.55:
        vt = gen_any(r, 2); kind = 'arbitrary'
    try:
        vt, _ = canon_val(vt)
    except TypeError:
        vt, _ = canon_val(gen_any(r, 1)); kind = 'arbitrary'
    if vt is None:
        vt, _ = canon_val(lit(0)); kind = 'arbitrary'
    return vt, kind


# ------------------------------------------------------------------ running the implementation

def classify_exc(e):
    from pedantic.exceptions import PedanticTypeCheckException, PedanticTypeVarMismatchException, PedanticException
    if isinstance(e, PedanticTypeVarMismatchException): return 'tvMismatch'
    if isinstance(e, PedanticTypeCheckException):
        # diagnostic only (never compared as a verdict): was it a plain "does not match" or an error during checking
        return 'reject' if 'Type hint is incorrect' in str(e) and 'An error occurred' not in str(e) else 'pedErr'
    if isinstance(e, PedanticException): return 'ped:' + type(e).__name__
    return 'escape:' + type(e).__name__


def run_assert(ann_obj, val_obj):
    from pedantic import assert_value_matches_type
    try:
        assert_value_matches_type(val_obj, ann_obj, '', {}, context={**ZCTX, **CTX})
        return 'accept'
    except BaseException as e:
        return classify_exc(e)


def verdict_class(out):
    """outcome class used by the transfer relations: accept | typecheck | tvMismatch | escape"""
    if out == 'accept': return 'accept'
    if out in ('reject', 'pedErr'): return 'typecheck'
    if out.startswith('escape'): return 'escape'
    return out


def mk_case(at, vt, **x):
    return {'m': 'checker', 'c': {'env': env_json(), 'ann': at, 'val': vt}, 'x': x}


env_json()
for _s in _WELL_KNOWN:      # every name the generators use is known before a stored case is read
    nid(_s)


def run_impl_checker(cases):
    out = []
    for c in cases:
        try:
            ao = build_ann(c['c']['ann'])
            vo = build_val_for_case(c)
        except Exception as e:      # a corpus case that cannot be concretised any more
            out.append({'out': 'unbuildable:' + type(e).__name__})
            continue
        out.append({'out': run_assert(ao, vo)})
    return out


def gen_checker_cases(rng, n, depth=None):
    cases = []
    while len(cases) < n:
        at = gen_pair(rng, depth)
        for _ in range(3):
            vt, kind = gen_value_for(rng, at)
            cases.append(mk_case(at, vt, kind=kind))
    return cases


def big_cases(rng, n):
    """LONG containers (100-400 elements / entries), all conforming or with exactly one non-conforming element at a random
    position: the element loops are universal whatever the length (a check that samples or stops early must show)"""
    cases = []
    elems = [(cls_term(int), lambda i: lit(i % 7), lit('x')), (cls_term(str), lambda i: lit('ab'[i % 2]), lit(3)),
             (["union", "optional", [cls_term(int), ["cls", IDX[NoneType]]]], lambda i: lit(None) if i % 5 == 0 else lit(i % 3), lit('x')),
             (["seq", "typing", "list", cls_term(int)], lambda i: ["coll", IDX[list], [lit(i % 4)]], ["coll", IDX[list], [lit('y')]]),
             (cls_term(P), lambda i: ["inst", IDX[C1 if i % 2 else P]], ["inst", IDX[U]])]
    for _ in range(n):
        et, good, bad = rng.choice(elems)
        size = rng.randint(100, 400)
        vals = [good(i) for i in range(size)]
        corrupted = rng.random() < 0.6
        if corrupted:
            vals[rng.choice([0, size - 1, size // 2, rng.randrange(size), rng.randrange(size)])] = bad
        sp = rng.choice(['typing', 'pep585'])
        shape = rng.choice(['list', 'list', 'tuplevar', 'dictval', 'dictkey', 'deque', 'sequence', 'iterable'])
        if shape == 'tuplevar':
            at, vt = ["tuplevar", sp, et], ["tup", IDX[tuple], vals]
        elif shape == 'dictval':
            at, vt = ["map", sp, "dict", cls_term(int), et], ["mapping", IDX[dict], [[lit(i), v] for i, v in enumerate(vals)]]
        elif shape == 'dictkey' and et in (cls_term(int), cls_term(str)):
            keys = [lit(i) for i in range(size)] if et == cls_term(int) else [lit('k%d' % i) for i in range(size)]
            if corrupted:
                keys[rng.randrange(size)] = lit(2.5)
            at, vt = ["map", sp, "dict", et, cls_term(int)], ["mapping", IDX[dict], [[k, lit(0)] for k in keys]]
        elif shape == 'deque':
            at, vt = ["seq", sp, "deque", et], ["coll", IDX[collections.deque], vals]
        elif shape in ('sequence', 'iterable'):
            at, vt = ["seq", sp, shape, et], ["coll" if rng.random() < 0.5 else "tup", None, vals]
            vt[1] = IDX[list] if vt[0] == 'coll' else IDX[tuple]
        else:
            at, vt = ["seq", sp, "list", et], ["coll", IDX[list], vals]
        at, _ = canon_ann(at)
        vt, _ = canon_val(vt)
        cases.append(mk_case(at, vt, kind='big-corrupted' if corrupted else 'big-conforming'))
    return cases


def cyclic_cases(rng, n):
    """containers that contain THEMSELVES (`xs.append(xs)`, `d['self'] = d`) against element types that are plain classes: the inner
    occurrence is judged by its class alone (a list is no int; it is an object / a list), so the term holds an empty stand-in of
    that class.  A cycle guard must not turn `is being traversed` into `conforms`."""
    cases = []
    elem = [(cls_term(int), lit(1)), (cls_term(str), lit('a')), (cls_term(object), lit(2)), (["bare", "list"], ["coll", IDX[list], []]),
            (["union", "union", [cls_term(int), cls_term(str)]], lit(3)), (["union", "union", [cls_term(int), ["bare", "list"]]], lit(4)),
            (["any"], lit(5)), (["bare", "dict"], ["mapping", IDX[dict], []])]
    for _ in range(n):
        et, good = rng.choice(elem)
        sp = rng.choice(['typing', 'pep585'])
        k = rng.randint(0, 2)
        if rng.random() < 0.6:
            at = ["seq", sp, rng.choice(['list', 'sequence', 'iterable', 'mutableSequence']), et]
            vt = ["coll", IDX[list], [good] * k + [["coll", IDX[list], []]]]
        else:
            at = ["map", sp, rng.choice(['dict', 'mapping']), cls_term(str), et]
            vt = ["mapping", IDX[dict], [[lit('k%d' % i), good] for i in range(k)] + [[lit('self'), ["mapping", IDX[dict], []]]]]
        at, _ = canon_ann(at)
        cases.append(mk_case(at, vt, kind='cyclic', cycle=True))
    return cases


def alias_cases(rng, n):
    """values in which ONE mutable container object is reachable several times (`[[0] * 3] * 3`, `{'a': xs, 'b': xs}`, `(xs, xs)`):
    conformance is about structure, not identity - a cycle guard or an id()-keyed memo must not mistake aliasing for anything"""
    cases = []
    inner = [(["seq", "typing", "list", cls_term(int)], ["coll", IDX[list], [lit(0), lit(1)]], ["coll", IDX[list], [lit('x')]]),
             (["map", "typing", "dict", cls_term(str), cls_term(int)], ["mapping", IDX[dict], [[lit('a'), lit(1)]]], ["mapping", IDX[dict], [[lit('a'), lit('b')]]]),
             (["seq", "pep585", "set", cls_term(int)], ["coll", IDX[set], [lit(1), lit(2)]], ["coll", IDX[set], [lit('s')]])]
    for _ in range(n):
        it, good, bad = rng.choice(inner)
        v = good if rng.random() < 0.7 else bad
        k = rng.randint(2, 4)
        shape = rng.choice(['list', 'dict', 'tuple', 'optlist', 'tuplevar', 'unionthen', 'unionthen', 'thenunion', 'unionthendeep'])
        sp = rng.choice(['typing', 'pep585'])
        if shape in ('unionthen', 'thenunion', 'unionthendeep'):
            # the SAME object under two annotations: at one position a Union of which one member fails on it (absorbed: another member
            # matches), at another position exactly that failing member.  A memo of "this object was looked at under this annotation"
            # that forgets the verdict accepts the second position.  (typing caches List[int]: both occurrences are one annotation object.)
            i = rng.randrange(len(inner))
            a_t, a_good, a_bad = inner[i]
            b_t = {0: ["seq", "typing", "list", cls_term(str)], 1: ["map", "typing", "dict", cls_term(str), cls_term(str)],
                   2: ["seq", "pep585", "set", cls_term(str)]}[i]
            v = a_bad if rng.random() < 0.7 else a_good       # a_bad conforms to b_t only, a_good to a_t only
            u = ["union", "union", [a_t, b_t] if rng.random() < 0.7 else [b_t, a_t]]
            pair = [u, a_t] if shape != 'thenunion' else [a_t, u]
            at, vt = ["tuple", sp, pair], ["tup", IDX[tuple], [v, v]]
            if shape == 'unionthendeep':
                at, vt = ["map", sp, "dict", cls_term(str), at], ["mapping", IDX[dict], [[lit('k'), vt]]]
            at, _ = canon_ann(at)
            cases.append(mk_case(at, canon_term(vt), kind='aliased', alias=True))
            continue
        if shape == 'list':
            at, vt = ["seq", sp, "list", it], ["coll", IDX[list], [v] * k]
        elif shape == 'dict':
            at, vt = ["map", sp, "dict", cls_term(str), it], ["mapping", IDX[dict], [[lit('k%d' % i), v] for i in range(k)]]
        elif shape == 'tuple':
            at, vt = ["tuple", sp, [it] * k], ["tup", IDX[tuple], [v] * k]
        elif shape == 'tuplevar':
            at, vt = ["tuplevar", sp, it], ["tup", IDX[tuple], [v] * k]
        else:
            at = ["seq", sp, "list", ["union", "optional", [it, ["cls", IDX[NoneType]]]]]
            vt = ["coll", IDX[list], [v, lit(None), v]]
        at, _ = canon_ann(at)
        cases.append(mk_case(at, canon_term(vt), kind='aliased', alias=True))
    return cases


def small_terms():
    """exhaustive family used by the thorough tier: every annotation of depth <= 2 over a base alphabet x origins x spellings"""
    base = [cls_term(int), cls_term(str), ["union", "optional", [cls_term(int), ["cls", IDX[NoneType]]]], cls_term(P)]
    anns = list(base)
    for sp in ('typing', 'pep585'):
        for o in SEQ:
            for b in base: anns.append(["seq", sp, o, b])
        for o in MAP:
            for b in base: anns.append(["map", sp, o, cls_term(str), b])
        for b in base:
            anns.append(["tuplevar", sp, b]); anns.append(["tuple", sp, [b]]); anns.append(["tuple", sp, [b, cls_term(str)]])
    return [canon_ann(a)[0] for a in anns]


def small_values():
    atoms = [lit(0), lit('a'), lit(None), ["inst", IDX[P]], ["inst", IDX[C1]], lit(True)]
    vals = list(atoms)
    for c in (list, tuple, set, frozenset, collections.deque):
        k = 'tup' if c is tuple else 'coll'
        vals.append([k, IDX[c], []])
        for a in atoms:
            vals.append([k, IDX[c], [a]])
            for b in atoms[:3]:
                vals.append([k, IDX[c], [a, b]])
    for c in (dict, collections.defaultdict):
        vals.append(["mapping", IDX[c], []])
        for a in atoms:
            vals.append(["mapping", IDX[c], [[lit('a'), a]]])
            vals.append(["mapping", IDX[c], [[a, lit(0)]]])
    out = []
    for v in vals:
        try:
            out.append(canon_val(v)[0])
        except TypeError:
            pass
    return out


def name_family():
    """deterministic family about what a class NAME in an annotation resolves to: every context name as forward reference /
    string annotation / class, bare and under Optional, List, Dict[str, List[..]], against an instance of every user class and
    the near misses of near_miss() (same-named other class, what typing exports under the name, class object, name string)"""
    vals = [["inst", IDX[c]] for c in USER + [Pdup]] + [lit('a'), lit('P'), lit(None), lit(0), ["mapping", IDX[collections.Counter], []],
            ["mapping", IDX[dict], []], ["clsobj", IDX[P]], ["clsobj", IDX[Text]]]
    out = []
    for n, c in CTX.items():
        for leaf in (["fwd", nid(n)], cls_term(c)):
            shapes = [(["union", "optional", [leaf, ["cls", IDX[NoneType]]]], lambda v: v),
                      (["seq", "typing", "list", leaf], lambda v: ["coll", IDX[list], [v]]),
                      (["seq", "pep585", "list", leaf], lambda v: ["coll", IDX[list], [v, v]]),
                      (["map", "typing", "dict", cls_term(str), ["seq", "typing", "list", leaf]], lambda v: ["mapping", IDX[dict], [[lit('k'), ["coll", IDX[list], [v]]]]]),
                      (["tuple", "typing", [leaf, cls_term(int)]], lambda v: ["tup", IDX[tuple], [v, lit(1)]])]
            if leaf[0] == 'fwd':
                shapes.append((["str", nid(n)], lambda v: v))
            for a, wrap in shapes:
                at = canon_ann(a)[0]
                for v in vals:
                    out.append(mk_case(at, canon_val(wrap(v))[0], kind='name'))
    return out


# ------------------------------------------------------------------ state a fresh process needs to read stored cases

def export_state():
    """the name table (name ids are hashes: a fresh process can only spell the names it has met)"""
    return {'names': sorted(NAMES)}


def import_state(st):
    for s in (st or {}).get('names', []):
        nid(s)


# ------------------------------------------------------------------ twins for the amplified run (core.amplified_run, props/_twins.py)

def _lit_twin(l, to):
    """literal term -> literal term of a value that is == and hashes alike: ["int", 1] <-> ["bool", true] <-> ["flt", 1, 1]"""
    import _twins
    if l[0] not in ('bool', 'int', 'flt'):
        return l
    v = lit_obj(l)
    t = _twins.scalar_twin(v, to)
    return lit_term(t) if t is not v else l


def twin_val_term(t, to):
    """value term with every scalar replaced by its twin of kind `to` ('bool' | 'int' | 'float')"""
    k = t[0]
    if k == 'lit': return ["lit", _lit_twin(t[1], to)]
    if k in ('coll', 'tup', 'iterator'): return [k, t[1], [twin_val_term(x, to) for x in t[2]]]
    if k == 'ntup': return [k, t[1], t[2], [twin_val_term(x, to) for x in t[3]]]
    if k == 'mapping': return [k, t[1], [[twin_val_term(a, to), twin_val_term(b, to)] for a, b in t[2]]]
    return t


def _swap_cls(t, a, b):
    """every occurrence of class id a in a term (annotation or value) replaced by b and vice versa"""
    if isinstance(t, list):
        if len(t) >= 2 and t[0] in ('cls', 'clsF', 'inst', 'clsobj', 'newtype') and t[1] in (a, b):
            return [t[0] if t[0] != 'clsF' else 'cls', b if t[1] == a else a]
        return [_swap_cls(x, a, b) for x in t]
    return t


def twin_ann_term(t, to):
    """annotation term with the members of every Literal[...] replaced by their twins"""
    if isinstance(t, list):
        if t and t[0] == 'lit' and len(t) == 2 and isinstance(t[1], list) and all(isinstance(l, list) for l in t[1]):
            return ["lit", [_lit_twin(l, to) for l in t[1]]]
        return [twin_ann_term(x, to) for x in t]
    return t


def twins(case):
    """twin cases of a checker case (m == 'checker'): same shape, colliding under == / hash / repr / __qualname__:
    the annotation with P <-> Pdup (a class made twice: same module, qualified name, repr), the value with P-instances <-> Pdup-instances,
    the value with every 0/1/0.0/1.0/False/True (and every integral number) moved to another numeric type, Literal members likewise."""
    if case.get('m') != 'checker' or case.get('x', {}).get('cycle') or case.get('x', {}).get('alias'):
        return []
    at, vt = case['c']['ann'], case['c']['val']
    out, seen = [], {json.dumps([at, vt])}

    def add(a2, v2, kind):
        try:
            a2 = canon_ann(a2)[0]
            v2 = canon_term(v2)
        except Exception:
            return
        key = json.dumps([a2, v2])
        if key in seen or v2 is None:
            return
        seen.add(key)
        x = {k: v for k, v in case.get('x', {}).items() if k not in ('alts', 'valts', 'history')}
        x.update(kind='twin:' + kind, alts=[], valts=[])
        out.append({'m': 'checker', 'c': dict(case['c'], ann=a2, val=v2), 'x': x})
    p, d = IDX[P], IDX[Pdup]
    add(_swap_cls(at, p, d), vt, 'classInAnnotation')
    add(at, _swap_cls(vt, p, d), 'classInValue')
    for to in ('bool', 'int', 'float'):
        add(at, twin_val_term(vt, to), 'scalarsTo' + to)
    for to in ('bool', 'int'):
        add(twin_ann_term(at, to), vt, 'literalsTo' + to)
    return out
